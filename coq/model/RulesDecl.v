(* RulesDecl.v — what a j5s property declares: field types with their validation
   rules, list rules and annotations (proto/j5/j5/schema/v1/schema.proto), and
   what the compiler emits for one property (abstract (buf.validate.field),
   (j5.ext.v1.field), (j5.list.v1.field), (j5.ext.v1.key)).
   Strings are lists of N: code points for values, bytes for names/patterns. *)
From Coq Require Import String List NArith ZArith Bool.
Import ListNotations.

Definition str := list N.

(* ---- declared side ------------------------------------------------------- *)

Inductive ikind := I32 | I64 | U32 | U64.

(* IntegerField.Rules: optional int64 minimum/maximum, optional bool exclusive_* *)
Record int_rules := IR {
  ir_min : option Z; ir_max : option Z;
  ir_xmin : option bool; ir_xmax : option bool }.

(* StringField.Rules *)
Record str_rules := SR { sr_pat : option str; sr_min : option N; sr_max : option N }.
(* BytesField.Rules *)
Record len_rules := LR { lr_min : option N; lr_max : option N }.
(* EnumField.Rules: option names, short or prefixed *)
Record enum_rules := ER { er_in : list str; er_notin : list str }.
(* KeyFormat *)
Inductive kfmt := KInformal | KCustom (p : str) | KUuid | KId62.
(* ArrayField.Rules *)
Record arr_rules := AR { ar_min : option N; ar_max : option N; ar_uniq : option bool }.
(* MapField.Rules *)
Record map_rules := MR { mr_min : option N; mr_max : option N }.
(* Date/Decimal rules: textual bounds *)
Record txt_rules := TR {
  tr_min : option str; tr_max : option str;
  tr_xmin : option bool; tr_xmax : option bool }.

(* TimestampField.Rules: bounds as whole seconds (the harness refuses others) *)
Record ts_rules := TSR {
  tsr_min : option Z; tsr_max : option Z;
  tsr_xmin : option bool; tsr_xmax : option bool }.
(* ObjectField.Rules *)
Record obj_rules := OBR { obr_min : option N; obr_max : option N }.

(* list rules (j5.list.v1.*Rules): the message is copied as a whole, so only
   its identity matters; the payload is (filterable, sortable, searchable,
   default_sort, default_filters) as the generator set them *)
Record lpay := LP {
  lp_filterable : bool; lp_sortable : bool; lp_searchable : bool;
  lp_default_sort : bool; lp_filters : list str }.

(* EntityKey on a KeyField *)
Inductive ekey := EPrimary (b : bool) | EForeign (pkg ent : str).
Record entity_key := EK { ek_type : option ekey; ek_tenant : option str }.

(* the enum a field refers to, as declared in the same j5s file:
   effective value-name prefix, the explicit first option standing for value 0
   (a first option whose name ends in UNSPECIFIED; None: value 0 is the implicit
   <prefix>UNSPECIFIED, which no rule can name) and the other option names in
   order (numbers 1..n) *)
Record enum_env := EE { ee_prefix : str; ee_zero : option str; ee_options : list str }.

Inductive fty :=
| TInt (k : ikind) (r : option int_rules) (l : option lpay)
| TStr (f : option str) (r : option str_rules) (l : option lpay)   (* StringField.format *)
| TBytes (r : option len_rules)
| TBool (r : option (option bool)) (l : option lpay)     (* rules present; const *)
| TEnum (r : option enum_rules) (l : option lpay)
| TKey (f : option kfmt) (e : option entity_key) (l : option lpay)
| TFloat (f64 : bool) (rules : bool) (l : option lpay)   (* FloatField.rules present (whatever they say) *)
| TDate (r : option txt_rules) (l : option lpay)
| TDecimal (r : option txt_rules) (l : option lpay)
| TTimestamp (r : option ts_rules) (l : option lpay)
| TAny (only_defined : bool) (types : list str) (l : option lpay)
(* object / oneof fields name the schema they refer to (a schema of the same package) *)
| TObject (ref : str) (flatten : bool) (r : option obj_rules)
| TOneof (ref : str) (rules : bool) (l : option lpay).              (* OneofField.Rules is an empty message: present or not *)

Inductive pty :=
| PSingle (t : fty)
| PArray (r : option arr_rules) (single_form : option str) (t : fty)
| PMap (r : option map_rules) (t : fty).

(* ObjectProperty: name (JSON name), required, explicitly optional, type, description *)
Record prop := P {
  p_name : str; p_req : bool; p_opt : bool; p_ty : pty; p_desc : str }.

(* ---- emitted side -------------------------------------------------------- *)

Inductive ubound := NoUb | Lt (z : Z) | Lte (z : Z).
Inductive lbound := NoLb | Gt (z : Z) | Gte (z : Z).

(* the part of buf.validate.FieldConstraints.type that j5 emits *)
Inductive tyc :=
| CInt (k : ikind) (ub : ubound) (lb : lbound)
| CStr (min max : option N) (pat : option str) (uuid : bool)
| CBytes (min max : option N)
| CBool (c : option bool)
| CEnum (defined_only : bool) (cin cnotin : list Z)
| CRep (min max : option N) (uniq : option bool) (items : option tyc)
| CMap (min max : option N) (values : option tyc)
| CTimestamp (ub : ubound) (lb : lbound)     (* seconds *)
| CEmpty                  (* a FieldConstraints without a type, as item / value constraint *)
| COther.                 (* anything else found in a real descriptor *)

Record constraint := C { c_req : bool; c_ty : option tyc }.

(* (j5.ext.v1.field).type *)
Inductive j5ext :=
| XArray (single_form : option str) | XMap (single_form : option str)
| XObject (flatten : bool) | XEnum | XOneof | XString | XInteger | XFloat
| XBool | XBytes | XTimestamp
| XKey (f : option kfmt)     (* (j5.ext.v1.field).key: format (UNSPECIFIED = informal) or pattern *)
| XAny (only_defined : bool) (types : list str)
| XDate (r : option txt_rules) | XDecimal (r : option txt_rules)
| XOther.

(* (j5.list.v1.field).type arms *)
Inductive larm :=
| LDouble | LFloat | LInt32 | LInt64 | LUint32 | LUint64 | LBool
| LStrOpenText | LStrFkUnique | LStrFkUuid | LStrFkId62
| LEnum | LOneof | LTimestamp | LDate | LDecimal | LAny | LOtherArm.

(* (j5.ext.v1.key) *)
Record keyext := KX { kx_primary : bool; kx_foreign : option (str * str); kx_tenant : option str }.

(* proto field kinds j5 emits *)
Inductive pkind :=
| KdInt32 | KdInt64 | KdUint32 | KdUint64 | KdString | KdBytes | KdBool
| KdFloat | KdDouble | KdEnum
| KdMsgObject (name : str) | KdMsgOneof (name : str)   (* a message of the package declared as object / oneof, by name *)
| KdTimestamp | KdDate | KdDecimal | KdAny | KdMapEntry (v : pkind)
| KdOther.

Record fout := FO {
  fo_json : str;             (* json_name *)
  fo_name : str;             (* the proto field name *)
  fo_number : N;
  fo_kind : pkind;
  fo_rep : bool;             (* LABEL_REPEATED *)
  fo_opt : bool;             (* proto3_optional *)
  fo_pres : bool;            (* FieldDescriptor.HasPresence of the linked field *)
  fo_val : option constraint;
  fo_ext : option j5ext;
  fo_list : option (larm * lpay);
  fo_key : option keyext;
  fo_desc : str }.

(* ---- values of a compiled field ------------------------------------------ *)

Inductive value :=
| VInt (z : Z)
| VStr (s : str)           (* the text as its sequence of Unicode code points (on the wire: their UTF-8 encoding) *)
| VBytes (b : str)
| VBool (b : bool)
| VEnum (n : Z)
| VFloat (bits : N)        (* IEEE 754 binary64 bit pattern (a float32 value widened exactly) *)
| VMsg (id : N).           (* a populated message-typed field; [id] stands for its content:
                              two messages are equal iff their ids are (0 = the empty message) *)

Inductive fvalue :=
| FAbsent                  (* explicit-presence field not populated *)
| FOne (v : value)         (* singular field: Get(), i.e. the zero value when an implicit-presence field is unset *)
| FMany (vs : list value)  (* repeated field *)
| FMap (kvs : list (str * value)). (* map field: pairs with pairwise different keys *)

(* ---- what the validator returns ------------------------------------------- *)
(* protovalidate's Validate returns nil (accept), a *ValidationError (reject), or
   another error: a *CompilationError (a constraint of the message type cannot be
   compiled: every message of the type gets it) or a *RuntimeError (evaluating a
   constraint failed on this message). The last two are not verdicts. *)
Inductive errkind := ECompile | ERuntime.
Inductive verdict := VAccept | VReject | VError (k : errkind).

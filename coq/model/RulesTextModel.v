(* RulesTextModel.v — C04, second clause, as a computation: the schema the reader
   obtains from the printed text of a descriptor file, in the models:
     print (ProtoPrintFile.print_file_tokens) -> parse (ProtoParseFile.parse_file_tokens)
     -> decode the option trees (RulesView.view_field) -> read (RulesRead.read_object);
   and the decidable forms of the two hypotheses of the composed theorem that are
   about the descriptor: the file lies inside the printer / parser theorem
   (ProtoPrintFileWf.wf_dfile_b) and its bodies are listed in print order.
   No proofs here. *)
From Coq Require Import String List NArith ZArith Bool.
From J5V.lib Require Import Outcome.
From J5V.model Require Import RulesDecl RulesRead RulesView ProtoPrint ProtoPrintFile ProtoParseFile.
Import ListNotations.

(* the fields of a message in descriptor order: plain fields and the members of its oneofs *)
Definition elem_fields (e : delem) : list dfield :=
  match e with DField f => [f] | DOneof _ _ _ _ fs => fs | _ => [] end.
Definition body_fields (body : list delem) : list dfield := flat_map elem_fields body.

(* no element is less than its left neighbour: Go's insertion sort leaves the list alone *)
Fixpoint adj_sorted {A} (less : A -> A -> bool) (l : list A) : bool :=
  match l with
  | a :: (b :: _) as r => negb (less b a) && adj_sorted less r
  | _ => true
  end.

Definition in_print_order_b (body : list delem) : bool :=
  adj_sorted (fun a b => key_less (ekey a) (ekey b)) body
  && forallb (fun e => match e with
                       | DOneof _ _ _ _ fs => adj_sorted (fun a b => key_less (key0 (f_key a)) (key0 (f_key b))) fs
                       | _ => true
                       end) body.

(* every top-level message of the file *)
Definition file_in_order_b (d : dfile) : bool :=
  forallb (fun e => match e with DMsg _ _ _ _ body => in_print_order_b body | _ => true end) (d_body d).

Definition find_msg (name : list N) (body : list delem) : option (list delem) :=
  match find (fun e => match e with DMsg _ _ n _ _ => ident_eqb n name | _ => false end) body with
  | Some (DMsg _ _ _ _ b) => Some b
  | _ => None
  end.

(* what the reader obtains for message [name] of a descriptor file *)
Definition read_msg (env : enum_env) (name : list N) (d : dfile) : option (outcome (list rprop)) :=
  match find_msg name (d_body d) with
  | Some body => Some (read_object env (map view_field (body_fields body)))
  | None => None
  end.

(* ... and from its printed text *)
Definition read_msg_text (env : enum_env) (imp : xsymtab) (name : list N) (d : dfile) : option (outcome (list rprop)) :=
  match parse_file_tokens imp (print_file_tokens (to_symtab (dfile_symtab imp d)) d) with
  | Some d' => read_msg env name d'
  | None => None
  end.

(* BclCli.v — the decision logic of `j5 j5s fmt` (cmd/j5/internal/cli/j5s.go runJ5sFmt, runForJ5Files,
   fileWriter.PutFile) over an abstract file tree: which files are read, formatted with bcl.Fmt
   (= parser.Fmt = BclFmt.fmt_bytes), written back with what bytes, in which order, and where the
   command stops.  A file tree is a list of (path, content) with distinct paths; a path is the list of
   its slash-separated components relative to --dir (for --file: the path given).
   Modelled: --file and --dir both set is an error before anything is read; --file formats that one
   file whatever its extension; --dir visits the files in fs.WalkDir order (directory entries sorted
   by name, a directory's content in place of the directory: lexicographic on the component lists,
   components compared as byte strings), only those whose path.Ext is ".j5s"; the first file the
   formatter rejects ends the walk with its error, files visited before it stay rewritten; without
   --write nothing is written; with --write the file is replaced by exactly the formatter's output
   (os.WriteFile truncates).  Not modelled: the operating system (permissions, symlinks, a path
   that is not clean: PutFile writes to path.Join(dir, name), assumed to denote the file read),
   standard output.  No proofs here. *)
From Coq Require Import String List NArith ZArith Bool.
From J5V.lib Require Import Text Outcome.
From J5V.model Require Import BclLexer BclParser BclFmt.
Import ListNotations.
Local Open Scope bool_scope.

Definition path : Type := list (list N).
Definition tree : Type := list (path * list N).

Fixpoint path_eqb (a b : path) : bool :=
  match a, b with
  | [], [] => true
  | x :: r, y :: s => list_N_eqb x y && path_eqb r s
  | _, _ => false
  end.

(* byte-string order of file names (Go's string <) *)
Fixpoint bytes_ltb (a b : list N) : bool :=
  match a, b with
  | _, [] => false
  | [], _ :: _ => true
  | x :: r, y :: s => N.ltb x y || (N.eqb x y && bytes_ltb r s)
  end.
(* fs.WalkDir order on files *)
Fixpoint path_ltb (a b : path) : bool :=
  match a, b with
  | _, [] => false
  | [], _ :: _ => true
  | x :: r, y :: s => bytes_ltb x y || (list_N_eqb x y && path_ltb r s)
  end.
Fixpoint insert_path {A} (e : path * A) (l : list (path * A)) : list (path * A) :=
  match l with
  | [] => [e]
  | x :: r => if path_ltb (fst x) (fst e) then x :: insert_path e r else e :: l
  end.
Definition walk_order {A} (l : list (path * A)) : list (path * A) := fold_right insert_path [] l.

(* path.Ext(pathname) == ".j5s": the final element ends with .j5s (the suffix has no other dot) *)
Definition dot_j5s : list N := [46; 106; 53; 115]%N.
Fixpoint ends_with (s suf : list N) : bool :=
  list_N_eqb s suf || match s with [] => false | _ :: r => ends_with r suf end.
Definition is_j5s (p : path) : bool := ends_with (last p []) dot_j5s.

Fixpoint lookup (t : tree) (p : path) : option (list N) :=
  match t with
  | [] => None
  | (q, d) :: r => if path_eqb q p then Some d else lookup r p
  end.
(* os.WriteFile on an existing file: replace its content *)
Definition put (t : tree) (p : path) (d : list N) : tree :=
  map (fun e => if path_eqb (fst e) p then (fst e, d) else e) t.

(* what the command did: the tree afterwards, the files it printed (without --write), the file whose
   error ended it (None: exit status 0) *)
Record cli_out := mkCli { fs_after : tree; printed : list (path * list N); failed : option path }.

(* doFile for each visited file, in order *)
Fixpoint run_files (write : bool) (todo : list (path * list N)) (t : tree) (pr : list (path * list N)) : cli_out :=
  match todo with
  | [] => mkCli t pr None
  | (p, data) :: r =>
    match fmt_bytes data with
    | Ok fixed => if write then run_files write r (put t p fixed) pr
                  else run_files write r t (pr ++ [(p, fixed)])
    | _ => mkCli t pr (Some p)
    end
  end.

Inductive cli_target := TFile (p : path) | TDir | TBoth (p : path).

Definition run_fmt (target : cli_target) (write : bool) (t : tree) : cli_out :=
  match target with
  | TBoth _ => mkCli t [] (Some [])                       (* "Cannot specify both dir and file" *)
  | TFile p =>
    match lookup t p with
    | None => mkCli t [] (Some p)                          (* os.ReadFile fails *)
    | Some data => run_files write [(p, data)] t []
    end
  | TDir => run_files write (walk_order (filter (fun e => is_j5s (fst e)) t)) t []
  end.

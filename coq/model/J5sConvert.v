(* J5sConvert.v — model of internal/j5s/j5convert (conversion.go, fields.go, enum.go,
   service.go, builders.go, walker_context.go, j5convert.go) composed with the
   sourcewalk traversal: one j5s package to abstract descriptors (Desc.v).
   The three name conversions (strcase.ToSnake / ToCamel / ToScreamingSnake) are
   parameters of the section; the correspondence instantiates them with lib/Strcase.v.
   Executable, stdlib only, no proofs. *)
From Coq Require Import String List NArith Bool.
From J5V.lib Require Import Outcome.
From J5V.model Require Import J5sAst Desc J5sWalk J5sLink.
Import ListNotations.
Local Open Scope N_scope.

(* imports.go constants *)
Definition imp_validate : str := b "buf/validate/validate.proto".
Definition imp_ext : str := b "j5/ext/v1/annotations.proto".
Definition imp_date : str := b "j5/types/date/v1/date.proto".
Definition imp_decimal : str := b "j5/types/decimal/v1/decimal.proto".
Definition imp_list : str := b "j5/list/v1/annotations.proto".
Definition imp_timestamp : str := b "google/protobuf/timestamp.proto".
Definition imp_any : str := b "j5/types/any/v1/any.proto".
Definition imp_httpbody : str := b "google/api/httpbody.proto".
Definition imp_http : str := b "google/api/annotations.proto".
Definition imp_empty : str := b "google/protobuf/empty.proto".
Definition imp_messaging : str := b "j5/messaging/v1/annotations.proto".

Definition tn_timestamp : str := b ".google.protobuf.Timestamp".
Definition tn_date : str := b ".j5.types.date.v1.Date".
Definition tn_decimal : str := b ".j5.types.decimal.v1.Decimal".
Definition tn_any : str := b ".j5.types.any.v1.Any".
Definition tn_empty : str := b ".google.protobuf.Empty".
Definition tn_httpbody : str := b ".google.api.HttpBody".

(* "Nest.Path.Name": what TypeRef.protoTypeName yields for an inline type (no package, so no
   leading dot): a name the linker resolves relative to the scope of the field *)
Definition rel_name (path : list str) : str := join dot path.

(* TypeRef.protoTypeName *)
Definition tr_tname (t : typeref) : str :=
  match tr_pkg t with
  | [] => tr_name t
  | p => dot ++ p ++ dot ++ tr_name t
  end.

(* fields.go mapName: CamelCase of the proto field name + "Entry" (ASCII) *)
Definition upper (c : N) : N := if (97 <=? c) && (c <=? 122) then c - 32 else c.
Fixpoint map_name_go (s : str) (next_upper : bool) : str :=
  match s with
  | [] => []
  | c :: r => if c =? 95 then map_name_go r true
              else (if next_upper then upper c else c) :: map_name_go r false
  end.
Definition map_name (s : str) : str := map_name_go s true ++ b "Entry".

(* what buildField yields for one (non-array, non-map) field *)
Record fcore := mkCore {
  fc_type : ptype;
  fc_tname : str;
  fc_msgs : list dmsg;         (* inline messages visited while building the field node *)
  fc_enums : list denum;
  fc_imports : list str;
  fc_validate : bool           (* (buf.validate.field) is set on the field options *)
}.

Definition core (t : ptype) (tn : str) (imps : list str) (v : bool) : fcore :=
  mkCore t tn [] [] imps v.

Definition scalar_core (s : scalar) : fcore :=
  match s with
  | SString => core TString [] [imp_ext] false
  | SBool => core TBool [] [imp_ext] false
  | SBytes => core TBytes [] [imp_ext] false
  | SInt I32 => core TInt32 [] [imp_ext] false
  | SInt I64 => core TInt64 [] [imp_ext] false
  | SInt U32 => core TUint32 [] [imp_ext] false
  | SInt U64 => core TUint64 [] [imp_ext] false
  | SFloat F32 => core TFloat [] [imp_ext] false
  | SFloat F64 => core TDouble [] [imp_ext] false
  | STimestamp => core TMessage tn_timestamp [imp_timestamp; imp_ext] false
  | SDate => core TMessage tn_date [imp_date] false
  | SDecimal => core TMessage tn_decimal [imp_decimal] false
  | SKey KNone => core TString [] [imp_ext] false
  | SKey _ => core TString [] [imp_ext; imp_validate] true
  | SAny => core TMessage tn_any [imp_any] false
  end.

(* result of converting a run of properties *)
Record pres := mkPres {
  pr_fields : list dfield;
  pr_msgs : list dmsg;
  pr_enums : list denum;
  pr_imports : list str
}.
Definition pres_nil : pres := mkPres [] [] [] [].
Definition pres_app (x y : pres) : pres :=
  mkPres (pr_fields x ++ pr_fields y) (pr_msgs x ++ pr_msgs y)
         (pr_enums x ++ pr_enums y) (pr_imports x ++ pr_imports y).

Section Compile.
Variables snake camel screaming : str -> str.

(* ------------------------------------------------------------------ enums *)
Definition enum_prefix (name pfx : str) : str :=
  match pfx with [] => screaming name ++ b "_" | _ => pfx end.

(* enumBuilder.addValue: the prefix is added unless already there *)
Definition value_name (pfx o : str) : str := if has_prefix pfx o then o else pfx ++ o.

Fixpoint number_opts (pfx : str) (n : N) (l : list str) : list (str * N) :=
  match l with
  | [] => []
  | o :: r => (value_name pfx o, n) :: number_opts pfx (N.succ n) r
  end.

Definition unspecified : str := b "UNSPECIFIED".

(* enum.go isExplicitZero (fix a65e1f2): the first option spells the zero value - UNSPECIFIED or
   <PREFIX>UNSPECIFIED - exactly when the name addValue gives it is <PREFIX>UNSPECIFIED *)
Definition explicit_zero (pfx o : str) : bool := str_eqb (value_name pfx o) (pfx ++ unspecified).

(* visitEnumNode *)
Definition cv_enum (name : str) (e : enum) : denum :=
  let pfx := enum_prefix name (e_prefix e) in
  match e_opts e with
  | o :: r =>
      if explicit_zero pfx o
      then mkDenum name ((value_name pfx o, 0) :: number_opts pfx 1 r)
      else mkDenum name ((pfx ++ unspecified, 0) :: number_opts pfx 1 (o :: r))
  | [] => mkDenum name [(pfx ++ unspecified, 0)]
  end.

(* ------------------------------------------------------------------ fields *)
Definition ref_core (ev : env) (r : ref) (want_enum : bool) : outcome fcore :=
  obind (resolve ev r) (fun t =>
    if want_enum then
      if tr_enum t then Ok (core TEnum (tr_tname t) [tr_file t; imp_ext; imp_validate] true)
      else Err "type is not an enum"
    else
      if tr_enum t then Err "type is not a message"
      else Ok (core TMessage (tr_tname t) [tr_file t; imp_ext] false)).

(* the JSON names of the synthetic key/value fields are not observed (canonical view: empty) *)
Definition key_field : dfield := mkField (b "key") [] 1 TString LOptional false [] false.
Definition value_field (c : fcore) : dfield :=
  mkField (b "value") [] 2 (fc_type c) LOptional false (fc_tname c) false.

(* [path] is the nest path of the enclosing message (including its own name);
   [inoneof] says the properties are oneof members. *)
Fixpoint cv_item (ev : env) (path : list str) (dflt : str) (f : field) {struct f}
  : outcome fcore :=
  match f with
  | FScalar s => Ok (scalar_core s)
  | FObjRef r | FOneofRef r => ref_core ev r false
  | FEnumRef r => ref_core ev r true
  | FObjInline nm ps =>
      let n := inline_name dflt nm in
      obind (cv_props ev (path ++ [n]) false 1 ps) (fun r =>
        Ok (mkCore TMessage (rel_name (path ++ [n]))
                   [DMsg n MObject (pr_fields r) (pr_msgs r) (pr_enums r)] []
                   (imp_ext :: pr_imports r) false))
  | FOneofInline nm ps =>
      let n := inline_name dflt nm in
      obind (cv_props ev (path ++ [n]) true 1 ps) (fun r =>
        Ok (mkCore TMessage (rel_name (path ++ [n]))
                   [DMsg n MOneof (pr_fields r) (pr_msgs r) (pr_enums r)] []
                   (imp_ext :: pr_imports r) false))
  | FEnumInline e =>
      let n := inline_name dflt (e_name e) in
      Ok (mkCore TEnum (rel_name (path ++ [n])) [] [cv_enum n e] [imp_ext; imp_validate] true)
  | FArray _ | FMap _ => Err "unknown schema type"
  end
with cv_props (ev : env) (path : list str) (inoneof : bool) (num : N) (ps : props) {struct ps}
  : outcome pres :=
  match ps with
  | PNil => Ok pres_nil
  | PCons p r =>
      obind (cv_property ev path inoneof num p) (fun a =>
      obind (cv_props ev path inoneof (N.succ num) r) (fun c =>
        Ok (pres_app a c)))
  end
with cv_property (ev : env) (path : list str) (inoneof : bool) (num : N) (p : property) {struct p}
  : outcome pres :=
  match p with
  | Property n req opt f =>
      let sn := snake n in
      let finish (c : fcore) (lbl : plabel) (ty : ptype) (tn : str) (msgs : list dmsg) (imps : list str) :=
        if req && opt then Err "cannot be both required and optional"
        (* visitOneofNode (fix a0446fc): protobuf does not allow a repeated field in a oneof (the map
           arm answers before it gets here) *)
        else if inoneof && plabel_eqb lbl LRepeated
        then Err "an array cannot be an option of a oneof"
        (* fix d536c9b: proto3_optional (and the synthetic oneof) only when the label is not
           REPEATED - an optional array or map is a plain repeated field; fix a0446fc: nor for an
           option of a oneof (a member of the wrapper's oneof cannot be in a synthetic one) *)
        else Ok (mkPres [mkField sn n num ty lbl (opt && negb (plabel_eqb lbl LRepeated) && negb inoneof) tn inoneof]
                        msgs (fc_enums c)
                        (imps ++ if req then [imp_validate; imp_ext] else [])) in
      match f with
      | FArray it =>
          obind (cv_item ev path (camel n) it) (fun c =>
            (* the array arm calls setJ5Ext (ext import) and wraps the item constraints *)
            finish c LRepeated (fc_type c) (fc_tname c) (fc_msgs c)
                   (imp_ext :: fc_imports c ++ if fc_validate c then [imp_validate] else []))
      | FMap it =>
          obind (cv_item ev path (camel n) it) (fun c =>
            let en := map_name sn in
            (* visitOneofNode (fix 466a7f9): a map cannot be an option of a oneof *)
            if inoneof then Err "a map cannot be an option of a oneof" else
            finish c LRepeated TMessage en
                   (fc_msgs c ++ [DMsg en MMapEntry [key_field; value_field c] [] []])
                   (fc_imports c))
      | _ =>
          obind (cv_item ev path (camel n) f) (fun c =>
            finish c LOptional (fc_type c) (fc_tname c) (fc_msgs c) (fc_imports c))
      end
  end.

(* visitObjectNode / visitOneofNode for a named message with virtual-prepended and declared
   properties; the explicitly nested schemas follow the properties. *)
Definition is_oneof (k : mkind) : bool := match k with MOneof => true | _ => false end.

Fixpoint cv_nested (ev : env) (path : list str) (n : nested) {struct n}
  : outcome (list dmsg * list denum * list str) :=
  match n with
  | NObject nm ps subs =>
      obind (cv_props ev (path ++ [nm]) false 1 ps) (fun r =>
      obind (cv_nesteds ev (path ++ [nm]) subs) (fun s =>
        let '(sm, se, si) := s in
        Ok ([DMsg nm MObject (pr_fields r) (pr_msgs r ++ sm) (pr_enums r ++ se)], [],
            imp_ext :: pr_imports r ++ si)))
  | NOneof nm ps subs =>
      obind (cv_props ev (path ++ [nm]) true 1 ps) (fun r =>
      obind (cv_nesteds ev (path ++ [nm]) subs) (fun s =>
        let '(sm, se, si) := s in
        Ok ([DMsg nm MOneof (pr_fields r) (pr_msgs r ++ sm) (pr_enums r ++ se)], [],
            imp_ext :: pr_imports r ++ si)))
  | NEnum e => Ok ([], [cv_enum (e_name e) e], [])
  end
with cv_nesteds (ev : env) (path : list str) (ns : nesteds) {struct ns}
  : outcome (list dmsg * list denum * list str) :=
  match ns with
  | NNil => Ok ([], [], [])
  | NCons n r =>
      obind (cv_nested ev path n) (fun a =>
      obind (cv_nesteds ev path r) (fun c =>
        let '(am, ae, ai) := a in
        let '(cm, ce, ci) := c in
        Ok (am ++ cm, ae ++ ce, ai ++ ci)))
  end.

(* a root-level virtual object (request, response, topic message): virtual-prepended
   properties are numbered first *)
Definition cv_virtual (ev : env) (name : str) (virt decl : props)
  : outcome (dmsg * list str) :=
  obind (cv_props ev [name] false 1 (papp virt decl)) (fun r =>
    Ok (DMsg name MObject (pr_fields r) (pr_msgs r) (pr_enums r), imp_ext :: pr_imports r)).

(* ------------------------------------------------------------------ services *)
Definition colon : N := 58.

Fixpoint has_prop (name : str) (ps : props) : bool :=
  match ps with
  | PNil => false
  | PCons p r => str_eqb (prop_name p) name || has_prop name r
  end.

(* ":name" -> "{snake_name}" per path segment; every parameter must be a request field *)
Fixpoint rewrite_segs (req : props) (segs : list str) : outcome (list str) :=
  match segs with
  | [] => Ok []
  | s :: r =>
      obind (rewrite_segs req r) (fun r' =>
        match s with
        | c :: nm =>
            if c =? colon then
              if has_prop nm req then Ok (([123] ++ snake nm ++ [125]) :: r')
              else Err "missing field in request"
            else Ok (s :: r')
        | [] => Ok (s :: r')
        end)
  end.

Definition http_rule (base : option str) (m : method) : outcome dhttp :=
  let resolved := match base with Some bp => path_join bp (m_path m) | None => m_path m end in
  obind (rewrite_segs (m_request m) (split 47 resolved)) (fun segs =>
    Ok (mkHttp (m_verb m) (join slash segs)
               (match m_verb m with VGet => [] | _ => [42] end))).

Definition cv_method (ev : env) (base : option str) (m : method)
  : outcome (list dmsg * dmethod * list str) :=
  let reqn := m_name m ++ b "Request" in
  let respn := m_name m ++ b "Response" in
  obind (cv_virtual ev reqn PNil (m_request m)) (fun rq =>
  obind (match m_response m with
         | None => Ok ([], b "google.api.HttpBody", [imp_httpbody])
         | Some ps => obind (cv_virtual ev respn PNil ps) (fun rs =>
                        Ok ([fst rs], respn, snd rs))
         end) (fun rs =>
  obind (http_rule base m) (fun h =>
    let '(rmsgs, outn, rimps) := rs in
    Ok (fst rq :: rmsgs,
        mkDmethod (m_name m) reqn outn (Some h),
        snd rq ++ rimps ++ [imp_http])))).

Fixpoint cv_methods (ev : env) (base : option str) (ms : list method)
  : outcome (list dmsg * list dmethod * list str) :=
  match ms with
  | [] => Ok ([], [], [])
  | m :: r =>
      obind (cv_method ev base m) (fun a =>
      obind (cv_methods ev base r) (fun c =>
        let '(am, ad, ai) := a in
        let '(cm, cd, ci) := c in
        Ok (am ++ cm, ad :: cd, ai ++ ci)))
  end.

Definition cv_service (ev : env) (s : service)
  : outcome (list dmsg * list dservice * list str) :=
  obind (cv_methods ev (sv_base s) (sv_methods s)) (fun r =>
    let '(ms, ds, is) := r in
    Ok (ms, [mkDservice (sv_name s ++ b "Service") ds None], is)).

(* ------------------------------------------------------------------ topics *)
Fixpoint cv_tmsgs (ev : env) (tname : str) (single : bool) (virt : props) (l : list tmsg)
  : outcome (list dmsg * list dmethod * list str) :=
  match l with
  | [] => Ok ([], [], [])
  | t :: r =>
      obind (match tm_name t with
             | Some n => Ok n
             | None => if single then Ok tname else Err "method name is required"
             end) (fun mn =>
      let msgn := mn ++ b "Message" in
      obind (cv_virtual ev msgn virt (tm_fields t)) (fun a =>
      obind (cv_tmsgs ev tname single virt r) (fun c =>
        let '(cm, cd, ci) := c in
        Ok (fst a :: cm, mkDmethod mn msgn tn_empty None :: cd, snd a ++ ci))))
  end.

Definition is_single {A} (l : list A) : bool := match l with [_] => true | _ => false end.

(* acceptTopic *)
Definition accept_topic (ev : env) (tname topic_name : str) (rl : role) (virt : props) (l : list tmsg)
  : outcome (list dmsg * list dservice * list str) :=
  obind (cv_tmsgs ev tname (is_single l) virt l) (fun r =>
    let '(ms, ds, is) := r in
    Ok (ms, [mkDservice (camel tname ++ b "Topic") ds (Some (topic_name, rl))],
        is ++ [imp_messaging; imp_empty])).

Definition default_tm_name (name : str) (t : tmsg) : tmsg :=
  match tm_name t with None => mkTmsg (Some name) (tm_fields t) | Some _ => t end.

Definition cv_topic (ev : env) (t : topic)
  : outcome (list dmsg * list dservice * list str) :=
  match t with
  | TPublish name msgs => accept_topic ev name (snake name) RPublish PNil msgs
  | TReqRes name req reply =>
      obind (accept_topic ev (name ++ b "Request") (snake name) RRequest virt_request req) (fun a =>
      obind (accept_topic ev (name ++ b "Reply") (snake name) RReply virt_request reply) (fun c =>
        let '(am, asv, ai) := a in
        let '(cm, csv, ci) := c in
        Ok (am ++ cm, asv ++ csv, ai ++ ci)))
  | TUpsert name entity msg =>
      accept_topic ev name (snake name) (RUpsert entity) virt_upsert [default_tm_name name msg]
  | TEvent name entity msg =>
      accept_topic ev name (snake name) (REvent entity) PNil [msg]
  end.

(* ------------------------------------------------------------------ files *)
(* ensureImport keeps the dependency list sorted and free of duplicates and of the file itself *)
Fixpoint insert_dep (x : str) (l : list str) : list str :=
  match l with
  | [] => [x]
  | y :: r => if str_eqb x y then l else if str_ltb x y then x :: l else y :: insert_dep x r
  end.
Definition deps_of (self : str) (imps : list str) : list str :=
  fold_left (fun acc i => if str_eqb i self then acc else insert_dep i acc) imps [].

(* accumulators of one output file *)
Record facc := mkFacc {
  fa_msgs : list dmsg; fa_enums : list denum; fa_svcs : list dservice; fa_imports : list str;
  fa_used : bool }.
Definition facc_nil : facc := mkFacc [] [] [] [] false.
Definition facc_add (a : facc) (ms : list dmsg) (es : list denum) (ss : list dservice) (is : list str) : facc :=
  mkFacc (fa_msgs a ++ ms) (fa_enums a ++ es) (fa_svcs a ++ ss) (fa_imports a ++ is) true.

Definition sub_pkg (pkg sub : str) : str := pkg ++ dot ++ sub.

Fixpoint cv_elements (ev : env) (pkg : str) (els : list element) (main svc top : facc)
  : outcome (facc * facc * facc) :=
  match els with
  | [] => Ok (main, svc, top)
  | e :: r =>
      match e with
      | EObject nm ps subs =>
          obind (cv_nested ev [] (NObject nm ps subs)) (fun a =>
            let '(ms, es, is) := a in cv_elements ev pkg r (facc_add main ms es [] is) svc top)
      | EOneof nm ps subs =>
          obind (cv_nested ev [] (NOneof nm ps subs)) (fun a =>
            let '(ms, es, is) := a in cv_elements ev pkg r (facc_add main ms es [] is) svc top)
      | EEnum en =>
          cv_elements ev pkg r (facc_add main [] [cv_enum (e_name en) en] [] []) svc top
      | EService s =>
          obind (cv_service ev s) (fun a =>
            let '(ms, ss, is) := a in cv_elements ev pkg r main (facc_add svc ms [] ss is) top)
      | ETopic t =>
          obind (cv_topic ev t) (fun a =>
            let '(ms, ss, is) := a in cv_elements ev pkg r main svc (facc_add top ms [] ss is))
      end
  end.

Definition mk_file (path pkg : str) (a : facc) : dfile :=
  mkDfile path pkg (deps_of path (fa_imports a)) (fa_msgs a) (fa_enums a) (fa_svcs a).

(* ConvertJ5File *)
Definition cv_file (exports : str -> option (list typeref)) (f : jfile) : outcome (list dfile) :=
  let pkg := j5s_pkg f in
  obind (import_map (jf_imports f) []) (fun im =>
    let ev := mkEnv pkg im exports in
    obind (cv_elements ev pkg (jf_elements f) facc_nil facc_nil facc_nil) (fun r =>
      let '(main, svc, top) := r in
      Ok (mk_file (main_proto_path f) pkg main ::
          (if fa_used svc then [mk_file (sub_proto_path f (b "service")) (sub_pkg pkg (b "service")) svc] else []) ++
          (if fa_used top then [mk_file (sub_proto_path f (b "topic")) (sub_pkg pkg (b "topic")) top] else [])))).

Fixpoint cv_files (exports : str -> option (list typeref)) (fs : list bfile) : outcome (list dfile) :=
  match fs with
  | [] => Ok []
  | BJ f :: r =>
      if file_lists_ok f then
        obind (cv_file exports f) (fun a =>
        obind (cv_files exports r) (fun c => Ok (a ++ c)))
      else Err "list method: the response must have exactly one array of objects"
  | BP _ :: r => cv_files exports r
  end.

(* loadLocalPackage: every .j5s source of [pkg] converted (hand-written .proto files of the
   package are linked too, but their descriptors are not the compiler's output). *)
Definition convert_package (bd : bundle) (pkg : str) : outcome (list dfile) :=
  match pkg_files bd pkg with
  | [] => Err "no files for package"
  | fs => cv_files (pkg_exports camel bd) fs
  end.

(* every symbol the files linked for a package define; the sub-package files carry their own
   package name (<pkg>.service, <pkg>.topic) *)
Definition package_symbols (bd : bundle) (pkg : str) (fs : list dfile) : list str :=
  pkg_pfile_symbols bd pkg ++ flat_map file_symbols fs.

(* The linker also links every file the package imports, transitively (linker.go
   loadDependencies); files generated from .j5s sources of other local packages are converted
   (with their whole package, as loadPackage does) and linked the same way.  Every unit of
   fuel is spent on a generated file not linked before. *)
Definition find_jfile (bd : bundle) (path : str) : option jfile :=
  match find (fun f => match f with BJ j => str_eqb (main_proto_path j) path | BP _ => false end) bd with
  | Some (BJ j) => Some j
  | _ => None
  end.

Definition mem_str (x : str) (l : list str) : bool := existsb (str_eqb x) l.

Fixpoint next_todo (bd : bundle) (todo done : list str) : option (str * jfile * list str) :=
  match todo with
  | [] => None
  | p :: rest =>
      if mem_str p done then next_todo bd rest done
      else match find_jfile bd p with
           | Some j => Some (p, j, rest)
           | None => next_todo bd rest done
           end
  end.

Fixpoint link_closure (fuel : nat) (bd : bundle) (todo done : list str) : outcome unit :=
  match next_todo bd todo done with
  | None => Ok tt
  | Some (p, j, rest) =>
      match fuel with
      | O => OutOfFuel
      | S fu =>
          obind (convert_package bd (j5s_pkg j)) (fun fs =>
            match find (fun f => str_eqb (fl_path f) p) fs with
            | None => Err "file not produced"
            | Some f =>
                if nodup_str (file_symbols f) then
                  obind (link_file f) (fun _ => link_closure fu bd (fl_deps f ++ rest) (p :: done))
                else Err "symbol already defined"
            end)
      end
  end.

(* PackageSet.CompilePackage: convert, then link: the linker's symbol table rejects a symbol
   defined twice among the files of the package; type names are qualified *)
Definition compile_package (bd : bundle) (pkg : str) : outcome (list dfile) :=
  obind (convert_package bd pkg) (fun fs =>
  if negb (nodup_str (package_symbols bd pkg fs)) then Err "symbol already defined" else
  obind (link_files fs) (fun linked =>
  obind (link_closure (S (length bd)) bd (flat_map fl_deps fs) (map fl_path fs)) (fun _ =>
    Ok linked))).

End Compile.

(* ProtoPrintFileX.v — the parts of a file descriptor that model/ProtoPrintFile.v [dfile] leaves out or keeps
   opaque, added BESIDE it (other families import ProtoPrintFile.v read-only):

   (1) options on the key / value FIELD of a synthetic map entry message. protodesc keeps them
       (FieldDescriptorProto.options of `FooEntry.key` / `FooEntry.value`); j5convert/fields.go buildProperty puts
       the item annotations of `map:<item>` there ((j5.ext.v1.field), (j5.list.v1.field), (buf.validate.field) of
       the item).  The printer never looks at them: types.go printMessage skips a nested message with
       IsMapEntry() (line 175) and printField writes `map<K, V>` from field.MapKey() / field.MapValue() KINDS only
       (lines 258-270).  protocompile synthesises the entry message of a `map<K, V>` field with option-free key and
       value fields.  [dfilex] = dfile + the table of those options; the printer model is the one of
       ProtoPrintFile.v on the dfile part (the table is dropped), the parser model returns an empty table.

   (2) file-level options (protoprint.go printFile, the loop over descriptorpb.FileOptions): a bool option is
       written true / false, a string option as a text-format string literal (optionreflect.QuoteString =
       prototextString since /repo b69d449; before that commit raw between quotes).  In [dfile] the value is an
       opaque token; here it is a typed value, [fopt_token] writes it with the literal-layer printer
       [print_string_lit], [fopt_read] reads the token back with the text-format lexer model [parse_string_lit].

   No proofs in this file. *)
From Coq Require Import String List NArith ZArith Bool.
From J5V.lib Require Import Outcome Corr.
From J5V.model Require Import ProtoPrintLit ProtoPrint ProtoPrintCorr ProtoPrintFile ProtoParseFile.
Import ListNotations.
Local Open Scope N_scope.
Local Open Scope bool_scope.

(* ------------------------------------------------------------------ (2) file options, typed *)
Inductive fopt_val := FBool (v : bool) | FStr (s : list N).

Definition w_true : ident := [116;114;117;101].
Definition w_false : ident := [102;97;108;115;101].

(* printFile: case protoreflect.BoolKind / case protoreflect.StringKind *)
Definition fopt_token (v : fopt_val) : token :=
  match v with
  | FBool true => TIdent w_true
  | FBool false => TIdent w_false
  | FStr s => TLit (print_string_lit s)
  end.

(* the printer before /repo b69d449: the string raw between quotes *)
Definition fopt_token_raw (v : fopt_val) : token :=
  match v with
  | FStr s => TLit (quote s)
  | _ => fopt_token v
  end.

Definition fopt_of (o : ident * fopt_val) : ident * token := (fst o, fopt_token (snd o)).

(* what the consumer of the text makes of the token (protocompile: identifier true / false for a bool option,
   a string literal for a string option; anything else is an error for these option types) *)
Definition fopt_read (t : token) : option fopt_val :=
  match t with
  | TIdent w => if ident_eqb w w_true then Some (FBool true)
                else if ident_eqb w w_false then Some (FBool false) else None
  | TLit l => match parse_string_lit l with Some s => Some (FStr s) | None => None end
  | _ => None
  end.

Definition fopt_val_eqb (a b : fopt_val) : bool :=
  match a, b with
  | FBool x, FBool y => Bool.eqb x y
  | FStr x, FStr y => bytes_eqb x y
  | _, _ => false
  end.

Definition bytes_small (s : list N) : bool := forallb (fun c => c <? 256) s.

(* a file option of a dfile whose token is what the printer writes for SOME typed value *)
Definition fopt_typed_b (o : ident * token) : bool :=
  match fopt_read (snd o) with
  | Some v => token_eqb (fopt_token v) (snd o)
              && match v with FStr s => bytes_small s | _ => true end
  | None => false
  end.

Definition fopts_typed_b (d : dfile) : bool := forallb fopt_typed_b (d_fopts d).

(* ------------------------------------------------------------------ (1) map entry field options *)
(* the map field is addressed by the path of the message that declares it and the field's name *)
Record entry_opts := { eo_msg : qname; eo_field : ident; eo_key : list dopt; eo_value : list dopt }.

Record dfilex := { x_file : dfile; x_entries : list entry_opts }.

Definition eo_live (e : entry_opts) : bool :=
  match eo_key e, eo_value e with [], [] => false | _, _ => true end.

(* the entries that carry an option (an entry without options is the same as no entry in the table) *)
Definition live_entries (l : list entry_opts) : list entry_opts := filter eo_live l.

(* the map fields of a file, as (declaring message path, field name) *)
Definition field_is_map (f : dfield) : bool := match f_type f with DMapT _ _ _ => true | DSingle _ => false end.

Fixpoint delem_maps (prefix : qname) (e : delem) : list (qname * ident) :=
  match e with
  | DMsg _ _ n _ body =>
      (fix go (l : list delem) : list (qname * ident) :=
         match l with
         | [] => []
         | DField f :: r => (if field_is_map f then [(prefix ++ [n], f_name f)] else []) ++ go r
         | x :: r => delem_maps (prefix ++ [n]) x ++ go r
         end) body
  | _ => []
  end.

Definition dfile_maps (d : dfile) : list (qname * ident) := flat_map (delem_maps []) (d_body d).

Definition addr_eqb (a b : qname * ident) : bool := qname_eqb (fst a) (fst b) && ident_eqb (snd a) (snd b).
Definition eo_addr (e : entry_opts) : qname * ident := (eo_msg e, eo_field e).

Fixpoint addrs_distinct (l : list (qname * ident)) : bool :=
  match l with
  | [] => true
  | a :: r => negb (existsb (addr_eqb a) r) && addrs_distinct r
  end.

(* the table names map fields of the file, each at most once *)
Definition entries_wf_b (D : dfilex) : bool :=
  forallb (fun e => existsb (addr_eqb (eo_addr e)) (dfile_maps (x_file D))) (x_entries D)
  && addrs_distinct (map eo_addr (x_entries D)).

(* the printer as it is: the table is not consulted *)
Definition print_file_tokens_x (st : symtab) (D : dfilex) : list token := print_file_tokens st (x_file D).

(* protocompile on `map<K, V> name = n [...]`: the synthetic entry has option-free fields *)
Definition parse_file_tokens_x (imp : xsymtab) (ts : list token) : option dfilex :=
  match parse_file_tokens imp ts with
  | Some d => Some {| x_file := d; x_entries := [] |}
  | None => None
  end.

(* does the model lose anything on this descriptor?  (= the direct oracle's finding
   "options on the value field of a map entry are not printed") *)
Definition loses_entry_options (D : dfilex) : bool :=
  match live_entries (x_entries D) with [] => false | _ => true end.

(* CodecDecTime.v — time.Parse(time.RFC3339, s) as a function: what timestampFromString
   (lib/j5reflect/value_go.go) accepts and which instant it stores.

   Go first tries the strict fast path parseRFC3339 and falls back to the general layout parser
   (time/format.go, parse) with the layout "2006-01-02T15:04:05Z07:00"; whatever the fast path
   accepts the general parser accepts with the same result, so the function is the general
   parser's.  Beyond RFC 3339 it accepts: an hour of one digit ("T1:02:03"), a fractional second
   after ',' as well as '.', any number of fraction digits (the first nine count), zone offsets up
   to 24:60.  It rejects: lower case 't' / 'z', a missing zone, hour 24, second 60, a day that the
   month does not have, any other text.

   The result is (t.Unix(), t.Nanosecond()) as stored by timestamppb.New.
   The correspondence streams compare this function with the real time.Parse on every timestamp
   text of the run (CTime cases, and the table of every CDec / CQuery case). *)
From Coq Require Import List NArith ZArith Bool.
From J5V.lib Require Import Json.
From J5V.lib Require Civil.
Import ListNotations.
Local Open Scope Z_scope.

Definition digv (c : N) : option Z := if is_digit c then Some (Z.of_N c - 48) else None.

(* getnum(value, fixed=true): exactly two digits *)
Definition take2 (s : bytes) : option (Z * bytes) :=
  match s with
  | a :: b :: r => match digv a, digv b with Some x, Some y => Some (10 * x + y, r) | _, _ => None end
  | _ => None
  end.

(* stdLongYear: four digits *)
Definition take4 (s : bytes) : option (Z * bytes) :=
  match take2 s with
  | Some (hi, r) => match take2 r with Some (lo, r') => Some (100 * hi + lo, r') | None => None end
  | None => None
  end.

(* getnum(value, fixed=false): one digit, or two when the second byte is a digit too *)
Definition take_hour (s : bytes) : option (Z * bytes) :=
  match s with
  | a :: r =>
      match digv a with
      | Some x => match r with
                  | b :: r' => match digv b with Some y => Some (10 * x + y, r') | None => Some (x, r) end
                  | [] => Some (x, r)
                  end
      | None => None
      end
  | [] => None
  end.

Definition expect (c : N) (s : bytes) : option bytes :=
  match s with x :: r => if (x =? c)%N then Some r else None | [] => None end.

(* parseNanoseconds: the first nine digits, scaled to nanoseconds *)
Definition digits_value (ds : bytes) : Z := fold_left (fun a c => 10 * a + (Z.of_N c - 48)) ds 0.
Definition frac_nanos (ds : bytes) : Z :=
  let ds9 := firstn 9 ds in digits_value ds9 * 10 ^ Z.of_nat (9 - length ds9).

(* a fraction after the seconds although the layout has none: '.' or ',' followed by a digit *)
Definition take_frac (s : bytes) : Z * bytes :=
  match s with
  | c :: d :: r =>
      if ((c =? 46)%N || (c =? 44)%N) && is_digit d
      then let '(ds, rest) := take_digits (d :: r) in (frac_nanos ds, rest)
      else (0, s)
  | _ => (0, s)
  end.

(* stdISO8601ColonTZ: 'Z', or sign hh ':' mm with hh <= 24 and mm <= 60; seconds east of UTC *)
Definition take_zone (s : bytes) : option (Z * bytes) :=
  match s with
  | c :: r =>
      if (c =? 90)%N then Some (0, r)
      else match r with
           | h1 :: h2 :: col :: m1 :: m2 :: r' =>
               match take2 [h1; h2], take2 [m1; m2] with
               | Some (hr, _), Some (mm, _) =>
                   if negb (col =? 58)%N || (24 <? hr) || (60 <? mm) then None
                   else if (c =? 43)%N then Some ((hr * 60 + mm) * 60, r')
                   else if (c =? 45)%N then Some (- ((hr * 60 + mm) * 60), r')
                   else None
               | _, _ => None
               end
           | _ => None
           end
  | [] => None
  end.

Definition obind2 {A B} (o : option A) (k : A -> option B) : option B :=
  match o with Some a => k a | None => None end.

Definition go_time_parse (s : bytes) : option (Z * Z) :=
  obind2 (take4 s) (fun '(year, s) =>
  obind2 (expect 45 s) (fun s =>
  obind2 (take2 s) (fun '(month, s) =>
  obind2 (expect 45 s) (fun s =>
  obind2 (take2 s) (fun '(day, s) =>
  obind2 (expect 84 s) (fun s =>
  obind2 (take_hour s) (fun '(hour, s) =>
  obind2 (expect 58 s) (fun s =>
  obind2 (take2 s) (fun '(mi, s) =>
  obind2 (expect 58 s) (fun s =>
  obind2 (take2 s) (fun '(sec, s) =>
  let '(ns, s) := take_frac s in
  obind2 (take_zone s) (fun '(off, s) =>
  match s with
  | [] =>
      if (month <? 1) || (12 <? month) || (23 <? hour) || (59 <? mi) || (59 <? sec)
         || (day <? 1) || (Civil.days_in month year <? day)
      then None
      else Some (Civil.days_from_civil year month day * 86400 + hour * 3600 + mi * 60 + sec - off, ns)
  | _ :: _ => None
  end)))))))))))).

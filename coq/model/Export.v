(* Export.v — model of the export of reflected schemas to the source-API form
     lib/j5schema/field_schema.go  ToJ5Field of every FieldSchema
     lib/j5schema/root_schema.go   ToJ5Root / ToJ5Object / ToJ5EnumValue / ToJ5Proto
     internal/structure/build_package.go  addSchemas: schema.To.ToJ5Root() per package
   and of the re-import
     lib/j5schema/schema_from_desc.go  PackageSetFromSourceAPI, buildSchemas, buildRoot,
        schemaFromDesc, objectSchemaFromDesc, oneofSchemaFromDesc, enumSchemaFromDesc,
        objectPropertyFromDesc; schema_set.go assertRefsLink.
   Which members each function copies is NOT written here: it is read from the composite
   literals of the Go source (gen/ReflectGen.v: export_sites / import_sites), so a copy line
   added to or removed from the Go code changes what this model computes.
   The exported form is a term type of its own (ExportForm.v, modelled on schema.proto): the
   export maps root / fschema / prop to xroot / xfield / xprop, the import maps them back and has
   to recompute what the form does not carry (Kind, WellKnownTypeName).  Inline (non-ref) object /
   oneof / enum fields are representable ([XInline], content not modelled): the export never
   produces them and the import cannot link them.  No proofs here. *)
From Coq Require Import String Ascii List NArith ZArith Bool.
From J5V.lib Require Import Outcome.
From J5V.model Require Import ReflectDesc ReflectSchema Reflect.
From J5V.model Require Export ExportForm.
From J5V.gen Require ReflectGen.
Import ListNotations.
Local Open Scope bool_scope.
Local Open Scope string_scope.

Definition site_tbl := list (string * string * list string).
Definition copies (tbl : site_tbl) (site typ key : string) : bool :=
  existsb (fun e => match e with (s, t, ks) =>
                      String.eqb s site && String.eqb t typ && existsb (String.eqb key) ks end) tbl.
(* a later `x.K = ...` in the same case also sets the member *)
Definition assigns (tbl : site_tbl) (site key : string) : bool := copies tbl site "assign" key.

Definition xc := copies ReflectGen.export_sites.
Definition ic := copies ReflectGen.import_sites.
Definition keep {A} (b : bool) (o : option A) : option A := if b then o else None.
Definition keepl {A} (b : bool) (l : list A) : list A := if b then l else [].
Definition keepb (b v : bool) : bool := if b then v else false.
Definition keeps (b : bool) (s : str) : str := if b then s else [].
Definition no_ref : ref := ([], []).

(* ---------------------------------------------------------------- export *)
(* ToJ5Field: reader's field schema -> schema_j5pb.Field *)
Fixpoint export_field (f : fschema) : xfield :=
  match f with
  | FScalar _ p => XScalar p                            (* ScalarSchema.ToJ5Field returns s.Proto *)
  | FAny od ts lr =>
      let s := "AnyField.ToJ5Field" in
      XAny (keepb (xc s "AnyField" "OnlyDefined") od) (keepl (xc s "AnyField" "Types") ts) (keep (xc s "AnyField" "ListRules") lr)
  | FEnum r rules lr ext =>
      let s := "EnumField.ToJ5Field" in
      XEnum (if xc s "EnumField" "Schema" then XRef r else XUnset) (keep (xc s "EnumField" "Rules") rules)
            (keep (xc s "EnumField" "ListRules") lr) (keep (xc s "EnumField" "Ext") ext)
  | FObject r fl rules ext =>
      let s := "ObjectField.ToJ5Field" in
      XObject (if xc s "ObjectField" "Schema" then XRef r else XUnset) (keepb (xc s "ObjectField" "Flatten") fl)
              (keep (xc s "ObjectField" "Rules") rules) (keep (xc s "ObjectField" "Ext") ext)
  | FOneof r rules lr ext =>
      let s := "OneofField.ToJ5Field" in
      XOneof (if xc s "OneofField" "Schema" then XRef r else XUnset) (keep (xc s "OneofField" "Rules") rules)
             (keep (xc s "OneofField" "ListRules") lr) (keep (xc s "OneofField" "Ext") ext)
  | FMap item rules ext =>
      let s := "MapField.ToJ5Field" in
      XMap (export_field item) (keep (xc s "MapField" "Rules") rules) (keep (xc s "MapField" "Ext") ext)
  | FArray item rules ext =>
      let s := "ArrayField.ToJ5Field" in
      XArray (export_field item) (keep (xc s "ArrayField" "Rules") rules) (keep (xc s "ArrayField" "Ext") ext)
  end.

Definition export_prop (p : prop) : xprop :=
  match p with Prop_ j path rq eo d s =>
    let t := "ObjectProperty.ToJ5Proto" in
    XProp (keeps (xc t "ObjectProperty" "Name") j) (keepl (xc t "ObjectProperty" "ProtoField") path)
          (keepb (xc t "ObjectProperty" "Required") rq) (keepb (xc t "ObjectProperty" "ExplicitlyOptional") eo)
          (keeps (xc t "ObjectProperty" "Description") d) (export_field s)
  end.

Definition export_option (o : enumoption) : xoption :=
  match o with EnumOption name num d info =>
    let t := "EnumOption.ToJ5EnumValue" in
    XOption (keeps (xc t "Enum_Option" "Name") name) (if xc t "Enum_Option" "Number" then num else 0%Z)
            (keeps (xc t "Enum_Option" "Description") d) (keep (xc t "Enum_Option" "Info") info)
  end.

Definition export_root (r : root) : xroot :=
  match r with
  | RObject name d entity anym ps =>
      let t := "ObjectSchema.ToJ5Object" in
      XObjectR (keeps (xc t "Object" "Name") name) (keeps (xc t "Object" "Description") d)
               (keep (xc t "Object" "Entity") entity) (keepl (xc t "Object" "AnyMember") anym)
               (keepl (xc t "Object" "Properties") (map export_prop ps))
  | ROneof name d ps =>
      let t := "OneofSchema.ToJ5Root" in
      XOneofR (keeps (xc t "Oneof" "Name") name) (keeps (xc t "Oneof" "Description") d)
              (keepl (xc t "Oneof" "Properties") (map export_prop ps))
  | REnum name d prefix opts info =>
      let t := "EnumSchema.ToJ5Root" in
      XEnumR (keeps (xc t "Enum" "Name") name) (keeps (xc t "Enum" "Description") d) (keeps (xc t "Enum" "Prefix") prefix)
             (keepl (xc t "Enum" "Options") (map export_option opts)) (keepl (xc t "Enum" "Info") info)
  end.

(* addSchemas: every linked entry of every package; an unlinked entry is a nil dereference *)
Fixpoint export_set (st : sset) : outcome (list (ref * xroot)) :=
  match st with
  | [] => Ok []
  | (k, Linked r) :: rest => obind (export_set rest) (fun l => Ok ((k, export_root r) :: l))
  | (k, Placeholder) :: _ => Panic "addSchemas: schema.To.ToJ5Root() on an unlinked ref"
  end.

(* ---------------------------------------------------------------- import *)
(* intKinds / floatKinds *)
Definition int_kind (fmt : N) : option kind :=
  match fmt with 1%N => Some KInt32 | 2%N => Some KInt64 | 3%N => Some KUint32 | 4%N => Some KUint64 | _ => None end.
Definition float_kind (fmt : N) : option kind :=
  match fmt with 1%N => Some KFloat | 2%N => Some KDouble | _ => None end.

Definition s_decimal_pkg := bytes "j5.types.decimal.v1".
Definition s_date_pkg := bytes "j5.types.date.v1".

Definition scalar_site (p : sproto) : string :=
  match p with
  | PBool _ _ => "schemaFromDesc/Field_Bool" | PInteger _ _ _ => "schemaFromDesc/Field_Integer"
  | PFloat _ _ _ => "schemaFromDesc/Field_Float" | PBytes _ => "schemaFromDesc/Field_Bytes"
  | PString _ _ _ => "schemaFromDesc/Field_String_" | PKey _ _ _ => "schemaFromDesc/Field_Key"
  | PTimestamp _ _ => "schemaFromDesc/Field_Timestamp" | PDate _ _ => "schemaFromDesc/Field_Date"
  | PDecimal _ _ => "schemaFromDesc/Field_Decimal"
  end.

(* the scalar arms of schemaFromDesc: Kind and WellKnownTypeName are recomputed from the alternative *)
Definition import_scalar (p : sproto) : res fschema :=
  let kw : res (kind * str) :=
    match p with
    | PBool _ _ => ROk (KBool, [])
    | PInteger fmt _ _ => match int_kind fmt with Some k => ROk (k, []) | None => RErr "unsupported integer format" end
    | PFloat fmt _ _ => match float_kind fmt with Some k => ROk (k, []) | None => RErr "unsupported float format" end
    | PBytes _ => ROk (KBytes, [])
    | PString _ _ _ | PKey _ _ _ => ROk (KString, [])
    | PTimestamp _ _ => ROk (KMessage, [])
    | PDate _ _ => ROk (KMessage, if ic (scalar_site p) "ScalarSchema" "WellKnownTypeName" then s_date_pkg else [])
    | PDecimal _ _ => ROk (KMessage, if ic (scalar_site p) "ScalarSchema" "WellKnownTypeName" then s_decimal_pkg else [])
    end in
  rbind kw (fun kw =>
  (* Proto: schema — the whole scalar description is kept when the literal names Proto *)
  if ic (scalar_site p) "ScalarSchema" "Proto" then ROk (FScalar (Some kw) p)
  else RErr "scalar description not kept").

(* the `schema` oneof of an object / oneof / enum field: a Ref goes through refTo; an inline schema
   is built privately and the field gets item.AsRef(), a RefSchema whose To is nil, which
   assertRefsLink rejects ("unresolved reference") whenever the field is reachable from a package
   schema: modelled as an error of the field; an unset oneof is the default arm *)
Definition import_schema (site : string) (typ : string) (s : xschema) : res ref :=
  match s with
  | XRef r => ROk (if ic site typ "Ref" then r else no_ref)
  | XInline => RErr "inline schema: the field's ref is never linked (assertRefsLink: unresolved reference)"
  | XUnset => RErr "unsupported oneof schema type"
  end.

(* schemaFromDesc: schema_j5pb.Field -> the reader's field schema *)
Fixpoint import_field (f : xfield) : res fschema :=
  match f with
  | XScalar p => import_scalar p
  | XAny od ts lr =>
      let s := "schemaFromDesc/Field_Any" in
      ROk (FAny (keepb (ic s "AnyField" "OnlyDefined") od) (keepl (ic s "AnyField" "Types") ts) (keep (ic s "AnyField" "ListRules") lr))
  | XEnum sch rules lr ext =>
      let s := "schemaFromDesc/Field_Enum/EnumField_Ref" in
      rbind (import_schema s "EnumField" sch) (fun r =>
      ROk (FEnum r (keep (ic s "EnumField" "Rules") rules)
                 (keep (ic s "EnumField" "ListRules") lr) (keep (ic s "EnumField" "Ext") ext)))
  | XObject sch fl rules ext =>
      let s := "schemaFromDesc/Field_Object/ObjectField_Ref" in
      rbind (import_schema s "ObjectField" sch) (fun r =>
      ROk (FObject r (keepb (ic s "ObjectField" "Flatten") fl)
                   (keep (ic s "ObjectField" "Rules") rules) (keep (ic s "ObjectField" "Ext") ext)))
  | XOneof sch rules lr ext =>
      let s := "schemaFromDesc/Field_Oneof/OneofField_Ref" in
      rbind (import_schema s "OneofField" sch) (fun r =>
      ROk (FOneof r (keep (ic s "OneofField" "Rules") rules)
                  (keep (ic s "OneofField" "ListRules") lr) (keep (ic s "OneofField" "Ext") ext)))
  | XMap item rules ext =>
      let s := "schemaFromDesc/Field_Map" in
      rbind (import_field item) (fun it =>
      if assigns ReflectGen.import_sites s "Schema" then
        ROk (FMap it (keep (ic s "MapField" "Rules") rules) (keep (ic s "MapField" "Ext") ext))
      else RErr "map item schema not set")
  | XArray item rules ext =>
      let s := "schemaFromDesc/Field_Array" in
      rbind (import_field item) (fun it =>
      if assigns ReflectGen.import_sites s "Schema" then
        ROk (FArray it (keep (ic s "ArrayField" "Rules") rules) (keep (ic s "ArrayField" "Ext") ext))
      else RErr "array item schema not set")
  end.

(* objectPropertyFromDesc *)
Definition import_prop (p : xprop) : res prop :=
  match p with XProp j path rq eo d s =>
    let t := "objectPropertyFromDesc" in
    rbind (import_field s) (fun s' =>
    if ic t "ObjectProperty" "Schema" then
      ROk (Prop_ (keeps (ic t "ObjectProperty" "JSONName") j) (keepl (ic t "ObjectProperty" "ProtoField") path)
                 (keepb (ic t "ObjectProperty" "Required") rq) (keepb (ic t "ObjectProperty" "ExplicitlyOptional") eo)
                 (keeps (ic t "ObjectProperty" "Description") d) s')
    else RErr "property schema not kept")
  end.

Fixpoint import_props (ps : list xprop) : res (list prop) :=
  match ps with
  | [] => ROk []
  | p :: r => rbind (import_prop p) (fun p' => rbind (import_props r) (fun r' => ROk (p' :: r')))
  end.

Definition import_option (o : xoption) : enumoption :=
  match o with XOption name num d info =>
    let t := "enumSchemaFromDesc" in
    EnumOption (keeps (ic t "EnumOption" "name") name) (if ic t "EnumOption" "number" then num else 0%Z)
               (keeps (ic t "EnumOption" "description") d) (keep (ic t "EnumOption" "Info") info)
  end.

(* buildRoot: objectSchemaFromDesc / oneofSchemaFromDesc / enumSchemaFromDesc *)
Definition import_root (r : xroot) : res root :=
  match r with
  | XObjectR name d entity anym ps =>
      let t := "objectSchemaFromDesc" in
      rbind (import_props ps) (fun ps' =>
      ROk (RObject (keeps (ic t "rootSchema" "name") name) (keeps (ic t "rootSchema" "description") d)
                   (keep (ic t "ObjectSchema" "Entity") entity) (keepl (ic t "ObjectSchema" "AnyMember") anym)
                   (keepl (ic t "ObjectSchema" "Properties") ps')))
  | XOneofR name d ps =>
      let t := "oneofSchemaFromDesc" in
      rbind (import_props ps) (fun ps' =>
      ROk (ROneof (keeps (ic t "rootSchema" "name") name) (keeps (ic t "rootSchema" "description") d)
                  (keepl (ic t "OneofSchema" "Properties") ps')))
  | XEnumR name d prefix opts info =>
      let t := "enumSchemaFromDesc" in
      ROk (REnum (keeps (ic t "rootSchema" "name") name) (keeps (ic t "rootSchema" "description") d)
                 (keeps (ic t "EnumSchema" "NamePrefix") prefix) (keepl (ic t "EnumSchema" "Options") (map import_option opts))
                 (keepl (ic t "EnumSchema" "InfoFields") info))
  end.

(* references of a root *)
Fixpoint field_refs (f : fschema) : list ref :=
  match f with
  | FEnum r _ _ _ | FObject r _ _ _ | FOneof r _ _ _ => [r]
  | FMap it _ _ | FArray it _ _ => field_refs it
  | _ => []
  end.
Definition root_refs (r : root) : list ref := flat_map (fun p => field_refs (p_schema p)) (root_props r).

(* buildSchemas over the entries of the API in the given order (Go ranges over maps: the order is a
   parameter); refTo creates an unlinked ref for every reference met; a schema built twice is an error *)
Fixpoint add_refs (st : sset) (rs : list ref) : sset :=
  match rs with
  | [] => st
  | k :: r => add_refs (fst (ref_to st k)) r
  end.

Fixpoint build_schemas (st : sset) (entries : list (ref * xroot)) : res sset :=
  match entries with
  | [] => ROk st
  | (k, r) :: rest =>
      let st1 := fst (ref_to st k) in
      match lookup st1 k with
      | Some (Linked _) => RErr "schema already exists in package"
      | _ =>
          rbind (import_root r) (fun r' =>
          let st2 := add_refs st1 (root_refs r') in
          build_schemas (update st2 k (Linked r')) rest)
      end
  end.

(* assertRefsLink: every ref has a schema *)
Definition all_linked (st : sset) : bool :=
  forallb (fun ke => match snd ke with Linked _ => true | Placeholder => false end) st.

Definition import_api (entries : list (ref * xroot)) : res sset :=
  rbind (build_schemas [] entries) (fun st =>
  if all_linked st then ROk st else RErr "unresolved reference").

(* every reference of every schema of the set has an entry with a schema *)
Definition refs_resolved (st : sset) : bool :=
  forallb (fun ke => match snd ke with
                     | Linked r => forallb (fun k => match lookup st k with Some (Linked _) => true | _ => false end) (root_refs r)
                     | Placeholder => false
                     end) st.

(* formats the import has a kind for (intKinds / floatKinds) *)
Fixpoint field_importable (f : fschema) : bool :=
  match f with
  | FScalar _ (PInteger fmt _ _) => match int_kind fmt with Some _ => true | None => false end
  | FScalar _ (PFloat fmt _ _) => match float_kind fmt with Some _ => true | None => false end
  | FMap it _ _ | FArray it _ _ => field_importable it
  | _ => true
  end.
Definition root_importable (r : root) : bool := forallb (fun p => field_importable (p_schema p)) (root_props r).
(* the same on the exported form, plus: every schema oneof is a Ref *)
Definition xschema_importable (s : xschema) : bool := match s with XRef _ => true | _ => false end.
Fixpoint xfield_importable (f : xfield) : bool :=
  match f with
  | XScalar (PInteger fmt _ _) => match int_kind fmt with Some _ => true | None => false end
  | XScalar (PFloat fmt _ _) => match float_kind fmt with Some _ => true | None => false end
  | XEnum s _ _ _ | XObject s _ _ _ | XOneof s _ _ _ => xschema_importable s
  | XMap it _ _ | XArray it _ _ => xfield_importable it
  | _ => true
  end.
Definition xroot_importable (r : xroot) : bool := forallb (fun p => xfield_importable (xp_schema p)) (xroot_props r).

(* the hypotheses of the round-trip theorem as computable checks over a reflected set *)
Fixpoint keys_distinct (st : sset) : bool :=
  match st with
  | [] => true
  | (k, _) :: r => negb (existsb (fun ke => ref_eqb (fst ke) k) r) && keys_distinct r
  end.
Definition set_importable (st : sset) : bool :=
  forallb (fun ke => match snd ke with Linked r => root_importable r | Placeholder => false end) st.
Definition set_closed (st : sset) : bool := refs_resolved st.

(* ---------------------------------------------------------------- which source member each copy line reads *)
(* The model's slots copy the like-named member of the source value. [expected_import typ key] /
   [expected_export typ key] is the source text a Go copy line must have for that to be what the Go
   code does too (ExportProofs.import_rhs_ok / export_rhs_ok compare it with the generated tables). *)
Definition expected_import (site typ key : string) : option string :=
  let sel := fun (prefix : string) => Some (prefix ++ key) in
  match typ with
  | "ObjectField" => match key with "Rules" | "Flatten" | "Ext" => sel "st.Object." | _ => None end
  | "OneofField" => match key with "Rules" | "ListRules" | "Ext" => sel "st.Oneof." | _ => None end
  | "EnumField" => match key with "Rules" | "ListRules" | "Ext" => sel "st.Enum." | _ => None end
  | "ArrayField" => match key with "Rules" | "Ext" => sel "st.Array." | _ => None end
  | "MapField" => match key with "Rules" | "Ext" => sel "st.Map." | _ => None end
  | "AnyField" => match key with
                  | "OnlyDefined" | "ListRules" => sel "st.Any."
                  | "Types" => Some "stringSliceConvert(st.Any.Types)"
                  | _ => None
                  end
  | "ScalarSchema" => match key with "Proto" => Some "schema" | _ => None end
  | "ObjectSchema" => match key with "Entity" | "AnyMember" => sel "sch." | _ => None end
  | "rootSchema" => match key with "description" => Some "sch.Description" | "name" => Some "sch.Name" | _ => None end
  | "EnumOption" => match key with
                    | "name" => Some "src.Name" | "description" => Some "src.Description"
                    | "number" => Some "src.Number" | "Info" => Some "src.Info" | _ => None
                    end
  | "EnumSchema" => match key with
                    | "NamePrefix" => Some "sch.Prefix" | "InfoFields" => Some "sch.Info" | "Options" => Some "opts" | _ => None
                    end
  | "ObjectProperty" => match key with
                        | "Schema" => Some "propSchema" | "ProtoField" => Some "protoField" | "JSONName" => Some "prop.Name"
                        | "Required" | "ExplicitlyOptional" | "Description" => sel "prop."
                        | _ => None
                        end
  | "assign" => match key with
                | "Schema" => Some (if String.eqb site "schemaFromDesc/Field_Array" then "itemSchema" else "valueSchema")
                | _ => None
                end
  | _ => None
  end.

Definition expected_export (typ key : string) : option string :=
  let sel := fun (prefix : string) => Some (prefix ++ key) in
  match typ with
  | "AnyField" => match key with
                  | "OnlyDefined" | "ListRules" => sel "s."
                  | "Types" => Some "stringSliceConvert(s.Types)"
                  | _ => None
                  end
  | "EnumField" | "OneofField" => match key with "Rules" | "ListRules" | "Ext" => sel "s." | _ => None end
  | "ObjectField" => match key with "Flatten" | "Rules" | "Ext" => sel "s." | _ => None end
  | "MapField" => match key with "ItemSchema" => Some "item" | "Rules" | "Ext" => sel "s." | _ => None end
  | "ArrayField" => match key with "Items" => Some "item" | "Rules" | "Ext" => sel "s." | _ => None end
  | "Ref" => match key with "Package" => Some "s.Ref.Package.Name" | "Schema" => Some "s.Ref.Schema" | _ => None end
  | "Enum_Option" => match key with
                     | "Name" => Some "eo.name" | "Number" => Some "eo.number"
                     | "Description" => Some "eo.description" | "Info" => Some "eo.Info" | _ => None
                     end
  | "Enum" => match key with
              | "Name" => Some "s.name" | "Description" => Some "s.description" | "Options" => Some "options"
              | "Prefix" => Some "s.NamePrefix" | "Info" => Some "s.InfoFields" | _ => None
              end
  | "Object" => match key with
                | "Description" => Some "s.description" | "Name" => Some "s.name" | "Properties" => Some "properties"
                | "Entity" => Some "s.Entity" | "AnyMember" => Some "s.AnyMember" | _ => None
                end
  | "Oneof" => match key with
               | "Description" => Some "s.description" | "Name" => Some "s.name" | "Properties" => Some "properties" | _ => None
               end
  (* ObjectSchema.ToJ5Root wraps what ToJ5Object built (`built := s.ToJ5Object()`) *)
  | "RootSchema_Object" => match key with "Object" => Some "built" | _ => None end
  | "ObjectProperty" => match key with
                        | "Schema" => Some "prop.Schema.ToJ5Field()" | "Name" => Some "prop.JSONName"
                        | "Required" | "ExplicitlyOptional" | "Description" => sel "prop."
                        | "ProtoField" => Some "fieldPath" | _ => None
                        end
  | _ => None
  end.

Definition rhs_table_ok (expected : string -> string -> string -> option string)
                        (tbl : list (string * string * list (string * string))) : bool :=
  forallb (fun e => match e with (site, typ, kvs) =>
                      forallb (fun kv => match expected site typ (fst kv) with
                                         | Some want => String.eqb want (snd kv)
                                         | None => true
                                         end) kvs end) tbl.

(* every member an export literal sets is accounted for: it is a member the model copies (with the
   expected source text) or its value is itself a composite literal "&T{}" (a wrapper or a constant,
   whose own members are further rows of the table); a member set from any other expression (a new
   exported field the model knows nothing about) fails the check *)
Definition is_literal_text (v : string) : bool :=
  match v with
  | String "&" rest => (match rev (list_ascii_of_string rest) with
                        | "}"%char :: "{"%char :: _ => true
                        | _ => false
                        end)
  | _ => false
  end.
Definition export_table_complete (tbl : list (string * string * list (string * string))) : bool :=
  forallb (fun e => match e with (site, typ, kvs) =>
                      forallb (fun kv => match expected_export typ (fst kv) with
                                         | Some want => String.eqb want (snd kv)
                                         | None => is_literal_text (snd kv)
                                         end) kvs end) tbl.

(* the Kind a scalar import site sets, as Go source text *)
Definition expected_kind_text (site : string) : option string :=
  match site with
  | "schemaFromDesc/Field_Timestamp" | "schemaFromDesc/Field_Decimal" | "schemaFromDesc/Field_Date" => Some "protoreflect.MessageKind"
  | "schemaFromDesc/Field_Bool" => Some "protoreflect.BoolKind"
  | "schemaFromDesc/Field_String_" | "schemaFromDesc/Field_Key" => Some "protoreflect.StringKind"
  | "schemaFromDesc/Field_Bytes" => Some "protoreflect.BytesKind"
  | "schemaFromDesc/Field_Integer" => Some "intKind"
  | "schemaFromDesc/Field_Float" => Some "floatKind"
  | _ => None
  end.
Definition int_format_name (fmt : N) : string :=
  match fmt with 1%N => "IntegerField_FORMAT_INT32" | 2%N => "IntegerField_FORMAT_INT64"
               | 3%N => "IntegerField_FORMAT_UINT32" | 4%N => "IntegerField_FORMAT_UINT64" | _ => "?" end.
Definition float_format_name (fmt : N) : string :=
  match fmt with 1%N => "FloatField_FORMAT_FLOAT32" | 2%N => "FloatField_FORMAT_FLOAT64" | _ => "?" end.

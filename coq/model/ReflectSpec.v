(* ReflectSpec.v — the clauses of C18 as executable predicates over a descriptor set and a
   reflected schema set: property names unique per object, every recorded proto field path
   resolves to a field of the matching kind, codec usability classes.  No proofs here. *)
From Coq Require Import String List NArith ZArith Bool.
From J5V.lib Require Import Outcome.
From J5V.model Require Import ReflectDesc ReflectSchema Reflect.
Import ListNotations.
Local Open Scope bool_scope.

(* nodup_str / names_unique_b: in Reflect.v (the reader itself checks property names since fix 07ed85e) *)

Section WithDesc.
Variable D : desc.

(* does the proto field have the kind the schema describes? ([item]: inside an array / map) *)
Fixpoint field_matches (st : sset) (s : fschema) (f : field) (item : bool) : bool :=
  match s with
  | FArray it _ _ =>
      negb item && (match f_card f with CRepeated => true | _ => false end) && field_matches st it f true
  | FMap it _ _ =>
      (* google.protobuf.Struct is read as a map of any, also as an array item or a map value *)
      let is_struct := kind_eqb (f_kind f) KMessage && str_eqb (value_full f) s_Struct in
      if item then is_struct
      else match f_card f with
           | CMap _ => field_matches st it f true
           | CRepeated => false
           | _ => is_struct
           end
  | _ =>
      (item || (match f_card f with CRepeated | CMap _ => false | _ => true end)) &&
      match s with
      | FScalar (Some (k, wkt)) _ =>
          match wkt with
          | [] => kind_eqb (f_kind f) k
          | _ => kind_eqb (f_kind f) KMessage && str_eqb (value_full f) wkt
          end
      | FScalar None _ => false
      | FEnum k _ _ _ =>
          kind_eqb (f_kind f) KEnum &&
          (match lookup st k with Some (Linked (REnum _ _ _ _ _)) => true | _ => false end)
      | FObject k _ _ _ =>
          kind_eqb (f_kind f) KMessage &&
          (match lookup st k with Some (Linked (RObject _ _ _ _ _)) => true | _ => false end)
      | FOneof k _ _ _ =>
          kind_eqb (f_kind f) KMessage &&
          (match lookup st k with Some (Linked (ROneof _ _ _)) => true | _ => false end)
      | FAny _ _ _ =>
          kind_eqb (f_kind f) KMessage && (str_eqb (value_full f) s_PbAny || str_eqb (value_full f) s_J5Any)
      | _ => false
      end
  end.

(* walk a proto field path through singular message fields *)
Fixpoint walk_path (fuel : nat) (m : msgd) (path : list N) : option field :=
  match path with
  | [] => None
  | n :: r =>
      match field_by_number m n with
      | None => None
      | Some f =>
          match r with
          | [] => Some f
          | _ =>
              match fuel with
              | O => None
              | S fu =>
                  match f_card f, f_kind f, f_ty f with
                  | CSingle, KMessage, TMsg full | COptional, KMessage, TMsg full =>
                      match find_msg D full with Some m2 => walk_path fu m2 r | None => None end
                  | _, _, _ => None
                  end
              end
          end
      end
  end.

Definition prop_resolves (st : sset) (m : msgd) (p : prop) : bool :=
  match p_path p with
  | [] =>
      (* an exposed oneof: its members resolve in the same message *)
      match p_schema p with
      | FOneof k _ _ _ =>
          match lookup st k with
          | Some (Linked (ROneof _ _ ops)) =>
              names_unique_b ops &&
              forallb (fun q => match p_path q with
                                | [] => false
                                | path => match walk_path (length path) m path with
                                          | Some f => field_matches st (p_schema q) f false
                                          | None => false
                                          end
                                end) ops
          | _ => false
          end
      | _ => false
      end
  | path => match walk_path (length path) m path with
            | Some f => field_matches st (p_schema p) f false
            | None => false
            end
  end.

Definition props_resolve (st : sset) (m : msgd) (ps : list prop) : bool :=
  forallb (prop_resolves st m) ps.

(* the message(s) a schema-set key describes *)
Definition msgs_of_key (k : ref) : list msgd :=
  filter (fun m => ref_eqb (msg_key m) k) (d_msgs D).
Definition oneof_parents_of_key (k : ref) : list msgd :=
  filter (fun m => existsb (fun o => match o with Oneof name _ syn _ _ => negb syn && ref_eqb (oneof_key m name) k end) (m_oneofs m)) (d_msgs D).

(* C18 clause 2 for one entry of the set *)
Definition entry_consistent (st : sset) (k : ref) (e : entry) : bool :=
  match e with
  | Placeholder => false
  | Linked (RObject _ _ _ _ ps) =>
      names_unique_b ps && existsb (fun m => props_resolve st m ps) (msgs_of_key k)
  | Linked (ROneof _ _ ps) =>
      names_unique_b ps && existsb (fun m => props_resolve st m ps) (msgs_of_key k ++ oneof_parents_of_key k)
  | Linked (REnum _ _ _ _ _) => true
  end.
Definition set_consistent (st : sset) : bool :=
  forallb (fun ke => entry_consistent st (fst ke) (snd ke)) st.

(* ---- codec usability: classes as [kind] (0 ok, 1 err, 2 panic, 3 out of fuel) *)
Definition cls {A} (o : outcome A) : N := N.of_nat (Outcome.kind o).
Definition worst (a b : N) : N := N.max a b.

(* class of building one property with its value set.  [sw = true]: what the ENCODER is observed to do:
   oneofField.IsSet swallows the error of GetOne, a member whose property cannot be built makes the
   exposed oneof count as unset and the encode succeeds without it (the correspondence compares this).
   [sw = false]: the property itself: a member that cannot be built is a failure (the specification
   C18_full_statement uses this: a silently dropped oneof is not "usable") *)
Definition prop_class_sw (sw : bool) (st : sset) (m : msgd) (pf : prop * option field) : N :=
  match pf with
  | (p, Some f) => cls (build_property D st p f)
  | (p, None) =>
      match p_schema p with
      | FOneof k _ _ _ =>
          match lookup st k with
          | Some (Linked (ROneof n d ops)) =>
              match new_prop_set D st (ROneof n d ops) m with
              | Ok opfs =>
                  fold_right (fun q acc =>
                                worst acc (match q with
                                           | (p2, Some f2) =>
                                               let c := cls (build_property D st p2 f2) in
                                               if sw && N.eqb c 1 then 0%N else c
                                           | (_, None) => 0%N
                                           end)) 0%N opfs
              | o => cls o
              end
          | _ => 2%N
          end
      | _ => 1%N
      end
  end.
Definition prop_class := prop_class_sw true.

(* propSet.asMap is keyed by JSON name: of several properties with one name, RangeValues reaches
   only the last one (GetValue looks the name up in the map) *)
Definition last_named (pfs : list (prop * option field)) (pf : prop * option field) : prop * option field :=
  fold_left (fun acc q => if str_eqb (p_json (fst q)) (p_json (fst pf)) then q else acc) pfs pf.

(* (class of the root property set, worst class over the properties) *)
Definition codec_classes_sw (sw : bool) (st : sset) (m : msgd) (r : root) : N * N :=
  match new_prop_set D st r m with
  | Ok pfs => (0%N, fold_right (fun pf acc => worst acc (prop_class_sw sw st m (last_named pfs pf))) 0%N pfs)
  | o => (cls o, cls o)
  end.
Definition codec_classes := codec_classes_sw true.          (* as the encoder behaves *)
Definition codec_classes_strict := codec_classes_sw false.  (* no member error swallowed *)

(* ---- the kinds of client properties the codec supports.
   [factory_b]: buildProperty has a factory: no array / map whose items are any-typed, maps or arrays
   (google.protobuf.Struct reads as a map of any), no map schema on a field that is not a map.
   [supported_b] in addition: no google.protobuf.Duration.  wktSchema reads it as a string scalar of
   format "duration" with WellKnownTypeName set; the factory exists and the ENCODER prints the message
   as prototext, but every way of SETTING a value fails: scalarReflectFromGo / FromAST yield a Go
   string and checkValueKind (type_scalar.go) rejects a non-message value for a scalar backed by a
   message type ("values of type google.protobuf.Duration are not supported"): such a message cannot be
   decoded.  Each excluded class is a known finding (KNOWN_FINDINGS.txt). *)
Definition item_ok (it : fschema) : bool :=
  match it with FAny _ _ _ | FMap _ _ _ | FArray _ _ _ => false | _ => true end.
Definition factory_b (s : fschema) (f : field) : bool :=
  match s with
  | FArray it _ _ => item_ok it
  | FMap it _ _ => (match f_card f with CMap _ => true | _ => false end) && item_ok it
  | _ => true
  end.
Definition is_duration (s : fschema) : bool :=
  match s with FScalar (Some (_, w)) _ => str_eqb w s_Duration | _ => false end.
Definition value_settable (s : fschema) : bool :=
  match s with
  | FArray it _ _ | FMap it _ _ => negb (is_duration it)
  | _ => negb (is_duration s)
  end.
Definition supported_b (s : fschema) (f : field) : bool := factory_b s f && value_settable s.

End WithDesc.

(* Id62Corr.v — correspondence cases for C20: what the implementation was
   observed to do, checked against the model by vm_compute. *)
From Coq Require Import String List NArith Bool.
From J5V.lib Require Import Outcome Corr.
From J5V.model Require Import Id62.
From J5V.gen Require Id62Gen.
Import ListNotations.
Local Open Scope N_scope.

Inductive c20case :=
| CRender (id : list N) (s : list N) (pat : bool)
| CParse (s : list N) (ok : bool) (id : list N) (pat : bool)
| CHash (ns : list N) (ins : list (list N)) (id : list N)
| CEmit (pat : list N)    (* a validation pattern the compiler emitted for a key:id62 field *)
| CReadback (pat : list N) (id62 : bool).
    (* the one pattern the compiler emitted for a key:id62 field (in any position: direct, array items,
       map values) and whether the schema reader, reflecting the compiled message, recognised the
       field as a key of format id62 *)

Definition model_pattern (s : list N) : bool :=
  match parse_pattern Id62Gen.pattern_string with
  | Some p => matches p s
  | None => false
  end.

Definition c20_check (c : c20case) : bool :=
  match c with
  | CRender id s pat =>
      match render id with
      | Ok s' => nlist_eqb s s' && Bool.eqb (model_pattern s') pat
      | _ => false
      end
  | CParse s ok id pat =>
      Bool.eqb (model_pattern s) pat &&
      match parse s with
      | Ok id' => ok && nlist_eqb id id'
      | Err _ => negb ok
      | _ => false
      end
  | CHash ns ins id => nlist_eqb (new_hash ns ins) id
  | CEmit pat => nlist_eqb pat Id62Gen.pattern_string
  | CReadback pat id62 =>
      Bool.eqb (reads_back_as Id62Gen.reader_patterns Id62Gen.reader_id62_format pat) id62
  end.

(* EntityClient.v — model of how the client API groups a compiled entity:
   lib/j5schema findPSMOptions (which objects are parts of which entity),
   internal/j5client/package_from_source.go walkSourceSchemas / includeEntity (Keys, State,
   Event schemas per entity; the objects are visited in Go map order, i.e. in ANY order),
   the service loop of apiBaseFromSource (query / command services attached by the entity
   name in their annotation) and StateEntity.ToJ5Proto (primary keys, events).
   Input: the components model/Entity.v emits.  No proofs in this file. *)
From Coq Require Import String List NArith Bool.
From J5V.lib Require Import Outcome Strcase.
From J5V.model Require Import Entity.
Import ListNotations.
Local Open Scope bool_scope.
Local Open Scope N_scope.

Definition main_messages (cs : list component) : list omsg :=
  flat_map (fun c => match c with CMsg 0 m => [m] | _ => [] end) cs.
Definition services_of (cs : list component) : list osvc :=
  flat_map (fun c => match c with CSvc 1 s => [s] | _ => [] end) cs.

Definition find_msg (ms : list omsg) (name : bytes) : option omsg :=
  find (fun m => bytes_eqb (m_name m) name) ms.

(* findPSMOptions after fix 2072988: the message's own annotation; the legacy fallback (inherit
   through a "keys" property) does not apply because compiled keys messages state their part *)
Definition msg_entity (ms : list omsg) (m : omsg) : option (bytes * N) := m_psm m.

(* findPSMOptions BEFORE the fix: a message without annotation that has a property "keys" whose
   type carries one inherits it, part included *)
Definition legacy_msg_entity (ms : list omsg) (m : omsg) : option (bytes * N) :=
  match m_psm m with
  | Some a => Some a
  | None =>
      match find (fun f => bytes_eqb (to_snake (f_json f)) (bs "keys")) (m_fields m) with
      | Some f => match f_type f with
                  | TObject [] n => match find_msg ms n with Some k => m_psm k | None => None end
                  | _ => None
                  end
      | None => None
      end
  end.

Record centity := mkCEnt {
  cn_name : bytes;
  cn_keys : option omsg; cn_state : option omsg; cn_event : option omsg;
  cn_query : option osvc; cn_commands : list osvc }.

Definition empty_entity (name : bytes) : centity := mkCEnt name None None None None [].

(* includeEntity: KEYS / STATE / EVENT are stored (a later one replaces an earlier one), DATA is
   ignored, any other part is an error *)
Definition set_part (part : N) (m : omsg) (c : centity) : option centity :=
  if part =? 1 then Some (mkCEnt (cn_name c) (Some m) (cn_state c) (cn_event c) (cn_query c) (cn_commands c))
  else if part =? 2 then Some (mkCEnt (cn_name c) (cn_keys c) (Some m) (cn_event c) (cn_query c) (cn_commands c))
  else if part =? 3 then Some (mkCEnt (cn_name c) (cn_keys c) (cn_state c) (Some m) (cn_query c) (cn_commands c))
  else if part =? 4 then Some c
  else None.

Fixpoint upsert (name : bytes) (f : centity -> option centity) (l : list centity) : option (list centity) :=
  match l with
  | [] => match f (empty_entity name) with Some c => Some [c] | None => None end
  | c :: r =>
      if bytes_eqb (cn_name c) name
      then match f c with Some c' => Some (c' :: r) | None => None end
      else match upsert name f r with Some r' => Some (c :: r') | None => None end
  end.

Definition include_with (ent_of : omsg -> option (bytes * N)) (acc : option (list centity)) (m : omsg)
  : option (list centity) :=
  match acc with
  | None => None
  | Some l => match ent_of m with
              | Some (en, part) => upsert en (set_part part m) l
              | None => Some l
              end
  end.

(* walkSourceSchemas over the objects in the order [objs] (Go map order: arbitrary) *)
Definition include_all (ent_of : omsg -> option (bytes * N)) (objs : list omsg) : option (list centity) :=
  fold_left (include_with ent_of) objs (Some []).

Definition complete (c : centity) : bool :=
  match cn_keys c, cn_state c, cn_event c with Some _, Some _, Some _ => true | _, _, _ => false end.

(* getEntity + the service loop: a query service may be attached once, commands accumulate *)
Definition attach (acc : option (list centity)) (s : osvc) : option (list centity) :=
  match acc with
  | None => None
  | Some l =>
      match sv_ann s with
      | SQuery en =>
          if existsb (fun c => bytes_eqb (cn_name c) en) l
          then upsert en (fun c => match cn_query c with
                                   | Some _ => None      (* duplicate query service *)
                                   | None => Some (mkCEnt (cn_name c) (cn_keys c) (cn_state c) (cn_event c) (Some s) (cn_commands c))
                                   end) l
          else None                                       (* unknown entity *)
      | SCommand en =>
          if existsb (fun c => bytes_eqb (cn_name c) en) l
          then upsert en (fun c => Some (mkCEnt (cn_name c) (cn_keys c) (cn_state c) (cn_event c) (cn_query c)
                                                (cn_commands c ++ [s]))) l
          else None
      | STopic _ _ _ => Some l
      end
  end.

(* what StateEntity.ToJ5Proto reports *)
Record grouping := mkG {
  g_name : bytes; g_schema : bytes; g_primary_key : list bytes; g_events : list bytes;
  g_query : bytes; g_query_methods : list bytes; g_commands : list (bytes * list bytes) }.

Definition to_grouping (pkg : bytes) (ms : list omsg) (c : centity) : option grouping :=
  match cn_keys c, cn_state c, cn_event c with
  | Some k, Some st, Some ev =>
      match find (fun f => bytes_eqb (f_json f) (bs "event")) (m_fields ev) with
      | Some f =>
          match f_type f with
          | TOneof [] n =>
              match find_msg ms n with
              | Some o =>
                  Some (mkG (cn_name c) (pkg ++ [46] ++ m_name st)
                            (map f_json (filter f_primary (m_fields k)))
                            (map f_json (m_fields o))
                            (match cn_query c with Some q => sv_name q | None => [] end)
                            (match cn_query c with Some q => map mt_name (sv_methods q) | None => [] end)
                            (map (fun s => (sv_name s, map mt_name (sv_methods s))) (cn_commands c)))
              | None => None
              end
          | _ => None        (* "event field is not oneof" *)
          end
      | None => None         (* "missing event oneof" *)
      end
  | _, _, _ => None          (* "missing schema for entity" *)
  end.

Fixpoint all_some {A} (l : list (option A)) : option (list A) :=
  match l with
  | [] => Some []
  | Some x :: r => match all_some r with Some t => Some (x :: t) | None => None end
  | None :: _ => None
  end.

(* the client API of one package, the main-package objects visited in the order [objs] *)
Definition client_of_ordered (ent_of : list omsg -> omsg -> option (bytes * N))
    (pkg : bytes) (cs : list component) (objs : list omsg) : option (list grouping) :=
  let ms := main_messages cs in
  match include_all (ent_of ms) objs with
  | None => None
  | Some ents =>
      if forallb complete ents then
        match fold_left attach (services_of cs) (Some ents) with
        | Some ents' => all_some (map (to_grouping pkg ms) ents')
        | None => None
        end
      else None
  end.

Definition client_of (pkg : bytes) (cs : list component) : option (list grouping) :=
  client_of_ordered msg_entity pkg cs (main_messages cs).

(* the grouping the declaration promises *)
Definition grouping_view (e : entity) : grouping :=
  mkG (snake_name e) (e_pkg e ++ [46] ++ component_name e (bs "State"))
      (map uf_name (filter is_primary (map k_def (e_keys e))))
      (map (fun ev => to_lower_camel (ev_name ev)) (e_events e))
      (query_prefix e ++ bs "QueryService")
      [query_prefix e ++ bs "Get"; query_prefix e ++ bs "List"; query_prefix e ++ bs "Events"]
      (map (fun c => (command_service_name e c ++ bs "Service", map md_name (c_methods c))) (e_commands e)).

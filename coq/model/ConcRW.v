(* ConcRW.v — the lock operations of the cache methods as programs over a model of Go's
   sync.Mutex / sync.RWMutex, to state (and decide on the regenerated tables) the one
   discipline under which they cannot deadlock on their own lock: no acquisition while the
   lock is already held by the same call.

   Go's RWMutex (sync/rwmutex.go): RLock blocks while a writer holds the lock OR IS
   WAITING for it ("a blocked Lock call excludes new readers from acquiring the lock");
   Lock waits for the active readers to leave.  So a goroutine that takes the read lock a
   second time while it still holds it deadlocks as soon as another goroutine calls Lock
   between the two acquisitions.  A sync.Mutex deadlocks on any second acquisition.
   (Seeded change C10-E: a fast path `built` under RLock that calls the accessor
   `Package`, which takes RLock again.)

   No proofs in this file. *)
From Coq Require Import String List Bool Arith.
From J5V.model Require Import Conc ConcSites.
From J5V.gen Require ConcGen.
Import ListNotations.

Inductive lop := LRLock | LRUnlock | LLock | LUnlock.

(* readers inside, the writer inside, the goroutines blocked in Lock() *)
Record rwstate := mkRW { rw_readers : nat; rw_writer : option tid; rw_pending : list tid; rw_prog : list (list lop) }.

Definition rw_init (progs : list (list lop)) : rwstate := mkRW 0 None [] progs.

Definition set_prog (st : rwstate) (t : tid) (p : list lop) : list (list lop) := set_nth (rw_prog st) t p.

(* can thread t perform its next lock operation now *)
Definition rw_enabled (st : rwstate) (t : tid) : bool :=
  match nth_error (rw_prog st) t with
  | Some (LRLock :: _) =>
      match rw_writer st with
      | None => forallb (fun w => Nat.eqb w t) (rw_pending st)   (* no OTHER goroutine waits in Lock() *)
      | Some _ => false
      end
  | Some (LLock :: _) =>
      match rw_writer st with None => Nat.eqb (rw_readers st) 0 | Some _ => false end
  | Some (LRUnlock :: _) | Some (LUnlock :: _) => true
  | _ => false
  end.

Definition rw_step (t : tid) (st : rwstate) : rwstate :=
  match nth_error (rw_prog st) t with
  | Some (op :: rest) =>
      if rw_enabled st t then
        match op with
        | LRLock => mkRW (S (rw_readers st)) (rw_writer st) (rw_pending st) (set_prog st t rest)
        | LRUnlock => mkRW (pred (rw_readers st)) (rw_writer st) (rw_pending st) (set_prog st t rest)
        | LLock => mkRW (rw_readers st) (Some t) (remove_tid t (rw_pending st)) (set_prog st t rest)
        | LUnlock => mkRW (rw_readers st) None (rw_pending st) (set_prog st t rest)
        end
      else
        match op with
        | LLock =>   (* blocked in Lock(): from now on new readers are held back *)
            if existsb (Nat.eqb t) (rw_pending st) then st
            else mkRW (rw_readers st) (rw_writer st) (rw_pending st ++ [t]) (rw_prog st)
        | _ => st
        end
  | _ => st
  end.

Definition rw_run (progs : list (list lop)) (sched : list tid) : rwstate :=
  fold_left (fun s t => rw_step t s) sched (rw_init progs).

Definition rw_finished (st : rwstate) : bool := forallb (fun p => match p with [] => true | _ => false end) (rw_prog st).

(* some goroutine has operations left and none can perform its next one: every further
   schedule leaves the lock state as it is *)
Definition rw_deadlocked (st : rwstate) : bool :=
  negb (rw_finished st) && forallb (fun t => negb (rw_enabled st t)) (seq 0 (length (rw_prog st))).

(* ---- the lock programs of the Go methods, from the token tables -------------------------- *)
Definition lop_of (t : string) : option lop :=
  if String.eqb t "lock" then Some LLock else if String.eqb t "unlock" then Some LUnlock
  else if String.eqb t "rlock" then Some LRLock else if String.eqb t "runlock" then Some LRUnlock else None.

Definition deferred_of (t : string) : option lop :=
  if String.eqb t "defer-unlock" then Some LUnlock else if String.eqb t "defer-runlock" then Some LRUnlock
  else if String.eqb t "defer-lock" then Some LLock else if String.eqb t "defer-rlock" then Some LRLock else None.

(* the lock operations a call of the function performs, in order: its own tokens, the programs
   of the table functions it calls spliced in, its deferred operations (last deferred first)
   at the end.  None: out of fuel. *)
Fixpoint lock_program (fuel : nat) (tab : fn_table) (toks : list string) : option (list lop) :=
  match fuel with
  | O => None
  | S f =>
      (fix go (ts : list string) (deferred : list lop) : option (list lop) :=
         match ts with
         | [] => Some deferred
         | t :: r =>
             match lop_of t, deferred_of t with
             | Some op, _ => option_map (cons op) (go r deferred)
             | None, Some op => go r (op :: deferred)
             | None, None =>
                 match callee t with
                 | Some n =>
                     match find_fn tab n with
                     | Some (_, toks') =>
                         match lock_program f tab toks', go r deferred with
                         | Some p, Some q => Some (p ++ q)
                         | _, _ => None
                         end
                     | None => go r deferred
                     end
                 | None => go r deferred
                 end
             end
         end) toks []
  end.

(* a program that never acquires while it holds: a sequence of complete critical sections *)
Fixpoint flat (p : list lop) : bool :=
  match p with
  | [] => true
  | LRLock :: LRUnlock :: r => flat r
  | LLock :: LUnlock :: r => flat r
  | _ => false
  end.

Definition lock_fuel (tab : fn_table) : nat := S (length tab).

(* every exported method of the cache is, on its own lock, a sequence of complete critical
   sections (the unexported ones run inside one) *)
Definition lock_programs_flat (tab : fn_table) : bool :=
  forallb (fun f => match f with
                    | (_, true, toks) => match lock_program (lock_fuel tab) tab toks with Some p => flat p | None => false end
                    | (_, false, _) => true
                    end) tab.

(* the seeded shape: `built` takes the read lock and calls `Package`, which takes it again;
   `Schema` tries `built` first and takes the write lock on a miss *)
Definition nested_rlock_table : fn_table :=
  [("Package", true, ["rlock"; "defer-runlock"; "read:packages"]);
   ("Schema", true, ["hook:schema.enter"; "call:built"; "lock"; "defer-unlock"; "call:schemaLocked"]);
   ("built", false, ["rlock"; "defer-runlock"; "call:Package"; "read:Schemas"; "read:To"]);
   ("schemaLocked", false, ["read:Schemas"; "write:Schemas"; "write:To"])]%string.

(* Id62.v — model of lib/id62/uuid62.go: base62String, parseBase62, Pattern.
   Strings are lists of code points (N); byte strings are lists of N < 256. *)
From Coq Require Import String List NArith Bool.
Local Open Scope bool_scope.
From J5V.lib Require Import Radix Outcome.
Import ListNotations.
Local Open Scope N_scope.

(* big.Int.Text(62) alphabet: 0-9 a-z A-Z *)
Definition alphabet (d : N) : N :=
  if d <? 10 then 48 + d else if d <? 36 then 97 + (d - 10) else 65 + (d - 36).

(* big.Int.SetString(s, 62) digit values: a-z = 10..35, A-Z = 36..61 *)
Definition digit_val (c : N) : option N :=
  if (48 <=? c) && (c <=? 57) then Some (c - 48)
  else if (97 <=? c) && (c <=? 122) then Some (c - 97 + 10)
  else if (65 <=? c) && (c <=? 90) then Some (c - 65 + 36)
  else None.

Fixpoint digits_val (s : list N) : option (list N) :=
  match s with
  | [] => Some []
  | c :: r => match digit_val c, digits_val r with
              | Some d, Some ds => Some (d :: ds)
              | _, _ => None
              end
  end.

Definition of_bytes_be (bs : list N) : N := of_digits_be 256 0 bs.
(* big.Int.Bytes(): minimal big-endian bytes, empty for 0 *)
Definition to_bytes_be (fuel : nat) (n : N) : list N := rev (to_digits_le 256 fuel n).

(* big.Int.Text(62): "0" for zero *)
Definition text62 (fuel : nat) (n : N) : list N :=
  if n =? 0 then [48] else rev (map alphabet (to_digits_le 62 fuel n)).

(* base62String(id []byte) *)
Definition render (bs : list N) : outcome (list N) :=
  let n := of_bytes_be bs in
  let str := text62 (8 * length bs + 1) n in
  let l := length str in
  if Nat.ltb l 22 then Ok (repeat 48 (22 - l) ++ str)
  else if Nat.ltb 22 l then Panic "base62 value is too large"
  else Ok str.

(* parseBase62(s, into[16]) *)
Definition strip_sign (s : list N) : list N :=
  match s with
  | c :: r => if (c =? 43) || (c =? 45) then r else s
  | [] => []
  end.

Definition parse_value (s : list N) : option N :=
  match strip_sign s with
  | [] => None
  | body => match digits_val body with
            | Some ds => Some (of_digits_be 62 0 ds)
            | None => None
            end
  end.

Definition parse (s : list N) : outcome (list N) :=
  match parse_value s with
  | None => Err "cannot parse base62"
  | Some n =>
      let bs := to_bytes_be (length s + 1) n in
      if Nat.ltb 16 (length bs) then Err "base62 value is too large"
      else Ok (repeat 0 (16 - length bs) ++ bs)
  end.

(* ---- the published pattern: the form ^[<ranges>]{n}$ ------------------ *)
(* ranges are pairs lo-hi inside the class; returns (ranges, count) *)
Fixpoint parse_ranges (fuel : nat) (s : list N) : option (list (N * N) * list N) :=
  match fuel with
  | O => None
  | S f =>
    match s with
    | 93 :: r => Some ([], r)                        (* ] *)
    | lo :: 45 :: hi :: r =>                        (* lo-hi *)
        match parse_ranges f r with
        | Some (rs, rest) => Some ((lo, hi) :: rs, rest)
        | None => None
        end
    | _ => None
    end
  end.

Fixpoint parse_dec (s : list N) (acc : N) : option (N * list N) :=
  match s with
  | c :: r => if (48 <=? c) && (c <=? 57) then parse_dec r (acc * 10 + (c - 48))
              else Some (acc, s)
  | [] => Some (acc, [])
  end.

Definition parse_pattern (s : list N) : option (list (N * N) * N) :=
  match s with
  | 94 :: 91 :: r =>                                 (* ^[ *)
      match parse_ranges (length r) r with
      | Some (rs, 123 :: r2) =>                      (* { *)
          match parse_dec r2 0 with
          | Some (n, [125; 36]) => Some (rs, n)      (* }$ *)
          | _ => None
          end
      | _ => None
      end
  | _ => None
  end.

Definition in_class (rs : list (N * N)) (c : N) : bool :=
  existsb (fun r => (fst r <=? c) && (c <=? snd r)) rs.

Definition matches (p : list (N * N) * N) (s : list N) : bool :=
  (N.of_nat (length s) =? snd p) && forallb (in_class (fst p)) s.

(* NewHash(namespace, inputs...): first 16 bytes of SHA-1 over the concatenation *)
From J5V.lib Require Import Sha1.
Definition new_hash (ns : list N) (ins : list (list N)) : list N :=
  firstn 16 (sha1 (ns ++ concat ins)).

(* Id62.v — model of lib/id62/uuid62.go: base62String, parseBase62, Pattern.
   Strings are lists of code points (N); byte strings are lists of N < 256. *)
From Coq Require Import String List NArith Bool.
Local Open Scope bool_scope.
From J5V.lib Require Import Radix Outcome.
Import ListNotations.
Local Open Scope N_scope.

(* big.Int.Text(62) alphabet: 0-9 a-z A-Z *)
Definition alphabet (d : N) : N :=
  if d <? 10 then 48 + d else if d <? 36 then 97 + (d - 10) else 65 + (d - 36).

(* big.Int.SetString(s, 62) digit values: a-z = 10..35, A-Z = 36..61 *)
Definition digit_val (c : N) : option N :=
  if (48 <=? c) && (c <=? 57) then Some (c - 48)
  else if (97 <=? c) && (c <=? 122) then Some (c - 97 + 10)
  else if (65 <=? c) && (c <=? 90) then Some (c - 65 + 36)
  else None.

Fixpoint digits_val (s : list N) : option (list N) :=
  match s with
  | [] => Some []
  | c :: r => match digit_val c, digits_val r with
              | Some d, Some ds => Some (d :: ds)
              | _, _ => None
              end
  end.

Definition of_bytes_be (bs : list N) : N := of_digits_be 256 0 bs.
(* big.Int.Bytes(): minimal big-endian bytes, empty for 0 *)
Definition to_bytes_be (fuel : nat) (n : N) : list N := rev (to_digits_le 256 fuel n).

(* big.Int.Text(62): "0" for zero *)
Definition text62 (fuel : nat) (n : N) : list N :=
  if n =? 0 then [48] else rev (map alphabet (to_digits_le 62 fuel n)).

(* base62String(id []byte) *)
Definition render (bs : list N) : outcome (list N) :=
  let n := of_bytes_be bs in
  let str := text62 (8 * length bs + 1) n in
  let l := length str in
  if Nat.ltb l 22 then Ok (repeat 48 (22 - l) ++ str)
  else if Nat.ltb 22 l then Panic "base62 value is too large"
  else Ok str.

(* parseBase62(s, into[16]) *)
Definition strip_sign (s : list N) : list N :=
  match s with
  | c :: r => if (c =? 43) || (c =? 45) then r else s
  | [] => []
  end.

Definition parse_value (s : list N) : option N :=
  match strip_sign s with
  | [] => None
  | body => match digits_val body with
            | Some ds => Some (of_digits_be 62 0 ds)
            | None => None
            end
  end.

Definition parse (s : list N) : outcome (list N) :=
  match parse_value s with
  | None => Err "cannot parse base62"
  | Some n =>
      let bs := to_bytes_be (length s + 1) n in
      if Nat.ltb 16 (length bs) then Err "base62 value is too large"
      else Ok (repeat 0 (16 - length bs) ++ bs)
  end.

(* ---- the published pattern: the form ^[<ranges>]{n}$ ------------------ *)
(* ranges are pairs lo-hi inside the class; returns (ranges, count) *)
Fixpoint parse_ranges (fuel : nat) (s : list N) : option (list (N * N) * list N) :=
  match fuel with
  | O => None
  | S f =>
    match s with
    | 93 :: r => Some ([], r)                        (* ] *)
    | lo :: 45 :: hi :: r =>                        (* lo-hi *)
        match parse_ranges f r with
        | Some (rs, rest) => Some ((lo, hi) :: rs, rest)
        | None => None
        end
    | _ => None
    end
  end.

Fixpoint parse_dec (s : list N) (acc : N) : option (N * list N) :=
  match s with
  | c :: r => if (48 <=? c) && (c <=? 57) then parse_dec r (acc * 10 + (c - 48))
              else Some (acc, s)
  | [] => Some (acc, [])
  end.

Definition parse_pattern (s : list N) : option (list (N * N) * N) :=
  match s with
  | 94 :: 91 :: r =>                                 (* ^[ *)
      match parse_ranges (length r) r with
      | Some (rs, 123 :: r2) =>                      (* { *)
          match parse_dec r2 0 with
          | Some (n, [125; 36]) => Some (rs, n)      (* }$ *)
          | _ => None
          end
      | _ => None
      end
  | _ => None
  end.

Definition in_class (rs : list (N * N)) (c : N) : bool :=
  existsb (fun r => (fst r <=? c) && (c <=? snd r)) rs.

Definition matches (p : list (N * N) * N) (s : list N) : bool :=
  (N.of_nat (length s) =? snd p) && forallb (in_class (fst p)) s.

(* NewHash(namespace, inputs...): first 16 bytes of SHA-1 over the concatenation *)
From J5V.lib Require Import Sha1.
Definition new_hash (ns : list N) (ins : list (list N)) : list N :=
  firstn 16 (sha1 (ns ++ concat ins)).

(* ---- NewHash as one step of a process ------------------------------------------------- *)
(* The package-level state of lib/id62 (its variables: Id62Gen.package_vars) is threaded through a
   sequence of calls.  NewHash reads and writes none of it (Id62Gen.newhash_state_refs = [], checked
   on the regenerated table: proofs/Id62Proofs.newhash_is_stateless) and creates its digest with
   sha1.New() inside the call, so a step leaves the state as it is and its result is [new_hash] of
   its own arguments.  A memo table added to the package would appear in newhash_state_refs and
   break that lemma; as a function it would have to be modelled here as part of [pkg_state]. *)
Record pkg_state := mkPkg { ps_pattern_string : list N }.

Definition hash_call := (list N * list (list N))%type.

Definition new_hash_step (st : pkg_state) (c : hash_call) : pkg_state * list N :=
  (st, new_hash (fst c) (snd c)).

Fixpoint new_hash_seq (st : pkg_state) (cs : list hash_call) : pkg_state * list (list N) :=
  match cs with
  | [] => (st, [])
  | c :: r =>
      let (st1, id) := new_hash_step st c in
      let (st2, ids) := new_hash_seq st1 r in
      (st2, id :: ids)
  end.

(* ---- the schema reader's recognition of the published pattern --------------------------- *)
(* lib/j5schema/schema_from_proto.go, buildFromStringProto: a string field whose validation pattern is
   a key of wellKnownStringPatterns gets that entry's format instead of the pattern; format "id62"
   makes the field a key of format id62.  (A Go map literal has no duplicate keys, so the first match
   is the lookup.) *)
From J5V.lib Require Import Corr.
Fixpoint recognise (tab : list (list N * list N)) (pat : list N) : option (list N) :=
  match tab with
  | [] => None
  | (k, f) :: r => if nlist_eqb k pat then Some f else recognise r pat
  end.

Definition reads_back_as (tab : list (list N * list N)) (fmt pat : list N) : bool :=
  match recognise tab pat with
  | Some f => nlist_eqb f fmt
  | None => false
  end.

(* Desc.v — abstract protobuf descriptors: what C02/C13 observe of a linked
   FileDescriptor (names, numbers, types, labels, JSON names, nesting, imports,
   services, HTTP rules, messaging role).  Type names are full names with a leading dot,
   as the linker leaves them. *)
From Coq Require Import String List NArith Bool.
From J5V.lib Require Import Corr.
From J5V.model Require Import J5sAst.
Import ListNotations.
Local Open Scope N_scope.

Inductive ptype :=
| TDouble | TFloat | TInt64 | TUint64 | TInt32 | TUint32
| TBool | TString | TBytes | TMessage | TEnum.

Inductive plabel := LOptional | LRepeated | LRequired.

Record dfield := mkField {
  f_name : str;
  f_json : str;
  f_num : N;
  f_type : ptype;
  f_label : plabel;
  f_opt3 : bool;          (* proto3_optional *)
  f_tname : str;          (* [] for scalars *)
  f_oneof : bool          (* member of the message's single real oneof "type" *)
}.

Record denum := mkDenum { en_name : str; en_vals : list (str * N) }.

Inductive mkind := MObject | MOneof | MMapEntry.

Inductive dmsg :=
| DMsg (name : str) (kind : mkind) (fields : list dfield) (msgs : list dmsg) (enums : list denum).

Definition dm_name (m : dmsg) := match m with DMsg n _ _ _ _ => n end.
Definition dm_kind (m : dmsg) := match m with DMsg _ k _ _ _ => k end.
Definition dm_fields (m : dmsg) := match m with DMsg _ _ f _ _ => f end.
Definition dm_msgs (m : dmsg) := match m with DMsg _ _ _ ms _ => ms end.
Definition dm_enums (m : dmsg) := match m with DMsg _ _ _ _ es => es end.

(* google.api.http: verb, path, body *)
Record dhttp := mkHttp { h_verb : verb; h_path : str; h_body : str }.

Record dmethod := mkDmethod {
  me_name : str;
  me_in : str;            (* full name with leading dot *)
  me_out : str;
  me_http : option dhttp
}.

Inductive role := RPublish | RRequest | RReply | RUpsert (entity : str) | REvent (entity : str).

Record dservice := mkDservice {
  ds_name : str;
  ds_methods : list dmethod;
  ds_topic : option (str * role)    (* (j5.messaging.v1.service): topic_name, role *)
}.

Record dfile := mkDfile {
  fl_path : str;
  fl_pkg : str;
  fl_deps : list str;
  fl_msgs : list dmsg;
  fl_enums : list denum;
  fl_svcs : list dservice
}.

(* ---- boolean equality (used by the correspondence check) *)
Definition ptype_eqb (x y : ptype) : bool :=
  match x, y with
  | TDouble, TDouble | TFloat, TFloat | TInt64, TInt64 | TUint64, TUint64
  | TInt32, TInt32 | TUint32, TUint32 | TBool, TBool | TString, TString
  | TBytes, TBytes | TMessage, TMessage | TEnum, TEnum => true
  | _, _ => false
  end.
Definition plabel_eqb (x y : plabel) : bool :=
  match x, y with LOptional, LOptional | LRepeated, LRepeated | LRequired, LRequired => true | _, _ => false end.
Definition mkind_eqb (x y : mkind) : bool :=
  match x, y with MObject, MObject | MOneof, MOneof | MMapEntry, MMapEntry => true | _, _ => false end.
Definition verb_eqb (x y : verb) : bool :=
  match x, y with
  | VGet, VGet | VPost, VPost | VPut, VPut | VDelete, VDelete | VPatch, VPatch => true
  | _, _ => false
  end.

Definition dfield_eqb (x y : dfield) : bool :=
  str_eqb (f_name x) (f_name y) && str_eqb (f_json x) (f_json y) && (f_num x =? f_num y) &&
  ptype_eqb (f_type x) (f_type y) && plabel_eqb (f_label x) (f_label y) &&
  Bool.eqb (f_opt3 x) (f_opt3 y) && str_eqb (f_tname x) (f_tname y) && Bool.eqb (f_oneof x) (f_oneof y).

Definition denum_eqb (x y : denum) : bool :=
  str_eqb (en_name x) (en_name y) &&
  list_eqb (fun p q => str_eqb (fst p) (fst q) && (snd p =? snd q)) (en_vals x) (en_vals y).

Fixpoint dmsg_eqb (x y : dmsg) {struct x} : bool :=
  match x, y with
  | DMsg n k fs ms es, DMsg n' k' fs' ms' es' =>
      str_eqb n n' && mkind_eqb k k' && list_eqb dfield_eqb fs fs' &&
      (fix go (a b : list dmsg) {struct a} : bool :=
         match a, b with
         | [], [] => true
         | p :: r, q :: s => dmsg_eqb p q && go r s
         | _, _ => false
         end) ms ms' &&
      list_eqb denum_eqb es es'
  end.

Definition dhttp_eqb (x y : dhttp) : bool :=
  verb_eqb (h_verb x) (h_verb y) && str_eqb (h_path x) (h_path y) && str_eqb (h_body x) (h_body y).

Definition role_eqb (x y : role) : bool :=
  match x, y with
  | RPublish, RPublish | RRequest, RRequest | RReply, RReply => true
  | RUpsert a, RUpsert c | REvent a, REvent c => str_eqb a c
  | _, _ => false
  end.

Definition dmethod_eqb (x y : dmethod) : bool :=
  str_eqb (me_name x) (me_name y) && str_eqb (me_in x) (me_in y) && str_eqb (me_out x) (me_out y) &&
  option_eqb dhttp_eqb (me_http x) (me_http y).

Definition dservice_eqb (x y : dservice) : bool :=
  str_eqb (ds_name x) (ds_name y) && list_eqb dmethod_eqb (ds_methods x) (ds_methods y) &&
  option_eqb (fun p q => str_eqb (fst p) (fst q) && role_eqb (snd p) (snd q)) (ds_topic x) (ds_topic y).

Definition dfile_eqb (x y : dfile) : bool :=
  str_eqb (fl_path x) (fl_path y) && str_eqb (fl_pkg x) (fl_pkg y) &&
  list_eqb str_eqb (fl_deps x) (fl_deps y) &&
  list_eqb dmsg_eqb (fl_msgs x) (fl_msgs y) &&
  list_eqb denum_eqb (fl_enums x) (fl_enums y) &&
  list_eqb dservice_eqb (fl_svcs x) (fl_svcs y).

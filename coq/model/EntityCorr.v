(* EntityCorr.v — correspondence for C17: a generated entity declaration, whether the
   real compiler accepted it, and the canonical dump of the real descriptors as flat
   "lines"; [c17_check] runs the model on the same declaration and compares. *)
From Coq Require Import String List NArith Bool.
From J5V.lib Require Import Outcome Corr Strcase.
From J5V.model Require Import Entity EntityClient.
Import ListNotations.
Local Open Scope bool_scope.
Local Open Scope N_scope.

(* tag, strings, numbers *)
Definition line := (N * list bytes * list N)%type.

Definition line_eqb (a b : line) : bool :=
  let '(ta, sa, na) := a in let '(tb, sb, nb) := b in
  (ta =? tb) && list_eqb bytes_eqb sa sb && list_eqb N.eqb na nb.

Definition b2n (b : bool) : N := if b then 1 else 0.
Definition file_pkg (pkg : bytes) (file : N) : bytes :=
  pkg ++ (match file with 0 => [] | 1 => bs ".service" | _ => bs ".topic" end).

Definition qualify (pkg p n : bytes) : bytes := (match p with [] => pkg | _ => p end) ++ [46] ++ n.

(* 2: field — [proto name; json name; type name; j5 kind; tenant; foreign package; foreign entity; key format]
               [number; proto type; repeated; required; flatten; in oneof; primary; has tenant; filterable;
                has foreign key; proto3 optional]
   14: the leading comment of the element above (its description: " " ++ text ++ newline, inner
       newlines followed by a space: commentSet.comment in j5convert/source_location.go)
   3: default filters of the field above (only when filterable)
   [parent] is the full name of the containing message (a map field refers to its own entry) *)
Definition type_cols (pkg parent : bytes) (f : ofield) (t : otype) : N * bytes * bytes :=
  match t with
  | TScalar pt k => (pt, [], k)
  | TObject p n => (11, qualify pkg p n, bs "object")
  | TOneof p n => (11, qualify pkg p n, bs "oneof")
  | TEnum p n => (14, qualify pkg p n, bs "enum")
  | TExt tn k => (11, tn, k)
  | TMap _ => (11, parent ++ [46] ++ map_name (to_snake (f_json f)), [])
  | TNested n k => (if k =? 2 then 14 else 11, parent ++ [46] ++ n,
                    if k =? 0 then bs "object" else if k =? 1 then bs "oneof" else bs "enum")
  end.

Definition comment_text (d : bytes) : bytes :=
  [32] ++ flat_map (fun c => if c =? 10 then [10; 32] else [c]) d ++ [10].
Definition comment_lines (d : bytes) : list line :=
  match d with [] => [] | _ => [(14, [comment_text d], [])] end.
Definition keyfmt_name (k : N) : bytes :=
  match k with 1 => bs "FORMAT_ID62" | 2 => bs "FORMAT_UUID" | _ => [] end.

Definition field_lines (pkg parent : bytes) (in_oneof : bool) (i : N) (f : ofield) : list line :=
  let '(pt, tn, kind) := type_cols pkg parent f (f_type f) in
  let is_map := match f_type f with TMap _ => true | _ => false end in
  (2, [to_snake (f_json f); f_json f; tn; (if f_repeated f && negb is_map then bs "array" else kind);
       match f_tenant f with Some t => t | None => [] end;
       match f_foreign f with Some p => fst p | None => [] end;
       match f_foreign f with Some p => snd p | None => [] end;
       (if is_map then [] else keyfmt_name (f_keyfmt f))],
      [i; pt; b2n (f_repeated f); b2n (f_required f); b2n (f_flatten f);
       b2n in_oneof;
       b2n (f_primary f); b2n (match f_tenant f with Some _ => true | None => false end);
       b2n (match f_filter f with Some _ => true | None => false end);
       b2n (match f_foreign f with Some _ => true | None => false end);
       b2n (f_optional f)])
  :: comment_lines (f_desc f)
  ++ match f_filter f with Some l => [(3, l, [])] | None => [] end.

Fixpoint fields_lines (pkg parent : bytes) (in_oneof : bool) (i : N) (l : list ofield) : list line :=
  match l with
  | [] => []
  | f :: r => field_lines pkg parent in_oneof i f ++ fields_lines pkg parent in_oneof (N.succ i) r
  end.

(* the messages nested in a message because of its fields, in field order: the entry message of a map
   field (key = 1 string, value = 2) and the message of an inline object / oneof; then (a separate list
   in the descriptor) the inline enums *)
(* the entry message of a map field *)
Definition map_entry_lines (pkg parent : bytes) (file : N) (f : ofield) : list line :=
  match f_type f with
  | TMap v =>
      let '(pt, tn, kind) := type_cols pkg parent f v in
      [ (1, [parent ++ [46] ++ map_name (to_snake (f_json f)); []], [file; 0; 0]);
        (2, [bs "key"; []; []; []; []; []; []; []], [1; 9; 0; 0; 0; 0; 0; 0; 0; 0; 0]);
        (2, [bs "value"; []; tn; kind; []; []; []; keyfmt_name (f_keyfmt f)], [2; pt; 0; 0; 0; 0; 0; 0; 0; 0; 0]) ]
  | _ => []
  end.
(* the nested enum an inline enum field defines *)
Definition inline_enum_lines (parent : bytes) (f : ofield) : list line :=
  match inline_of f with
  | Some (n, k, il) =>
      if k =? 2 then (4, [parent ++ [46] ++ n], [])
                     :: map (fun v => (5, [fst v], [snd v])) (status_values (to_screaming_snake n ++ [95]) (il_options il))
      else []
  | None => []
  end.

(* a field of a tree-form inline schema, seen from the message [parent] that holds it: the nested message
   it defines (with everything nested in that, pre-order: fields, nested messages, nested enums), then its
   map entry message *)
Fixpoint tfield_msg_lines (pkg parent : bytes) (file : N) (t : tfield) : list line :=
  match t with
  | TF n (TKInline k c fs os) r o d =>
      (if k =? 2 then []
       else let full := parent ++ [46] ++ to_camel n in
            (1, [full; []], [file; 0; b2n (k =? 1)])
            :: fields_lines pkg full (k =? 1) 1 (map of_tfield fs)
            ++ flat_map (tfield_msg_lines pkg full file) fs
            ++ flat_map (fun x => inline_enum_lines full (of_tfield x)) fs)
      ++ map_entry_lines pkg parent file (of_tfield t)
  | _ => map_entry_lines pkg parent file (of_tfield t)
  end.

(* the messages nested in a message because of its fields, in field order: the message of an inline
   object / oneof (also as the item of an array / the value of a map) and then the entry message of a map
   field (key = 1 string, value = 2); then (a separate list in the descriptor) the inline enums *)
Definition entry_lines (pkg parent : bytes) (file : N) (fs : list ofield) : list line :=
  flat_map (fun f =>
    match inline_of f with
    | Some (n, k, il) =>
        if k =? 2 then []
        else match il_tree il with
             | [] => (1, [parent ++ [46] ++ n; []], [file; 0; b2n (k =? 1)])
                     :: fields_lines pkg (parent ++ [46] ++ n) (k =? 1) 1 (map of_sfield (il_fields il))
             | tfs => (1, [parent ++ [46] ++ n; []], [file; 0; b2n (k =? 1)])
                      :: fields_lines pkg (parent ++ [46] ++ n) (k =? 1) 1 (map of_tfield tfs)
                      ++ flat_map (tfield_msg_lines pkg (parent ++ [46] ++ n) file) tfs
                      ++ flat_map (fun x => inline_enum_lines (parent ++ [46] ++ n) (of_tfield x)) tfs
             end
    | None => []
    end
    ++ map_entry_lines pkg parent file f) fs
  ++ flat_map (inline_enum_lines parent) fs.

(* 1: message — [full name; psm entity] [file; psm part; is oneof] *)
Definition msg_lines (pkg : bytes) (file : N) (m : omsg) : list line :=
  let fp := file_pkg pkg file in
  let full := fp ++ [46] ++ m_name m in
  (1, [full; match m_psm m with Some (en, _) => en | None => [] end],
      [file; match m_psm m with Some (_, p) => p | None => 0 end; b2n (m_oneof m)])
  :: fields_lines pkg full (m_oneof m) 1 (m_fields m)
  ++ entry_lines pkg full file (m_fields m)
  ++ flat_map (fun n => (1, [full ++ [46] ++ fst n; []], [file; 0; 0])
                         :: fields_lines pkg (full ++ [46] ++ fst n) false 1 (snd n)
                         ++ entry_lines pkg (full ++ [46] ++ fst n) file (snd n)) (m_nested m).

(* 4: enum [full name] []; 5: value [name] [number] *)
Definition enum_lines (pkg name : bytes) (vs : list (bytes * N)) : list line :=
  (4, [pkg ++ [46] ++ name], []) :: map (fun v => (5, [fst v], [snd v])) vs.

(* 6: service [full name; annotation strings; audience/default auth (always none: acceptCommands
      replaces the options a command declares)] [file; annotation kind; role]
   7: method [name; input; output; path; http body] [verb; state_query flag] *)
Definition svc_lines (pkg : bytes) (file : N) (s : osvc) : list line :=
  let fp := file_pkg pkg file in
  let abs (n : bytes) := match n with 46 :: r => r | _ => fp ++ [46] ++ n end in
  (match sv_ann s with
   | SQuery en => (6, [fp ++ [46] ++ sv_name s; en; []; []], [file; 1; 0])
   | SCommand en => (6, [fp ++ [46] ++ sv_name s; en; []; []], [file; 2; 0])
   | STopic tn role en => (6, [fp ++ [46] ++ sv_name s; tn; en; []], [file; 3; role])
   end)
  (* the http rule's body: "*" for every verb but GET (visitServiceMethodNode); none for topic methods *)
  :: map (fun m => (7, [mt_name m; abs (mt_in m); abs (mt_out m); mt_path m;
                        if (mt_verb m =? 0) || (mt_verb m =? 1) then [] else [42]],
                       [mt_verb m; mt_sq m]))
         (sv_methods s).

(* per file: messages, then enums, then services — the order of a FileDescriptorProto *)
Definition file_lines (pkg : bytes) (file : N) (cs : list component) : list line :=
  flat_map (fun c => match c with CMsg f m => if f =? file then msg_lines pkg file m else [] | _ => [] end) cs
  ++ flat_map (fun c => match c with CEnum n vs => if file =? 0 then enum_lines pkg n vs else [] | _ => [] end) cs
  ++ flat_map (fun c => match c with CSvc f s => if f =? file then svc_lines pkg file s else [] | _ => [] end) cs.

Definition flatten (pkg : bytes) (cs : list component) : list line :=
  file_lines pkg 0 cs ++ file_lines pkg 1 cs ++ file_lines pkg 2 cs.

(* 16: the leading comment of an element that is not a field - [element full name; comment] - after all
   structural lines, in descriptor order: the messages of the main file (events: the nested message of
   the event oneof; objects / oneofs of the block), then its enums (status values; the block's enums and
   their options).  Nothing else carries a comment: generated messages, services and methods have none *)
Fixpoint zip_notes {A} (l : list A) (d : list bytes) : list (A * bytes) :=
  match l with
  | [] => []
  | x :: r => (x, match d with y :: _ => y | [] => [] end) :: zip_notes r (match d with _ :: t => t | [] => [] end)
  end.
Definition note_line (name d : bytes) : list line :=
  match d with [] => [] | _ => [(16, [name; comment_text d], [])] end.
Definition msg_notes (e : entity) : list line :=
  let pkg := e_pkg e in
  flat_map (fun p => note_line (pkg ++ [46] ++ event_type_name e ++ [46] ++ ev_name (fst p)) (snd p))
           (zip_notes (e_events e) (n_event_desc (e_notes e)))
  ++ flat_map (fun p => match fst p with
                        | SObject n _ => note_line (pkg ++ [46] ++ n) (snd p)
                        | SOneof n _ => note_line (pkg ++ [46] ++ n) (snd p)
                        | SEnum _ _ => [] end)
              (zip_notes (e_schemas e) (n_schema_desc (e_notes e))).
Definition option_descs (e : entity) (i : nat) : list bytes := nth i (n_option_desc (e_notes e)) [].
Fixpoint enum_schema_notes (e : entity) (i : nat) (l : list (eschema * bytes)) : list line :=
  match l with
  | [] => []
  | (SEnum n opts, d) :: r =>
      note_line (e_pkg e ++ [46] ++ n) d
      ++ flat_map (fun p => note_line (e_pkg e ++ [46] ++ n ++ [46] ++ status_value_name (to_screaming_snake n ++ [95]) (fst p)) (snd p))
                  (zip_notes opts (option_descs e i))
      ++ enum_schema_notes e (S i) r
  | _ :: r => enum_schema_notes e (S i) r
  end.
Definition enum_notes (e : entity) : list line :=
  let en := e_pkg e ++ [46] ++ component_name e (bs "Status") in
  flat_map (fun p => note_line (en ++ [46] ++ status_value_name (status_prefix e) (fst p)) (snd p))
           (zip_notes (e_status e) (n_status_desc (e_notes e)))
  ++ enum_schema_notes e 0 (zip_notes (e_schemas e) (n_schema_desc (e_notes e))).
Definition notes (es : list entity) : list line := flat_map msg_notes es ++ flat_map enum_notes es.

(* the client API's StateEntity:
   8: [name; full name; schema name; query service] ; 9: primary keys ; 10: command services ;
   11: events ; 12: query method [name; path] [verb] ; 13: command method [service; name; path] [verb] *)
Definition client_lines (c : client_entity) : list line :=
  [ (8, [ce_name c; ce_full_name c; ce_schema c; ce_query c], []);
    (9, ce_primary_key c, []);
    (10, map fst (ce_commands c), []);
    (11, ce_events c, []) ]
  ++ map (fun m => (12, [fst m; snd m], [1])) (ce_query_methods c)
  ++ flat_map (fun s => map (fun m => (13, [fst s; fst (fst m); snd m], [snd (fst m)])) (snd s)) (ce_commands c).


(* one source file: its entity declarations (same package), whether it compiled, the descriptor
   dump, whether the client API could be derived, the StateEntity dump in declaration order *)
Definition file_pkg_of (es : list entity) : bytes := match es with e :: _ => e_pkg e | [] => [] end.

(* the grouping model (EntityClient.v) run on the compiled components agrees with the direct
   view of each declared entity, in declaration order *)
Definition grouping_eqb (a b : grouping) : bool :=
  bytes_eqb (g_name a) (g_name b) && bytes_eqb (g_schema a) (g_schema b)
  && list_eqb bytes_eqb (g_primary_key a) (g_primary_key b)
  && list_eqb bytes_eqb (g_events a) (g_events b)
  && bytes_eqb (g_query a) (g_query b)
  && list_eqb bytes_eqb (g_query_methods a) (g_query_methods b)
  && list_eqb (fun x y => bytes_eqb (fst x) (fst y) && list_eqb bytes_eqb (snd x) (snd y))
              (g_commands a) (g_commands b).
Definition grouping_ok (es : list entity) (cs : list component) : bool :=
  match client_of (file_pkg_of es) cs with
  | Some gs => list_eqb grouping_eqb gs (map grouping_view es)
  | None => false
  end.

(* lib/j5schema checkClientPropertyNames (fix 96a1ec3 in /repo): an object whose client properties - its own
   plus those of the objects it FLATTENS - use one JSON name twice is a reflection error, so the client API
   cannot be derived. The expansion flattens Keys into State {metadata, keys, data, status} and into
   Event {metadata, keys, event}; the JSON name of a key is its declared name: the derivation fails exactly
   when a key is named like one of those properties. (The compiled descriptors are unaffected: C17's
   clauses hold of them, C17_unreserved_names; unique property names are C18's clause.) *)
Definition client_props_ok (e : entity) : bool :=
  forallb (fun k => negb (existsb (bytes_eqb (uf_name (k_def k)))
                                  [bs "metadata"; bs "data"; bs "status"; bs "event"])) (e_keys e).

(* errc: 0 when the real compiler accepted, else the class of its error (Entity.err_class) *)
Inductive c17case :=
| EC (es : list entity) (ok : bool) (errc : N) (lines : list line) (client_ok : bool) (clines : list line).

(* the model accepts exactly when the real compiler does (both directions), with the same
   descriptors and client view when it does and the same error class when it does not *)
Definition c17_check (c : c17case) : bool :=
  match c with
  | EC es ok errc lines cok clines =>
      match compile_file es with
      | Ok cs => ok && list_eqb line_eqb (flatten (file_pkg_of es) cs ++ notes es) lines
                 && Bool.eqb cok (client_accepts cs && forallb client_props_ok es)
                 && (negb cok || (list_eqb line_eqb (flat_map (fun e => client_lines (client_view e)) es) clines
                                  && grouping_ok es cs))
      | Err s => negb ok && (err_class s =? errc)
      | Panic _ => negb ok && (errc =? 100)      (* the real compiler panicked (the model never says so) *)
      | _ => false
      end
  end.

(* position of the first differing line, for debugging a mismatch *)
Fixpoint first_diff (i : N) (a b : list line) : option (N * option line * option line) :=
  match a, b with
  | [], [] => None
  | x :: r, y :: s => if line_eqb x y then first_diff (N.succ i) r s else Some (i, Some x, Some y)
  | x :: _, [] => Some (i, Some x, None)
  | [], y :: _ => Some (i, None, Some y)
  end.
Definition c17_diff (c : c17case) :=
  match c with
  | EC es ok _ lines cok clines =>
      match compile_file es with
      | Ok cs => match first_diff 0 (flatten (file_pkg_of es) cs ++ notes es) lines with
                 | Some d => Some d
                 | None => first_diff 1000 (flat_map (fun e => client_lines (client_view e)) es) clines
                 end
      | _ => None
      end
  end.

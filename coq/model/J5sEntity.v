(* J5sEntity.v — entities inside the C02 model.  internal/j5s/sourcewalk/entity.go does not
   convert an entity itself: entityNode.run builds ordinary schema elements (objects, an enum,
   a oneof with nested objects, a service, a topic) and hands them to the same visitors as
   declared elements.  This file is that expansion, source to source: entity -> list element
   (J5sAst), in the order run() visits them; everything downstream (conversion, link, contract,
   validity) is the C02 model applied to the expanded file.
   Covered: keys (primary / shard flags; any field type), data, statuses, events, the
   automatic Query service (Get / List / Events) and the Publish topic.  Not covered (a file
   using them is outside this model): command services, summaries, schemas declared inside
   the entity block, baseUrlPath, query settings (eventsInGet, default status filter, list
   requests).  What entities add to descriptors outside Desc.v (psm options, flatten, list
   rules, state_query options) is C17's (family ent, model/Entity.v).
   Names with lib/Strcase.v, as entity.go computes them. *)
From Coq Require Import String List NArith Bool.
From J5V.lib Require Import Outcome Strcase.
From J5V.model Require Import J5sAst Desc J5sWalk J5sLink J5sConvert.
Import ListNotations.
Local Open Scope N_scope.

Record ekey := mkEkey {
  ek_prop : property;        (* key.Def *)
  ek_primary : bool;         (* schema.key.entity.primaryKey (key-typed fields only) *)
  ek_shard : bool            (* shardKey *)
}.
Record eevent := mkEevent { ee_name : str; ee_fields : props }.
Record entity := mkEntity {
  et_name : str;
  et_keys : list ekey;
  et_data : props;
  et_status : list str;
  et_events : list eevent
}.

Definition is_key_field (f : field) : bool := match f with FScalar (SKey _) => true | _ => false end.

(* componentName: ToCamel(name) + ToCamel(suffix) *)
Definition component (e : entity) (suffix : string) : str := to_camel (et_name e) ++ to_camel (b suffix).
(* ent.name = ToSnake(entity.Name); the query names use ToCamel / ToLowerCamel of it *)
Definition ent_name (e : entity) : str := to_snake (et_name e).

Definition own_obj (e : entity) (suffix : string) : field := FObjRef (mkRef [] (component e suffix)).
Definition ext_obj (pkg name : string) : field := FObjRef (mkRef (b pkg) (b name)).

(* buildProperty: a primary key is required *)
Definition key_property (k : ekey) : property :=
  match ek_prop k with
  | Property n rq op f => Property n (rq || (ek_primary k && is_key_field f)) op f
  end.

Definition keys_object (e : entity) : element :=
  EObject (component e "Keys") (mkprops (map key_property (et_keys e))) NNil.
Definition data_object (e : entity) : element := EObject (component e "Data") (et_data e) NNil.
Definition status_enum (e : entity) : element :=
  EEnum (mkEnum (component e "Status") (to_screaming_snake (et_name e) ++ b "_STATUS_") (et_status e)).

Definition req (n : string) (f : field) : property := Property (b n) true false f.
Definition opt (n : string) (f : field) : property := Property (b n) false false f.

Definition state_object (e : entity) : element :=
  EObject (component e "State")
    (mkprops [req "metadata" (ext_obj "j5.state.v1" "StateMetadata");
              req "keys" (own_obj e "Keys");
              req "data" (own_obj e "Data");
              req "status" (FEnumRef (mkRef [] (component e "Status")))]) NNil.

(* the event oneof: one member per event, lowerCamel of the event name, referring to the event
   object nested in the oneof wrapper *)
Definition event_type (e : entity) : element :=
  let tn := component e "EventType" in
  EOneof tn
    (mkprops (map (fun ev => Property (to_lower_camel (ee_name ev)) false false
                               (FObjRef (mkRef [] (tn ++ dot ++ ee_name ev)))) (et_events e)))
    (mknesteds (map (fun ev => NObject (ee_name ev) (ee_fields ev) NNil) (et_events e))).

Definition event_object (e : entity) : element :=
  EObject (component e "Event")
    (mkprops [req "metadata" (ext_obj "j5.state.v1" "EventMetadata");
              req "keys" (own_obj e "Keys");
              req "event" (FOneofRef (mkRef [] (component e "EventType")))]) NNil.

(* acceptQuery: which keys go into the URL of Get / Events (primary keys; shard keys) and of
   List (shard keys); keys that are not key-typed fields are skipped *)
Definition get_keys (e : entity) : list ekey :=
  filter (fun k => is_key_field (prop_field (ek_prop k)) && (ek_primary k || ek_shard k)) (et_keys e).
Definition list_keys (e : entity) : list ekey :=
  filter (fun k => is_key_field (prop_field (ek_prop k)) && ek_shard k) (et_keys e).
Definition key_path (ks : list ekey) : list str := map (fun k => [58] ++ prop_name (ek_prop k)) ks.

Definition base_url (pkg : str) (e : entity) : str := join slash (split 46 pkg ++ [ent_name e]).

Definition page_request : list property :=
  [opt "page" (ext_obj "j5.list.v1" "PageRequest"); opt "query" (ext_obj "j5.list.v1" "QueryRequest")].
Definition page_response : property := opt "page" (ext_obj "j5.list.v1" "PageResponse").

Definition query_service (pkg : str) (e : entity) : element :=
  let cn := to_camel (ent_name e) in
  let ln := to_lower_camel (ent_name e) in
  let gk := map key_property (get_keys e) in
  let lk := map key_property (list_keys e) in
  EService (mkService (cn ++ b "Query") (Some (slash ++ base_url pkg e ++ b "/q"))
    [mkMethod (cn ++ b "Get") VGet (join slash (key_path (get_keys e)))
       (mkprops gk)
       (Some (mkprops [Property ln true false (own_obj e "State")]));
     mkMethod (cn ++ b "List") VGet (join slash (key_path (list_keys e)))
       (mkprops (lk ++ page_request))
       (Some (mkprops [Property ln true false (FArray (own_obj e "State")); page_response]));
     mkMethod (cn ++ b "Events") VGet (join slash (key_path (get_keys e) ++ [b "events"]))
       (mkprops (gk ++ page_request))
       (Some (mkprops [opt "events" (FArray (own_obj e "Event")); page_response]))]).

(* acceptPublishTopic: an event topic <Name>Publish with one message <Name>Event *)
Definition publish_topic (pkg : str) (e : entity) : element :=
  let cn := to_camel (et_name e) in
  ETopic (TEvent (cn ++ b "Publish") (pkg ++ dot ++ cn)
    (mkTmsg (Some (cn ++ b "Event"))
       (mkprops [req "metadata" (ext_obj "j5.state.v1" "EventPublishMetadata");
                 req "keys" (own_obj e "Keys");
                 req "event" (FOneofRef (mkRef [] (component e "EventType")));
                 req "data" (own_obj e "Data");
                 req "status" (FEnumRef (mkRef [] (component e "Status")))]))).

(* entityNode.run: the elements in visiting order *)
Definition expand_entity (pkg : str) (e : entity) : list element :=
  [keys_object e; data_object e; status_enum e; state_object e; event_type e; event_object e;
   query_service pkg e; publish_topic pkg e].

(* a source file whose root elements are declarations or entities *)
Inductive eelement := XPlain (el : element) | XEntity (e : entity).

Definition expand_elements (pkg : str) (l : list eelement) : list element :=
  flat_map (fun x => match x with XPlain el => [el] | XEntity e => expand_entity pkg e end) l.

Definition expand_jfile (dir : list str) (base : str) (imports : list import) (els : list eelement) : jfile :=
  mkJfile dir base imports (expand_elements (join dot dir) els).

(* What the expansion adds outside the C02 syntax: <Name>State.status and <Name>Event.event carry
   list rules (filterable), so the main file of a source with an entity imports the j5.list
   annotations.  [ents]: the main proto paths of the source files that declare an entity. *)
Definition with_entity_imports (ents : list str) (fs : list dfile) : list dfile :=
  map (fun f => if mem_str (fl_path f) ents
                then mkDfile (fl_path f) (fl_pkg f) (insert_dep imp_list (fl_deps f)) (fl_msgs f) (fl_enums f) (fl_svcs f)
                else f) fs.

(* RulesCorr.v — correspondence cases for C12 (and the shared equality test on
   emitted annotations): what the real compiler emitted and what the real
   validator decided, checked against the model by vm_compute. *)
From Coq Require Import String List NArith ZArith Bool.
From J5V.lib Require Import Outcome Corr.
From J5V.model Require Import RulesDecl RulesWrite RulesSpec Validate RulesSpecDec Regex.
From J5V.model Require Import RulesRead RulesNested RulesNestedSem RulesOneof RulesCompile RulesCompileTree.
Import ListNotations.

(* decidable equality on emitted annotations (transparent, so it computes) *)
Definition str_eq_dec : forall a b : str, {a = b} + {a <> b} := list_eq_dec N.eq_dec.
Definition ostr_eq_dec : forall a b : option str, {a = b} + {a <> b}.
Proof. decide equality; apply str_eq_dec. Defined.
Definition oN_eq_dec : forall a b : option N, {a = b} + {a <> b}.
Proof. decide equality; apply N.eq_dec. Defined.
Definition obool_eq_dec : forall a b : option bool, {a = b} + {a <> b}.
Proof. decide equality; apply bool_dec. Defined.
Definition ikind_eq_dec : forall a b : ikind, {a = b} + {a <> b}.
Proof. decide equality. Defined.
Definition ubound_eq_dec : forall a b : ubound, {a = b} + {a <> b}.
Proof. decide equality; apply Z.eq_dec. Defined.
Definition lbound_eq_dec : forall a b : lbound, {a = b} + {a <> b}.
Proof. decide equality; apply Z.eq_dec. Defined.
Definition tyc_eq_dec : forall a b : tyc, {a = b} + {a <> b}.
Proof.
  fix IH 1. intros a b.
  decide equality;
    try apply oN_eq_dec; try apply obool_eq_dec; try apply ostr_eq_dec; try apply bool_dec;
    try apply ikind_eq_dec; try apply ubound_eq_dec; try apply lbound_eq_dec;
    try (apply list_eq_dec; apply Z.eq_dec).
  all: decide equality.
Defined.
Definition constraint_eq_dec : forall a b : constraint, {a = b} + {a <> b}.
Proof. decide equality; [decide equality; apply tyc_eq_dec | apply bool_dec]. Defined.
Definition txt_rules_eq_dec : forall a b : txt_rules, {a = b} + {a <> b}.
Proof. decide equality; try apply obool_eq_dec; apply ostr_eq_dec. Defined.
Definition kfmt_eq_dec0 : forall a b : kfmt, {a = b} + {a <> b}.
Proof. decide equality; apply str_eq_dec. Defined.
Definition j5ext_eq_dec : forall a b : j5ext, {a = b} + {a <> b}.
Proof.
  decide equality; try apply ostr_eq_dec; try apply bool_dec;
    try (apply list_eq_dec; apply str_eq_dec);
    decide equality; first [apply txt_rules_eq_dec | apply kfmt_eq_dec0].
Defined.
Definition larm_eq_dec : forall a b : larm, {a = b} + {a <> b}.
Proof. decide equality. Defined.
Definition lpay_eq_dec : forall a b : lpay, {a = b} + {a <> b}.
Proof. decide equality; try apply bool_dec; apply list_eq_dec; apply str_eq_dec. Defined.
Definition keyext_eq_dec : forall a b : keyext, {a = b} + {a <> b}.
Proof.
  decide equality; try apply ostr_eq_dec; try apply bool_dec.
  decide equality. decide equality; apply str_eq_dec.
Defined.
Fixpoint pkind_eq_dec (a b : pkind) : {a = b} + {a <> b}.
Proof. decide equality; apply str_eq_dec. Defined.
Definition fout_eq_dec : forall a b : fout, {a = b} + {a <> b}.
Proof.
  decide equality; try apply str_eq_dec; try apply bool_dec; try apply N.eq_dec; try apply pkind_eq_dec.
  - decide equality; apply keyext_eq_dec.
  - decide equality. decide equality; [apply lpay_eq_dec | apply larm_eq_dec].
  - decide equality; apply j5ext_eq_dec.
  - decide equality; apply constraint_eq_dec.
Defined.

Definition fout_eqb (a b : fout) : bool := if fout_eq_dec a b then true else false.

(* what C12 is about: the field's shape and its (buf.validate.field); the
   j5.ext / j5.list annotations and the description are
   C04's business *)
Definition c12_proj (o : fout) : fout :=
  FO (fo_json o) (fo_name o) (fo_number o) (fo_kind o) (fo_rep o) (fo_opt o) (fo_pres o) (fo_val o) None None None [].

(* compile outcome: only the kind of failure is compared *)
Definition out_agree (m : outcome fout) (o : outcome fout) : bool :=
  match m, o with
  | Ok a, Ok b => fout_eqb (c12_proj a) (c12_proj b)
  | Err _, Err _ => true
  | Panic _, Panic _ => true
  | _, _ => false
  end.

Definition verdict_eqb (a b : verdict) : bool :=
  match a, b with
  | VAccept, VAccept | VReject, VReject | VError ECompile, VError ECompile | VError ERuntime, VError ERuntime => true
  | _, _ => false
  end.

(* the Go oracle's reading of the declaration (None: the declaration is outside
   what it judges) against the decision procedure of the Coq specification *)
Definition spec_agree (m : bool) (g : option bool) : bool :=
  match g with Some b => Bool.eqb m b | None => true end.

(* one property: environment, position, declaration (in the extended language of
   RulesCompile: with multipleOf / map Ext), what the compiler emitted (or that it
   refused: compile_prop runs the front checks with the RE2-fragment parser as
   regexp.Compile),
   and per value: what the real validator returned and what the Go oracle reads
   the declaration as saying *)
Inductive c12case :=
| C12Case (env : enum_env) (idx : N) (x : xprop) (obs : outcome fout) (vals : list (fvalue * verdict * option bool))
(* a whole message: the declarations, the emitted fields and per message (one
   value per field): what the real validator returned (violations on these
   fields only) and the Go oracle's conjunction of the declared rules *)
| C12Obj (env : enum_env) (ds : list prop) (obs : list fout) (msgs : list (list fvalue * verdict * option bool))
(* the regular-expression engine on its own: a pattern, whether Go's regexp compiles
   it, and (text, regexp.MatchString) pairs *)
| C12Re (p : str) (go_compiles : bool) (ms : list (str * bool))
(* a oneof: the declared options, the emitted member fields, and per message (at most one
   member set): what the real validator returned and the Go oracle's reading *)
| C12Oneof (env : enum_env) (ds : list prop) (obs : list fout) (msgs : list (list fvalue * verdict * option bool))
(* inline types: a declaration tree (root name Foo), the tree of messages the compiler
   emitted, and per value of the root message (with the embedded messages of its inline
   types): what the real validator returned (all violations, at any depth) and the Go
   oracle's recursive reading of the declared rules *)
| C12Tree (env : enum_env) (s : nschema) (obs : mtree) (vals : list (mvalue * verdict * option bool)).

Fixpoint mtree_eqb_with (proj : fout -> fout) (a b : mtree) : bool :=
  match a, b with
  | MT o1 n1, MT o2 n2 =>
      (if str_eq_dec (ro_name o1) (ro_name o2) then true else false)
      && match ro_msgopt o1, ro_msgopt o2 with
         | Some RObject, Some RObject | Some ROneof, Some ROneof | None, None => true
         | _, _ => false
         end
      && list_eqb (fun x y => fout_eqb (proj x) (proj y)) (ro_fields o1) (ro_fields o2)
      && (fix go (l1 l2 : list mtree) : bool :=
            match l1, l2 with
            | [], [] => true
            | x :: r1, y :: r2 => mtree_eqb_with proj x y && go r1 r2
            | _, _ => false
            end) n1 n2
  end.

Definition c12_check (c : c12case) : bool :=
  match c with
  | C12Case env idx x obs vals =>
      let d := x_prop x in
      out_agree (compile_prop re_frag_ok env idx x) obs &&
      match obs with
      | Ok o => forallb (fun p => match p with (fv, vd, g) =>
                  verdict_eqb (validate_sem re_frag_ok re_frag_match (defined_numbers env) o fv) vd
                  && spec_agree (rule_semb re_frag_match env d fv) g end) vals
      | _ => true
      end
  | C12Obj env ds obs msgs =>
      forallb (fun p => match p with (fvs, vd, g) =>
                  verdict_eqb (validate_obj re_frag_ok re_frag_match (defined_numbers env) obs fvs) vd
                  && spec_agree (rule_objb re_frag_match env ds fvs) g end) msgs
  | C12Oneof env ds obs msgs =>
      match compile_members re_frag_ok env ds with
      | Ok os => list_eqb (fun x y => fout_eqb (c12_proj x) (c12_proj y)) os obs
      | _ => false
      end &&
      forallb (fun p => match p with (fvs, vd, g) =>
                  verdict_eqb (validate_obj re_frag_ok re_frag_match (defined_numbers env) obs fvs) vd
                  && spec_agree (member_objb re_frag_match env ds fvs) g end) msgs
  | C12Tree env s obs vals =>
      match compile_schema re_frag_ok env [] [70;111;111]%N s with
      | Ok m => mtree_eqb_with c12_proj (c12_view m) obs
      | _ => false
      end &&
      forallb (fun p => match p with (mv, vd, g) =>
                  verdict_eqb (validate_tree re_frag_ok re_frag_match (defined_numbers env) obs mv) vd
                  && spec_agree (rule_treeb re_frag_match env s mv) g end) vals
  | C12Re p go_compiles ms =>
      (* the pattern lies in the modelled fragment; the parser agrees with Go on
         whether it compiles; the derivative matcher agrees with MatchString *)
      re_in_fragment p && Bool.eqb (re_frag_ok p) go_compiles &&
      forallb (fun m => Bool.eqb (re_frag_match p (fst m)) (snd m)) ms
  end.

(* CodecDecFloat.v — what strconv.ParseFloat must answer: the float oracle's law.
   The decoder model leaves strconv.ParseFloat uninterpreted ([o_float]: text -> binary64 bits, binary32
   bits).  This file states, without a parsing algorithm, when a bit pattern is THE correctly rounded
   (IEEE-754 round-to-nearest, ties-to-even) value of the decimal number m * 10^e that lib/Decimal.v's
   [dec_parse] reads from a text: [rounds fmt m e bits] compares 2*|m|*10^e with the two midpoints
   between the float and its neighbours (bit patterns b-1 and b+1; the pattern of infinity read as
   2^emax, which is the IEEE overflow threshold) in exact integer arithmetic.
   [float_obs_ok] is the check of one observation of the real strconv.ParseFloat; the correspondence
   evaluates it on every float text of every decode case of a run, and [float_oracle_law] is the same
   statement for all texts, the premise of the float-value theorems.  No proofs in this file. *)
From Coq Require Import List NArith ZArith Bool.
From J5V.lib Require Import Json.
From J5V.lib Require Decimal.
From J5V.model Require Import CodecDecScalar.
Import ListNotations.
Local Open Scope Z_scope.

(* a binary interchange format: fraction bits, total bits, and the bias of the value formula
   (normal: (2^p + frac) * 2^(ef - bias); subnormal: frac * 2^(1 - bias)) *)
Record ffmt := mkFmt { f_p : Z; f_bits : Z; f_bias : Z }.
Definition binary64 : ffmt := mkFmt 52 64 1075.
Definition binary32 : ffmt := mkFmt 23 32 150.

(* magnitude of the non-negative pattern b as (integer, exponent of two), every exponent field read as finite *)
Definition fmag (f : ffmt) (b : Z) : Z * Z :=
  let ef := b / 2 ^ f_p f in
  let frac := b mod 2 ^ f_p f in
  if ef =? 0 then (frac, 1 - f_bias f) else (2 ^ f_p f + frac, ef - f_bias f).

(* compare 2 * q * 10^e with x + y, for q >= 0 and x, y float magnitudes *)
Definition cmp_mid (q e : Z) (x y : Z * Z) : comparison :=
  let k := Z.min (snd x) (snd y) in
  let a := fst x * 2 ^ (snd x - k) + fst y * 2 ^ (snd y - k) in
  Z.compare (2 * q * 10 ^ (Z.max e 0) * 2 ^ (Z.max (- k) 0))
            (a * 2 ^ (Z.max k 0) * 10 ^ (Z.max (- e) 0)).

Definition rounds (f : ffmt) (m e : Z) (bits : N) : bool :=
  let half := 2 ^ (f_bits f - 1) in
  let sign := Z.of_N bits / half in
  let b := Z.of_N bits mod half in
  let inf := half - 2 ^ f_p f in
  if m =? 0 then b =? 0
  else
    Bool.eqb (m <? 0) (sign =? 1) && (b <? inf) &&
    (if b =? 0 then true
     else match cmp_mid (Z.abs m) e (fmag f (b - 1)) (fmag f b) with
          | Gt => true | Eq => Z.even b | Lt => false end) &&
    (match cmp_mid (Z.abs m) e (fmag f b) (fmag f (b + 1)) with
     | Lt => true | Eq => Z.even b | Gt => false end).

(* exponents beyond this are not evaluated (10^e is written out); such texts carry no claim *)
Definition float_exp_bound : Z := 2000.

(* one observation of strconv.ParseFloat(s, 64) / (s, 32): bits of the result, None for an error *)
Definition float_obs_ok (s : bytes) (r : option N * option N) : bool :=
  match Decimal.dec_parse s with
  | Some (m, e) =>
    if float_exp_bound <? Z.abs e then true
    else
      (match fst r with Some b => rounds binary64 m e b | None => true end) &&
      (match snd r with Some b => rounds binary32 m e b | None => true end)
  | None => true      (* hexadecimal, Inf / NaN spellings, malformed: no claim *)
  end.

Definition float_table_ok (ft : list (bytes * (option N * option N))) : bool :=
  forallb (fun sr => float_obs_ok (fst sr) (snd sr)) ft.

(* THE LAW: whatever ParseFloat accepts of a decimal text is the correctly rounded value of the number
   written (round-to-nearest, ties-to-even; overflow is an error, never a stored infinity) *)
Definition float_oracle_law (orc : oracles) : Prop := forall s, float_obs_ok s (o_float orc s) = true.

(* ProtoPrintBytes.v — the BYTES internal/j5s/protoprint writes (C05, byte level), for descriptors without
   source locations (no comments; every option has SourceLocation == nil, i.e. parseOption's sourceSingleLine
   and inlineWithParent are both true; printElements' lastEnd stays 0, so its "blank line in the source"
   rule never fires).  That sub-class is [unlocated_b] below.
     protoprint.go  fileBuffer.p (pending addGap -> one empty line, indent = 2 spaces per level, newline),
                    printFile (generated-comment header, syntax, package, sorted imports, file options,
                    extend blocks, elements), addGap / endElem
     types.go       printSection ({} form, option statements each followed by a gap), printElements (gap after
                    message / service / enum / oneof), printMethod ({} or block of option statements, gap),
                    printExtension, printField (label, map<K, V>)
     options.go     parseOption's inlineString ({}  {k: v}  []  scalar), printOption, printOptionArray (four
                    forms), printOptionMessageFields, printFieldStyle (no options / one inline option / block)
   The writer state is the list of lines written so far (reversed, without their newline) and the addGap flag.
   [render_sfile] walks the SAME syntactic file [lay_file] builds and [emit_file] turns into tokens, so order,
   Simplify, json_name and type names are shared with the token model.  No proofs in this file. *)
From Coq Require Import String List NArith ZArith Bool.
From J5V.lib Require Import Corr.
From J5V.model Require Import ProtoPrintLit ProtoPrint ProtoLex ProtoLayout ProtoPrintCorr ProtoPrintFile ProtoPrintFileErase.
Import ListNotations.
Local Open Scope N_scope.
Local Open Scope bool_scope.

(* ------------------------------------------------------------------ fileBuffer *)
Definition wst := (list (list N) * bool)%type.      (* lines so far (reversed), addGap *)

Definition indent_bytes (ind : nat) : list N := repeat 32 (2 * ind).

(* fileBuffer.p *)
Definition wp (ind : nat) (s : list N) (w : wst) : wst :=
  ((indent_bytes ind ++ s) :: (if snd w then [] :: fst w else fst w), false).
(* fileBuilder.addGap *)
Definition wgap (w : wst) : wst := (fst w, true).
(* fileBuilder.endElem *)
Definition wend (ind : nat) (s : list N) (w : wst) : wst := wp ind s (fst w, false).

Definition wbytes (w : wst) : list N := flat_map (fun l => l ++ [10]) (rev (fst w)).

Definition wfold {A} (f : A -> wst -> wst) (l : list A) (w : wst) : wst := fold_left (fun w x => f x w) l w.

(* ------------------------------------------------------------------ option values *)
Definition scalar_text (v : rawval) : list N := match v with RScalar t => tok_text t | _ => [] end.
Definition is_rscalar (v : rawval) : bool := match v with RScalar _ => true | _ => false end.
Definition is_rmsg (v : rawval) : bool := match v with RMsg _ => true | _ => false end.

(* parseOption: inlineString when the source is a single line (always, without a source location) *)
Definition inline_string (v : rawval) : option (list N) :=
  match v with
  | RScalar t => Some (tok_text t)
  | RMsg [] => Some (sb "{}")
  | RMsg [(k, RScalar t)] => Some (sb "{" ++ k ++ sb ": " ++ tok_text t ++ sb "}")
  | RMsg _ => None
  | RList [] => Some (sb "[]")
  | RList _ => None
  end.

(* one child of printOptionMessageFields, written at level ind (its own children one level deeper);
   the RList arm is printOptionArray with opener "key: " and no trailer *)
Fixpoint wr_child (ind : nat) (k : ident) (v : rawval) (w : wst) {struct v} : wst :=
  match v with
  | RScalar t => wp ind (k ++ sb ": " ++ tok_text t) w
  | RMsg cs =>
      wend ind (sb "}")
        ((fix fields (l : list (ident * rawval)) (w : wst) {struct l} : wst :=
            match l with [] => w | (k', x) :: r => fields r (wr_child (S ind) k' x w) end) cs (wp ind (k ++ sb ": {") w))
  | RList items =>
      let opener := k ++ sb ": " in
      match items with
      | [] => wp ind (opener ++ sb "[]") w
      | [RScalar t] => wp ind (opener ++ sb "[" ++ tok_text t ++ sb "]") w
      | RMsg _ :: _ =>
          wend ind (sb "}]")
            ((fix go (first : bool) (l : list rawval) (w : wst) {struct l} : wst :=
                match l with
                | [] => w
                | x :: l' =>
                    let w' := if first then w else wp ind (sb "}, {") w in
                    go false l'
                      (match x with
                       | RMsg cs =>
                           (fix fields (l : list (ident * rawval)) (w : wst) {struct l} : wst :=
                              match l with [] => w | (k', y) :: r => fields r (wr_child (S ind) k' y w) end) cs w'
                       | _ => w'
                       end)
                end) true items (wp ind (opener ++ sb "[{") w))
      | _ =>
          wend ind (sb "]")
            ((fix go (l : list rawval) (w : wst) {struct l} : wst :=
                match l with
                | [] => w
                | [x] => wp (S ind) (scalar_text x) w
                | x :: l' => go l' (wp (S ind) (scalar_text x ++ sb ",") w)
                end) items (wp ind (opener ++ sb "[") w))
      end
  end.

(* printOptionMessageFields called on a builder at level ind *)
Definition wr_fields (ind : nat) (fs : list (ident * rawval)) (w : wst) : wst :=
  wfold (fun kv => wr_child (S ind) (fst kv) (snd kv)) fs w.

(* printOptionArray at the top of an option (opener / trailer given) *)
Definition wr_array (ind : nat) (opener : list N) (items : list rawval) (trailer : list N) (w : wst) : wst :=
  match items with
  | [] => wp ind (opener ++ sb "[]" ++ trailer) w
  | [RScalar t] => wp ind (opener ++ sb "[" ++ tok_text t ++ sb "]" ++ trailer) w
  | RMsg _ :: _ =>
      wend ind (sb "}]" ++ trailer)
        ((fix go (first : bool) (l : list rawval) (w : wst) {struct l} : wst :=
            match l with
            | [] => w
            | x :: l' =>
                let w' := if first then w else wp ind (sb "}, {") w in
                go false l' (match x with RMsg cs => wr_fields ind cs w' | _ => w' end)
            end) true items (wp ind (opener ++ sb "[{") w))
  | _ =>
      wend ind (sb "]" ++ trailer)
        ((fix go (l : list rawval) (w : wst) {struct l} : wst :=
            match l with
            | [] => w
            | [x] => wp (S ind) (scalar_text x) w
            | x :: l' => go l' (wp (S ind) (scalar_text x ++ sb ",") w)
            end) items (wp ind (opener ++ sb "[") w))
  end.

(* printOption: an option statement *)
Definition wr_opt_stmt (ind : nat) (o : sopt) (w : wst) : wst :=
  let name := oname_text (fst o) in
  match inline_string (snd o) with
  | Some s => wp ind (sb "option " ++ name ++ sb " = " ++ s ++ sb ";") w
  | None =>
      match snd o with
      | RMsg cs => wend ind (sb "};") (wr_fields ind cs (wp ind (sb "option " ++ name ++ sb " = {") w))
      | RList items => wr_array ind (sb "option " ++ name ++ sb " = ") items (sb ";") w
      | RScalar t => wp ind (sb "option " ++ name ++ sb " = " ++ tok_text t ++ sb ";") w
      end
  end.

(* printFieldStyle: the options of a field / enum value in brackets (block form) *)
Fixpoint wr_bracket_opts (ind : nat) (l : list sopt) (w : wst) {struct l} : wst :=
  match l with
  | [] => w
  | o :: r =>
      let trailer := match r with [] => [] | _ => sb "," end in
      let name := oname_text (fst o) in
      let w1 :=
        match inline_string (snd o) with
        | Some s => wp ind (name ++ sb " = " ++ s ++ trailer) w
        | None =>
            match snd o with
            | RMsg cs => wend ind (sb "}" ++ trailer) (wr_fields ind cs (wp ind (name ++ sb " = {") w))
            | RList items => wr_array ind (name ++ sb " = ") items trailer w
            | RScalar t => wp ind (name ++ sb " = " ++ tok_text t ++ trailer) w
            end
        end in
      wr_bracket_opts ind r w1
  end.

Definition wr_field_style (ind : nat) (name : list N) (num : list N) (opts : list sopt) (w : wst) : wst :=
  let head := name ++ sb " = " ++ num in
  match opts with
  | [] => wp ind (head ++ sb ";") w
  | [o] =>
      match inline_string (snd o) with
      | Some s => wp ind (head ++ sb " [" ++ oname_text (fst o) ++ sb " = " ++ s ++ sb "];") w
      | None => wend ind (sb "];") (wr_bracket_opts (S ind) opts (wp ind (head ++ sb " [") w))
      end
  | _ => wend ind (sb "];") (wr_bracket_opts (S ind) opts (wp ind (head ++ sb " [") w))
  end.

(* ------------------------------------------------------------------ elements *)
Definition label_text (l : label) : list N :=
  match l with LNone => [] | LRepeated => sb "repeated " | LOptional => sb "optional " end.
Definition stype_text (t : stype) : list N :=
  match t with
  | SNamed p => printed_text p
  | SMap k v => sb "map<" ++ printed_text k ++ sb ", " ++ printed_text v ++ sb ">"
  end.

(* printField *)
Definition wr_field (ind : nat) (f : sfield) (w : wst) : wst :=
  wr_field_style ind (label_text (sf_label f) ++ stype_text (sf_type f) ++ sb " " ++ sf_name f)
    (print_uint (sf_num f)) (sf_opts f) w.
(* printEnumValue *)
Definition wr_value (ind : nat) (v : svalue) (w : wst) : wst :=
  wr_field_style ind (sv_name v) (print_int (sv_num v)) (sv_opts v) w.

(* printMethod *)
Definition wr_method (ind : nat) (m : smethod) (w : wst) : wst :=
  let head := sb "rpc " ++ sm_name m ++ sb "(" ++ printed_text (sm_in m) ++ sb ") returns ("
              ++ printed_text (sm_out m) ++ sb ")" in
  match sm_opts m with
  | [] => wgap (wp ind (head ++ sb " {}") w)
  | opts => wgap (wend ind (sb "}") (wfold (wr_opt_stmt (S ind)) opts (wp ind (head ++ sb " {") w)))
  end.

(* printSection: inner writes the elements one level deeper *)
Definition wr_section (ind : nat) (kw name : list N) (opts : list sopt) (empty : bool) (inner : wst -> wst) (w : wst) : wst :=
  match opts, empty with
  | [], true => wp ind (kw ++ sb " " ++ name ++ sb " {}") w
  | _, _ =>
      wend ind (sb "}")
        (inner (wfold (fun o w => wgap (wr_opt_stmt (S ind) o w)) opts (wp ind (kw ++ sb " " ++ name ++ sb " {") w)))
  end.

Definition is_nil_l {A} (l : list A) : bool := match l with [] => true | _ => false end.

(* printElements: a gap after every message / service / enum / oneof; fields and values have none;
   printMethod sets its own *)
Fixpoint wr_elem (ind : nat) (e : selem) (w : wst) {struct e} : wst :=
  match e with
  | SField f => wr_field ind f w
  | SOneof _ n opts fs =>
      wgap (wr_section ind kw_oneof n opts (is_nil_l fs) (wfold (wr_field (S ind)) fs) w)
  | SMsg _ n opts body =>
      wgap (wr_section ind kw_message n opts (is_nil_l body)
              ((fix go (l : list selem) (w : wst) {struct l} : wst :=
                  match l with [] => w | x :: r => go r (wr_elem (S ind) x w) end) body) w)
  | SEnum _ n opts vs =>
      wgap (wr_section ind kw_enum n opts (is_nil_l vs) (wfold (wr_value (S ind)) vs) w)
  | SService _ n opts ms =>
      wgap (wr_section ind kw_service n opts (is_nil_l ms) (wfold (wr_method (S ind)) ms) w)
  end.

(* printExtension *)
Definition wr_ext (x : sext) (w : wst) : wst :=
  wgap (wend 0 (sb "}") (wfold (wr_field 1) (sx_fields x) (wp 0 (sb "extend " ++ join_dot (sx_extendee x) ++ sb " {") w))).

(* printFile; gen = the generated-code comment PrintFile is given *)
Definition render_sfile (gen : list N) (s : sfile) : list N :=
  let w0 : wst := ([], false) in
  let w1 := wp 0 [] (wp 0 (sb "// " ++ gen) w0) in
  let w2 := wgap (wp 0 (sb "package " ++ join_dot (s_pkg s) ++ sb ";") (wp 0 [] (wp 0 (sb "syntax = ""proto3"";") w1))) in
  let w3 := match s_imports s with
            | [] => w2
            | imps => wgap (wfold (fun p => wp 0 (sb "import """ ++ p ++ sb """;")) imps w2)
            end in
  let w4 := wgap (wfold (fun o => wp 0 (sb "option " ++ fst o ++ sb " = " ++ tok_text (snd o) ++ sb ";")) (s_fopts s) w3) in
  let w5 := wfold wr_ext (s_exts s) w4 in
  wbytes (wfold (wr_elem 0) (s_body s) w5).

(* the bytes PrintFile writes for the descriptor d (imp: types and packages of the imported files) *)
Definition render_bytes (gen : list N) (imp : xsymtab) (d : dfile) : list N :=
  render_sfile gen (lay_file (to_symtab (dfile_symtab imp d)) d).

(* ------------------------------------------------------------------ the sub-class *)
Definition key_unlocated (k : key) : bool := k_line k =? 0.
Definition cmt_none (c : cmt) : bool := is_nil_l (c_det c) && is_nil_l (c_lead c).
Definition dopts_unlocated (l : list dopt) : bool := forallb (fun o => key_unlocated (o_key o)) l.
Definition dfield_unlocated (f : dfield) : bool :=
  key_unlocated (f_key f) && cmt_none (f_cm f) && dopts_unlocated (f_opts f).
Definition dvalue_unlocated (v : dvalue) : bool :=
  key_unlocated (v_key v) && cmt_none (v_cm v) && dopts_unlocated (v_opts v).
Definition dmethod_unlocated (m : dmethod) : bool :=
  key_unlocated (m_key m) && cmt_none (m_cm m) && dopts_unlocated (m_opts m).

Fixpoint delem_unlocated (e : delem) : bool :=
  match e with
  | DField f => dfield_unlocated f
  | DOneof k c _ opts fs => key_unlocated k && cmt_none c && dopts_unlocated opts && forallb dfield_unlocated fs
  | DMsg k c _ opts body =>
      key_unlocated k && cmt_none c && dopts_unlocated opts
      && (fix go (l : list delem) : bool := match l with [] => true | x :: r => delem_unlocated x && go r end) body
  | DEnum k c _ opts vs => key_unlocated k && cmt_none c && dopts_unlocated opts && forallb dvalue_unlocated vs
  | DService k c _ opts ms => key_unlocated k && cmt_none c && dopts_unlocated opts && forallb dmethod_unlocated ms
  end.

(* a descriptor without source code info: no element and no option has a location, there are no comments *)
Definition unlocated_b (d : dfile) : bool :=
  forallb (fun xf => dfield_unlocated (snd xf)) (d_exts d) && forallb delem_unlocated (d_body d).

(* the generated-code comment stays one // line *)
Definition gen_ok (gen : list N) : bool := forallb (fun c => negb (c =? 10) && negb (c =? 0)) gen.

(* the sub-class of the byte-level theorem: unlocated descriptors (their printed tokens contain no comment
   pseudo token: proofs/ProtoPrintBytesEraseProofs.v) whose rendered bytes pass the layout test against the model's tokens (a computable test; the file correspondence evaluates it on every case of the
   byte stream, so every descriptor printed there is inside the theorem) *)
Definition bytes_modelled_b (gen : list N) (imp : xsymtab) (d : dfile) : bool :=
  unlocated_b d && gen_ok gen
  && is_layout (print_file_tokens_nc (to_symtab (dfile_symtab imp d)) d) (render_bytes gen imp d).

(* J5sSymbols.v — the proto symbols a j5s source declares, read off the source with the naming
   rules of the README (J5sContract): a message for every object / oneof (declared, nested,
   inline - under the default or overridden name), for every map field its entry message, for
   every method <Method>Request / <Method>Response, for every topic message <Name>Message; a
   field for every property (snake_case; implicit leading fields included); an enum and its
   values - which live in the scope that encloses the enum - for every enum; a service and its
   methods for every service and topic.  Fully qualified, without leading dot.
   A package is free of symbol collisions when this list has no duplicates (J5sValid).
   Definitions only; nothing here looks at what the compiler produces. *)
From Coq Require Import String List NArith Bool.
From J5V.lib Require Import Outcome.
From J5V.model Require Import J5sAst Desc J5sWalk J5sLink J5sContract.
Import ListNotations.
Local Open Scope N_scope.

Section Symbols.
Variables snake camel screaming : str -> str.

Definition decl_value_names (name : str) (e : enum) : list str :=
  (enum_pfx screaming name e ++ b "UNSPECIFIED") :: map (opt_value_name (enum_pfx screaming name e)) (strict_opts screaming name e).

Definition decl_enum_syms (scope name : str) (e : enum) : list str :=
  qual scope name :: map (qual scope) (decl_value_names name e).

Definition field_syms (me : str) (ps : list property) : list str :=
  map (fun p => qual me (snake (prop_name p))) ps.

(* inline enums of a run of properties (directly, or as item of an array / map) *)
Definition item_enum_syms (scope pname : str) (f : field) : list str :=
  match f with
  | FEnumInline e => decl_enum_syms scope (inline_type_name camel pname (e_name e)) e
  | _ => []
  end.
Fixpoint props_enum_syms (scope : str) (ps : props) {struct ps} : list str :=
  match ps with
  | PNil => []
  | PCons (Property n _ _ f) r => item_enum_syms scope n (elem f) ++ props_enum_syms scope r
  end.

Definition entry_syms (scope pname : str) : list str :=
  let en := qual scope (entry_name snake pname) in [en; qual en (b "key"); qual en (b "value")].

(* inline objects / oneofs of a run of properties, with everything inside them *)
Fixpoint item_msg_syms (scope pname : str) (f : field) {struct f} : list str :=
  match f with
  | FObjInline nm ps | FOneofInline nm ps =>
      let me := qual scope (inline_type_name camel pname nm) in
      me :: field_syms me (props_list ps) ++ props_msg_syms me ps ++ props_enum_syms me ps
  | _ => []
  end
with props_msg_syms (scope : str) (ps : props) {struct ps} : list str :=
  match ps with
  | PNil => []
  | PCons p r => property_msg_syms scope p ++ props_msg_syms scope r
  end
with property_msg_syms (scope : str) (p : property) {struct p} : list str :=
  match p with
  | Property n _ _ f =>
      match f with
      | FArray it => item_msg_syms scope n it
      | FMap it => item_msg_syms scope n it ++ entry_syms scope n
      | _ => item_msg_syms scope n f
      end
  end.

(* a message [name] with properties ps and nothing else nested: request, response, topic message *)
Definition virtual_syms (scope name : str) (ps : props) : list str :=
  let me := qual scope name in
  me :: field_syms me (props_list ps) ++ props_msg_syms me ps ++ props_enum_syms me ps.

Fixpoint nesteds_enum_syms (scope : str) (ns : nesteds) {struct ns} : list str :=
  match ns with
  | NNil => []
  | NCons (NEnum e) r => decl_enum_syms scope (e_name e) e ++ nesteds_enum_syms scope r
  | NCons _ r => nesteds_enum_syms scope r
  end.

Fixpoint nested_msg_syms (scope : str) (n : nested) {struct n} : list str :=
  match n with
  | NObject nm ps subs | NOneof nm ps subs =>
      let me := qual scope nm in
      me :: field_syms me (props_list ps) ++
      (props_msg_syms me ps ++ nesteds_msg_syms me subs) ++
      (props_enum_syms me ps ++ nesteds_enum_syms me subs)
  | NEnum _ => []
  end
with nesteds_msg_syms (scope : str) (ns : nesteds) {struct ns} : list str :=
  match ns with
  | NNil => []
  | NCons n r => nested_msg_syms scope n ++ nesteds_msg_syms scope r
  end.

(* ---- declarations of a file *)
Definition elem_msg_syms (pkg : str) (e : element) : list str :=
  match e with
  | EObject nm ps subs => nested_msg_syms pkg (NObject nm ps subs)
  | EOneof nm ps subs => nested_msg_syms pkg (NOneof nm ps subs)
  | _ => []
  end.
Definition elem_enum_syms (pkg : str) (e : element) : list str :=
  match e with EEnum en => decl_enum_syms pkg (e_name en) en | _ => [] end.

Definition method_msg_syms (spkg : str) (m : method) : list str :=
  virtual_syms spkg (m_name m ++ b "Request") (m_request m) ++
  match m_response m with
  | Some ps => virtual_syms spkg (m_name m ++ b "Response") ps
  | None => []
  end.
Definition service_msg_syms (spkg : str) (s : service) : list str :=
  flat_map (method_msg_syms spkg) (sv_methods s).
Definition service_svc_syms (spkg : str) (s : service) : list str :=
  let sn := qual spkg (sv_name s ++ b "Service") in
  sn :: map (fun m => qual sn (m_name m)) (sv_methods s).

Definition tmsgs_msg_syms (spkg tname : str) (virt : props) (l : list tmsg) : list str :=
  flat_map (fun t => virtual_syms spkg (tmsg_name tname t ++ b "Message") (papp virt (tm_fields t))) l.
Definition tmsgs_svc_syms (spkg tname : str) (l : list tmsg) : list str :=
  let sn := qual spkg (camel tname ++ b "Topic") in
  sn :: map (fun t => qual sn (tmsg_name tname t)) l.

Definition upsert_msg (name : str) (msg : tmsg) : tmsg :=
  match tm_name msg with None => mkTmsg (Some name) (tm_fields msg) | Some _ => msg end.

Definition topic_msg_syms (spkg : str) (t : topic) : list str :=
  match t with
  | TPublish name msgs => tmsgs_msg_syms spkg name PNil msgs
  | TReqRes name req reply =>
      tmsgs_msg_syms spkg (name ++ b "Request") virt_request req ++
      tmsgs_msg_syms spkg (name ++ b "Reply") virt_request reply
  | TUpsert name _ msg => tmsgs_msg_syms spkg name virt_upsert [upsert_msg name msg]
  | TEvent name _ msg => tmsgs_msg_syms spkg name PNil [msg]
  end.
Definition topic_svc_syms (spkg : str) (t : topic) : list str :=
  match t with
  | TPublish name msgs => tmsgs_svc_syms spkg name msgs
  | TReqRes name req reply =>
      tmsgs_svc_syms spkg (name ++ b "Request") req ++ tmsgs_svc_syms spkg (name ++ b "Reply") reply
  | TUpsert name _ msg => tmsgs_svc_syms spkg name [upsert_msg name msg]
  | TEvent name _ msg => tmsgs_svc_syms spkg name [msg]
  end.

(* the symbols of the three files generated for one source file: main, .service, .topic *)
Definition decl_file_symbols (f : jfile) : list str :=
  let pkg := j5s_pkg f in
  let spkg := pkg ++ dot ++ b "service" in
  let tpkg := pkg ++ dot ++ b "topic" in
  (flat_map (elem_msg_syms pkg) (jf_elements f) ++ flat_map (elem_enum_syms pkg) (jf_elements f)) ++
  (flat_map (service_msg_syms spkg) (file_services f) ++ flat_map (service_svc_syms spkg) (file_services f)) ++
  (flat_map (topic_msg_syms tpkg) (file_topics f) ++ flat_map (topic_svc_syms tpkg) (file_topics f)).

(* every symbol declared for a package: by its hand-written .proto files and its j5s sources *)
Definition decl_package_symbols (bd : bundle) (pkg : str) : list str :=
  pkg_pfile_symbols bd pkg ++
  flat_map (fun f => match f with BJ j => decl_file_symbols j | BP _ => [] end) (pkg_files bd pkg).

End Symbols.

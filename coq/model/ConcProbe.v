(* ConcProbe.v — the token tables of ConcGen.v compared with what the MACHINE does, instead of
   with a hand-typed table: the access events and hook labels of probe runs of the machine of
   Conc.v / ConcRace.v, rendered as tokens, against the regenerated Go token lists flattened along
   their call: edges.

   Go side (static): the tokens of a function in source order, the functions of the tables it calls
   spliced in, a deferred unlock moved to the end of its function.  Dropped: read:To (see
   ConcSites.project), call: tokens of functions outside the tables (RefSchema.claim, ...).
   Alternatives of one if/else that assign the same field (placeholder.To = buildOneofSchema /
   buildObjectSchema) appear as consecutive equal tokens and are collapsed.
   Machine side (dynamic): per step of a probe run, the events of the step (ConcRace.lstep_events,
   enter_events, fin_events — the very functions the race theorems are about) as tokens, then the
   hook the thread is parked at after the step.

   No proofs in this file. *)
From Coq Require Import String List NArith Bool Arith.
From J5V.model Require Import Conc ConcRace ConcSites.
Import ListNotations.
Local Open Scope string_scope.
Local Open Scope list_scope.

(* ---- Go side ------------------------------------------------------------------------------ *)
Definition dropped_token (t : string) : bool := String.eqb t "read:To".

Fixpoint flatten (fuel : nat) (tab : fn_table) (toks : list string) : list string :=
  match fuel with
  | O => ["out-of-fuel"]
  | S f =>
      (fix go (ts : list string) (deferred : list string) : list string :=
         match ts with
         | [] => deferred
         | t :: r =>
             if String.eqb t "defer-unlock" then go r ("unlock" :: deferred)
             else if String.eqb t "defer-runlock" then go r ("runlock" :: deferred)
             else if dropped_token t then go r deferred
             else match callee t with
                  | Some n =>
                      match find_fn tab n with
                      | Some (_, toks') => flatten f tab toks' ++ go r deferred
                      | None => go r deferred
                      end
                  | None => t :: go r deferred
                  end
         end) toks []
  end.

Fixpoint collapse (l : list string) : list string :=
  match l with
  | a :: ((b :: _) as r) => if String.eqb a b && String.eqb a "write:To" then collapse r else a :: collapse r
  | other => other
  end.

Definition static_tokens (tab : fn_table) (fname : string) : list string :=
  match find_fn tab fname with
  | Some (_, toks) => collapse (flatten (S (length tab)) tab toks)
  | None => ["no-such-function"]
  end.

Definition without (drop : list string) (l : list string) : list string :=
  filter (fun t => negb (in_strs t drop)) l.

(* ---- machine side ----------------------------------------------------------------------------- *)
(* in_fin: the event belongs to the end of Schema (fin_events), where a write of a Schemas map is the
   delete of the rollback loop *)
Definition token_of (in_fin : bool) (e : event) : list string :=
  match e with
  | EAcq _ => ["lock"]
  | ERel _ => ["unlock"]
  | ERd _ LPkgs => ["read:packages"]
  | EWr _ LPkgs => ["write:packages"]
  | ERd _ (LSchemas _) => ["read:Schemas"]
  | EWr _ (LSchemas _) => [if in_fin then "delete:Schemas" else "write:Schemas"]
  | ERd _ LReg => []                  (* `range sc.registered`: the token tables list writes of cache fields only *)
  | EWr _ LReg => ["setfield:registered"]
  | ERd _ (LCell _) => []             (* read:To, dropped on the Go side too *)
  | EWr _ (LCell _) => ["write:To"]
  | EObs _ _ => []                    (* the caller, after Schema returned *)
  end.

Definition hook_name (l : N) : list string :=
  match l with
  | 0%N => ["hook:schema.enter"] | 2%N => ["hook:cache.lookup"] | 3%N => ["hook:cache.insert"]
  | 4%N => ["hook:refto.lookup"] | 5%N => ["hook:refto.insert"] | 6%N => ["hook:ref.linked"]
  | 7%N => ["hook:cache.linked"] | _ => []
  end%N.

(* the tokens of one step of thread t, and the hook it reaches *)
Definition step_tokens (d : disc) (pk : name -> N) (k : nat) (g : graph) (t : tid) (st : state) : list string :=
  match nth_error (s_thr st) t with
  | None => []
  | Some th =>
      match t_calls th with
      | [] => []
      | n :: _ =>
          let st' := gstep d k g t st in
          let reached := match nth_error (s_thr st') t with
                         | Some th' => match t_calls th', t_pc th' with
                                       | _ :: _, PEnter => if Nat.eqb (length (t_calls th')) (length (t_calls th)) then [] else ["return"]
                                       | [], _ => ["return"]
                                       | _, _ => hook_name (pc_label th')
                                       end
                         | None => []
                         end in
          match t_pc th with
          | PEnter | PWait => flat_map (token_of false) (gstep_events d pk k g t st) ++ reached
          | p =>
              let (sh', o) := lstep k g n (s_sh st) p in
              flat_map (token_of false) (lstep_events pk g n t (s_sh st) p) ++
              match o with
              | inl _ => reached
              | inr res =>
                  (* the last hook was passed before the end of Schema *)
                  flat_map (token_of true) (fin_events pk t res sh') ++
                  match d with Guarded => ["unlock"] | Unguarded => [] end ++ reached
              end
          end
      end
  end.

Fixpoint run_tokens (d : disc) (pk : name -> N) (k : nat) (g : graph) (sched : list tid) (st : state) : list string :=
  match sched with
  | [] => []
  | t :: r => step_tokens d pk k g t st ++ run_tokens d pk k g r (gstep d k g t st)
  end.

(* one call of Schema on type 1 by a single thread on a fresh cache, from its entry hook to its return *)
Definition probe_tokens (g : graph) (steps : nat) : list string :=
  "hook:schema.enter" :: run_tokens Guarded (fun _ => 0%N) 3 g (repeat 0 steps) (init [[1%N]]).

(* the events of the same run, as the race theorems see them, rendered without the fin distinction
   and without hooks: the probe is about the events function itself *)
Definition probe_event_tokens (g : graph) (steps : nat) : list string :=
  flat_map (token_of false) (events Guarded (fun _ => 0%N) 3 g [[1%N]] (repeat 0 steps)).

Definition is_hook (t : string) : bool := String.prefix "hook:" t || String.eqb t "return".

(* probe universes *)
Definition probe_leaf : graph := [(1, [])]%N.                 (* a message without reference fields *)
Definition probe_failing : graph := [(1, [0])]%N.             (* its only field is of an unsupported type *)
Definition probe_nested : graph := [(1, [2]); (2, [])]%N.     (* one field of a message type *)

Definition pkg_tokens : list string := ["read:packages"; "write:packages"].

(* the segment of a token list from the first occurrence of a token (inclusive) to the first occurrence of another (inclusive) *)
Fixpoint from_token (a : string) (l : list string) : list string :=
  match l with
  | [] => []
  | t :: r => if String.eqb t a then l else from_token a r
  end.
Fixpoint upto_token (b : string) (l : list string) : list string :=
  match l with
  | [] => []
  | t :: r => if String.eqb t b then [t] else t :: upto_token b r
  end.

(* CodecEnvDerive.v — the two derivation steps of the schema reflector that the C08 statement speaks
   about, as functions of a RAW environment:
     * buildEnum (lib/j5schema/schema_from_proto.go): the option names of an enum schema are the
       proto value names with the prefix trimmed, the prefix being the name of the first value
       minus its suffix UNSPECIFIED; an enum marked no_default loses its first value;
     * ObjectSchema.ClientProperties (lib/j5schema/root_schema.go): an object property marked
       flatten is replaced by the client properties of its schema, their proto paths prefixed by
       the path of the flattened property (nestedClone), everything else unchanged.
   The raw environment is dumped from the real reflector (ObjectSchema.Properties with the flatten
   marks; proto enum value names); the correspondence recomputes the client environment here and
   compares it with the dump of the real ClientProperties / EnumSchema.Options (CEnv).
   No proofs in this file. *)
From Coq Require Import String List NArith ZArith Bool.
From J5V.lib Require Import Json.
From J5V.model Require Import CodecTypes.
Import ListNotations.
Local Open Scope N_scope.
Local Open Scope bool_scope.
Local Open Scope list_scope.

Inductive rawschema :=
| RObject (props : list (property * bool))   (* ObjectSchema.Properties; true: the object field is flattened *)
| ROneof (props : list property)
| REnum (nodefault : bool) (values : list (bytes * Z))   (* proto value names and numbers, declaration order *)
| RKeep (s : schema).                        (* marker schemas of the dump, no derivation *)

Definition rawenv := list (bytes * rawschema).

Fixpoint rlookup (e : rawenv) (name : bytes) : option rawschema :=
  match e with
  | [] => None
  | (n, s) :: r => if bytes_eqb n name then Some s else rlookup r name
  end.

(* ---------------------------------------------------------------- enums *)
Definition txt_unspecified : bytes := [85; 78; 83; 80; 69; 67; 73; 70; 73; 69; 68].   (* UNSPECIFIED *)

(* strings.TrimSuffix when strings.HasSuffix, None otherwise *)
Definition strip_suffix (suffix s : bytes) : option bytes :=
  match strip_prefix (rev suffix) (rev s) with
  | Some r => Some (rev r)
  | None => None
  end.

Definition derive_enum (nodefault : bool) (values : list (bytes * Z)) : option schema :=
  match values with
  | [] => None
  | (first, _) :: _ =>
      match strip_suffix txt_unspecified first with
      | None => None                      (* "enum does not have an unspecified value" *)
      | Some pre =>
          let opts := map (fun v => (trim_prefix pre (fst v), snd v)) values in
          Some (SEnum pre (if nodefault then tl opts else opts))
      end
  end.

(* ---------------------------------------------------------------- flatten *)
(* nestedClone: the proto path is prefixed, name / type / required are the child's.  p_explicit and
   p_siblings are facts about the FINAL proto field of the path (taken from the descriptor by the
   dump): the child's, except for an exposed oneof of the child (no field of its own), whose path
   becomes that of the flattened field itself *)
Definition nest (p q : property) : property :=
  mkProp (p_json q) (p_path p ++ p_path q) (p_required q)
         (match p_path q with [] => p_explicit p | _ => p_explicit q end)
         (match p_path q with [] => p_siblings p | _ => p_siblings q end)
         (p_ty q).

Fixpoint client_props (fuel : nat) (re : rawenv) (ps : list (property * bool)) : list property :=
  match fuel with
  | O => []
  | S f =>
      flat_map (fun pf : property * bool =>
        let p := fst pf in
        if snd pf then
          match p_ty p with
          | FObject r =>
              match rlookup re r with
              | Some (RObject cps) => map (nest p) (client_props f re cps)
              | _ => [p]
              end
          | _ => [p]
          end
        else [p]) ps
  end.

Definition derive_schema (re : rawenv) (s : rawschema) : option schema :=
  match s with
  | RObject ps => Some (SObject (client_props (S (length re)) re ps))
  | ROneof ps => Some (SOneof ps)
  | REnum nd vs => derive_enum nd vs
  | RKeep s => Some s
  end.

(* ---------------------------------------------------------------- comparison with the dumped client environment *)
Fixpoint ty_eqb (a b : field_ty) : bool :=
  match a, b with
  | FScalar x, FScalar y => scalar_kind_eqb x y
  | FEnum x, FEnum y | FObject x, FObject y | FOneof x, FOneof y => bytes_eqb x y
  | FArray x, FArray y | FMap x, FMap y => ty_eqb x y
  | FAny x, FAny y => Bool.eqb x y
  | _, _ => false
  end.

Fixpoint nums_eqb (a b : list N) : bool :=
  match a, b with
  | [], [] => true
  | x :: r, y :: s => (x =? y) && nums_eqb r s
  | _, _ => false
  end.

Definition property_eqb (a b : property) : bool :=
  bytes_eqb (p_json a) (p_json b) && nums_eqb (p_path a) (p_path b) &&
  Bool.eqb (p_required a) (p_required b) && Bool.eqb (p_explicit a) (p_explicit b) &&
  nums_eqb (p_siblings a) (p_siblings b) && ty_eqb (p_ty a) (p_ty b).

Fixpoint props_eqb (a b : list property) : bool :=
  match a, b with
  | [], [] => true
  | x :: r, y :: s => property_eqb x y && props_eqb r s
  | _, _ => false
  end.

Fixpoint opts_eqb (a b : list (bytes * Z)) : bool :=
  match a, b with
  | [], [] => true
  | (n, z) :: r, (n', z') :: s => bytes_eqb n n' && Z.eqb z z' && opts_eqb r s
  | _, _ => false
  end.

Definition schema_eqb (a b : schema) : bool :=
  match a, b with
  | SObject x, SObject y | SOneof x, SOneof y => props_eqb x y
  | SEnum p x, SEnum q y => bytes_eqb p q && opts_eqb x y
  | _, _ => false
  end.

(* every schema of the dumped client environment is what the derivation computes from the raw one *)
Definition env_derived_b (re : rawenv) (e : env) : bool :=
  forallb (fun ns => match rlookup re (fst ns) with
                     | Some rs => match derive_schema re rs with
                                  | Some s => schema_eqb s (snd ns)
                                  | None => false
                                  end
                     | None => false
                     end) e.

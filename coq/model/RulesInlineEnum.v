(* RulesInlineEnum.v — C04 for enums declared inline in a field (README "Inline Types":
     field kind enum { option A  option B }).
   The compiler nests the enum in the message of the declaring schema under the name the
   declaration states (`enum.name`) or, by default, strcase.ToCamel of the field name
   (sourcewalk/property.go defaultNestingName); its value prefix is the declared one
   (`enum.prefix`) or ToScreamingSnake(name) + "_" (conversion.go visitEnumNode). The
   field's in / not-in rules are over THAT enum. The reflector knows the nested enum as the
   schema <Outer>_<Name> of the package. Everything else is RulesEnum.v (the enum as a
   root schema) and RulesWrite / RulesRead (the field), with the environment the inline
   declaration denotes. No proofs here. *)
From Coq Require Import String List NArith ZArith Bool.
From J5V.lib Require Import Outcome Strcase.
From J5V.model Require Import RulesDecl RulesWrite RulesRead RulesEnum RulesNested.
Import ListNotations.

(* an inline enum declaration: stated name, stated prefix, description, options, info fields *)
Record ienum := IE {
  ie_name : option str; ie_prefix : option str; ie_desc : str;
  ie_options : list (str * str * oinfo); ie_info : list infofield }.

Definition ie_schema (field : str) (i : ienum) : str :=
  match ie_name i with Some n => n | None => to_camel field end.

Definition ie_eff_prefix (field : str) (i : ienum) : str :=
  match ie_prefix i with
  | Some p => p
  | None => (to_screaming_snake (ie_schema field i) ++ [95%N])%list
  end.

(* the enum declaration it stands for (RulesEnum.enum_decl carries the effective prefix) *)
Definition ie_decl (field : str) (i : ienum) : enum_decl :=
  ED (ie_desc i) (ie_eff_prefix field i) (ie_options i) (ie_info i).

(* the environment an enum declaration denotes for the rules of fields over it: prefix, the
   explicit zero option (a first option spelling UNSPECIFIED / <prefix>UNSPECIFIED), the other option names *)
Definition env_of_decl (e : enum_decl) : enum_env :=
  match ed_options e with
  | (n, _, _) :: r =>
      if is_zero_opt (ed_prefix e) n
      then EE (ed_prefix e) (Some n) (map (fun o => fst (fst o)) r)
      else EE (ed_prefix e) None (map (fun o => fst (fst o)) (ed_options e))
  | [] => EE (ed_prefix e) None []
  end.

(* compiled: the field, and the nested enum under its simple name *)
Definition write_inline_enum (idx : N) (d : prop) (i : ienum) : outcome (fout * (str * enum_out)) :=
  let decl := ie_decl (p_name d) i in
  obind (write_prop (env_of_decl decl) idx d)
        (fun o => Ok (o, (ie_schema (p_name d) i, write_enum decl))).

(* reflected: the property, and the enum as the root schema <Outer path>_<Name> *)
Definition read_inline_enum (env : enum_env) (here : list str) (c : fout * (str * enum_out))
  : outcome (rprop * (str * renum)) :=
  obind (read_prop env (fst c)) (fun p =>
  obind (read_enum (snd (snd c))) (fun e =>
  Ok (p, (join_path 95 (here ++ [fst (snd c)]), e)))).

(* declared: from the declaration alone *)
Definition norm_inline_enum (here : list str) (idx : N) (d : prop) (i : ienum) : rprop * (str * renum) :=
  let decl := ie_decl (p_name d) i in
  (norm_prop (env_of_decl decl) idx d, (join_path 95 (here ++ [ie_schema (p_name d) i]), norm_enum decl)).

Definition inline_enum_rt (d : prop) (i : ienum) : bool :=
  rt_ok d && enum_rt (ie_decl (p_name d) i).

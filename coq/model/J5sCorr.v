(* J5sCorr.v — correspondence cases for C02/C13: a generated bundle, the package compiled,
   and what the real compiler (protobuild.PackageSet.CompilePackage through the verifshim
   facade) produced, in the canonical descriptor view of Desc.v. *)
From Coq Require Import String List NArith Bool.
From J5V.lib Require Import Outcome Corr Strcase.
From J5V.model Require Import J5sAst Desc J5sWalk J5sConvert J5sValid J5sEdit J5sEntity J5sComments.
Import ListNotations.
Local Open Scope N_scope.

(* the model instantiated with the byte-exact strcase functions *)
Definition compile (bd : bundle) (pkg : str) : outcome (list dfile) :=
  compile_package to_snake to_camel to_screaming_snake bd pkg.

Definition sort_files (l : list dfile) : list dfile :=
  sort_by (fun x y => str_ltb (fl_path x) (fl_path y)) l.

(* the validity predicate of C02_full / C13_full, with the same instantiation *)
Definition valid (bd : bundle) : bool := valid_bundle to_snake to_camel to_screaming_snake bd.

(* ok: CompilePackage returned without error; files: the generated files (suffix .j5s.proto).
   CCompileV adds okall: the real compiler accepted every package of the bundle.  A valid
   bundle must be accepted (the hypothesis of C02_full is not true of rejected packages); with
   exact = true also the converse (it is not false of accepted ones: generated bundles and
   the broken ones; not the hand-written corpus cases that are outside the documented language
   and accepted all the same). *)
Inductive c02case :=
| CCompile (bd : bundle) (pkg : str) (ok : bool) (files : list dfile)
| CCompileV (bd : bundle) (pkg : str) (ok okall exact : bool) (files : list dfile) (locs : list (str * dtable * list (list N * str)))
(* a bundle with entities (expanded by J5sEntity.expand_jfile inside [bd]); [ents]: the main
   proto paths of the source files that declare one *)
| CCompileE (bd : bundle) (pkg : str) (ents : list str) (ok okall exact : bool) (files : list dfile) (locs : list (str * dtable * list (list N * str))).

(* the source locations of the main file of every source file of the compiled package: what
   J5sComments.main_locs computes from the source and the description table = what the real
   compiler wrote (descriptor path and leading comment, in order) *)
Definition locs_check (bd : bundle) (locs : list (str * dtable * list (list N * str))) : bool :=
  forallb (fun x => match x with
                    | (path, t, real) =>
                        match find_jfile bd path with
                        | Some f => locs_eqb (main_locs to_camel to_screaming_snake t f) real
                        | None => false
                        end
                    end) locs.

Definition compile_check (bd : bundle) (pkg : str) (ok : bool) (files : list dfile) : bool :=
  match compile bd pkg with
  | Ok fs => ok && list_eqb dfile_eqb (sort_files fs) files
  | Err _ => negb ok
  | _ => false
  end.

Definition compile_check_e (bd : bundle) (pkg : str) (ents : list str) (ok : bool) (files : list dfile) : bool :=
  match compile bd pkg with
  | Ok fs => ok && list_eqb dfile_eqb (sort_files (with_entity_imports ents fs)) files
  | Err _ => negb ok
  | _ => false
  end.

Definition c02_check (c : c02case) : bool :=
  match c with
  | CCompileE bd pkg ents ok okall exact files locs =>
      compile_check_e bd pkg ents ok files && locs_check bd locs &&
      (if exact then Bool.eqb (valid bd) okall else implb (valid bd) okall)
  | CCompile bd pkg ok files => compile_check bd pkg ok files
  | CCompileV bd pkg ok okall exact files locs =>
      compile_check bd pkg ok files && locs_check bd locs &&
      (if exact then Bool.eqb (valid bd) okall else implb (valid bd) okall)
  end.

(* C13: the package before and after a sequence of append edits, both compiled by the real
   compiler; the model must reproduce both - from the edited source as the generator printed
   it (bd') and from the model's own application of the edits (apply_edits bd es), so that the
   edits of the theorems are the edits that were tried. *)
Inductive c13case :=
| CEdit (bd : bundle) (es : list edit) (bd' : bundle) (pkg : str) (ok ok' okall okall' embeds : bool) (files files' : list dfile).

(* okall / okall': the real compiler accepted every package of the bundle before / after the
   edits - exactly when the bundle is [valid] (the hypothesis of C13_full on both sides) *)
Definition c13_check (c : c13case) : bool :=
  match c with
  | CEdit bd es bd' pkg ok ok' okall okall' embeds files files' =>
      compile_check bd pkg ok files && compile_check bd' pkg ok' files' &&
      compile_check (apply_edits bd es) pkg ok' files' &&
      Bool.eqb (valid bd) okall && Bool.eqb (valid (apply_edits bd es)) okall' &&
      (* the embedding itself, on what the real compiler produced before and after (embeds =
         false only for the hand-written pair of the known finding: an option ending in
         UNSPECIFIED appended to an enum without options) *)
      (if ok && ok' then Bool.eqb (files_ext_b files files') embeds else true)
  end.

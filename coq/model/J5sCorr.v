(* J5sCorr.v — correspondence cases for C02/C13: a generated bundle, the package compiled,
   and what the real compiler (protobuild.PackageSet.CompilePackage through the verifshim
   facade) produced, in the canonical descriptor view of Desc.v. *)
From Coq Require Import String List NArith Bool.
From J5V.lib Require Import Outcome Corr Strcase.
From J5V.model Require Import J5sAst Desc J5sWalk J5sConvert J5sEdit.
Import ListNotations.
Local Open Scope N_scope.

(* the model instantiated with the byte-exact strcase functions *)
Definition compile (bd : bundle) (pkg : str) : outcome (list dfile) :=
  compile_package to_snake to_camel to_screaming_snake bd pkg.

Definition sort_files (l : list dfile) : list dfile :=
  sort_by (fun x y => str_ltb (fl_path x) (fl_path y)) l.

(* ok: CompilePackage returned without error; files: the generated files (suffix .j5s.proto) *)
Inductive c02case :=
| CCompile (bd : bundle) (pkg : str) (ok : bool) (files : list dfile).

Definition c02_check (c : c02case) : bool :=
  match c with
  | CCompile bd pkg ok files =>
      match compile bd pkg with
      | Ok fs => ok && list_eqb dfile_eqb (sort_files fs) files
      | Err _ => negb ok
      | _ => false
      end
  end.

(* C13: the package before and after a sequence of append edits, both compiled by the real
   compiler; the model must reproduce both - from the edited source as the generator printed
   it (bd') and from the model's own application of the edits (apply_edits bd es), so that the
   edits of the theorems are the edits that were tried. *)
Inductive c13case :=
| CEdit (bd : bundle) (es : list edit) (bd' : bundle) (pkg : str) (ok ok' : bool) (files files' : list dfile).

Definition c13_check (c : c13case) : bool :=
  match c with
  | CEdit bd es bd' pkg ok ok' files files' =>
      c02_check (CCompile bd pkg ok files) && c02_check (CCompile bd' pkg ok' files') &&
      c02_check (CCompile (apply_edits bd es) pkg ok' files')
  end.

(* BclLsp.v — an LSP client applying the TextEdits of genlsp/format.go to its buffer, following the
   rules of the protocol for positions (LSP 3.17, "Position"): a position is (line, character in
   UTF-16 code units); "if a line number is greater than the number of lines in a document, it
   defaults back to the number of lines in the document" — it denotes the end of the document —
   and a character beyond the end of its line defaults back to the line length.  The server
   (internal/bcl/genlsp) does not clamp anything itself: astFormatter.Format sends (FromLine, 0) -
   (ToLine, 0) with ToLine possibly equal to the number of lines, and relies on this rule.
   [clamp_pos] is the rule on positions, [pos_offset] the byte offset a position denotes in the
   buffer (the document as one string), [client_apply] the application of ascending, non-overlapping
   edits by offsets, all relative to the original buffer.  BclFmt.lsp_apply is the special case for
   character-0 edits that C19_lsp is stated with; proofs/BclLspClampProofs.v shows that the general
   client coincides with it on every edit list genlsp can produce, and that clamping changes none of
   the positions except an end position on line = number of lines.  No proofs here. *)
From Coq Require Import String List NArith ZArith Bool.
From J5V.lib Require Import Text Outcome.
From J5V.model Require Import BclLexer BclParser BclFmt.
Import ListNotations.
Local Open Scope Z_scope.

(* UTF-16 code units of a rune / of a line *)
Definition u16_units (r : N) : Z := if (r <? 65536)%N then 1 else 2.
Definition u16_len (rs : list N) : Z := fold_right (fun r a => u16_units r + a) 0 rs.

(* the clamping rule on positions; [lines] = strings.Split(document, "\n"), never empty *)
Definition clamp_pos (lines : list (list N)) (p : lsp_pos) : lsp_pos :=
  let n := Z.of_nat (length lines) in
  if n <=? lp_line p then mkLP (n - 1) (u16_len (utf8_decode (last lines [])))
  else mkLP (lp_line p) (Z.min (lp_char p) (u16_len (utf8_decode (nth (Z.to_nat (lp_line p)) lines [])))).

(* bytes of the longest prefix of whole characters of a line that has at most [c] UTF-16 units *)
Fixpoint prefix_bytes (fuel : nat) (c : Z) (bs : list N) : Z :=
  match fuel with
  | O => 0
  | S f =>
    match decode_rune bs with
    | None => 0
    | Some (r, k) => if c <? u16_units r then 0
                     else Z.of_N k + prefix_bytes f (c - u16_units r) (skipn (N.to_nat k) bs)
    end
  end.

(* bytes before line L: every earlier line and its newline *)
Definition line_start (lines : list (list N)) (L : Z) : Z :=
  Z.of_nat (length (flat_map (fun l => l ++ [10%N]) (firstn (Z.to_nat L) lines))).

(* the byte offset a position denotes in the buffer join(lines, "\n") *)
Definition pos_offset (lines : list (list N)) (p : lsp_pos) : Z :=
  let n := Z.of_nat (length lines) in
  if n <=? lp_line p then Z.of_nat (length (join_with 10 lines))
  else let l := nth (Z.to_nat (lp_line p)) lines [] in
       line_start lines (lp_line p) + prefix_bytes (length l) (lp_char p) l.

Definition slice (doc : list N) (a b : Z) : list N := firstn (Z.to_nat (b - a)) (skipn (Z.to_nat a) doc).

(* ascending, non-overlapping edits, every range relative to the original buffer; [cur] = offset consumed *)
Fixpoint client_apply (lines : list (list N)) (doc : list N) (cur : Z) (tes : list text_edit) : list N :=
  match tes with
  | [] => skipn (Z.to_nat cur) doc
  | te :: r => slice doc cur (pos_offset lines (te_start te)) ++ te_text te
               ++ client_apply lines doc (pos_offset lines (te_end te)) r
  end.

(* the buffer after the client applied the edits to the document [input] *)
Definition lsp_client_apply (input : list N) (tes : list text_edit) : list N :=
  client_apply (split_on 10 input) input 0 tes.

(* CodecDecCommute.v — the schema condition of the member-reordering theorem as a computable check
   that the correspondence runs on the environments of the real reflector.
   For any two properties of an object (or oneof): their proto paths part into different fields,
   neither a oneof sibling of the other where its path ends (compat_b), or — when one of them is an
   exposed oneof, whose arms are fields of the enclosing message — the sets of fields they can touch
   are disjoint. *)
From Coq Require Import List NArith Bool.
From J5V.lib Require Import Json.
From J5V.model Require Import CodecTypes CodecDecTree.
Import ListNotations.
Local Open Scope N_scope.

Definition arms_support_b (arms : list property) : list N :=
  flat_map (fun a => path_support (p_path a) (p_siblings a)) arms.

Definition prop_support_b (e : env) (p : property) : list N :=
  match p_path p with
  | [] => match p_ty p with
          | FOneof ref => match lookup e ref with Some (SOneof arms) => arms_support_b arms | _ => [] end
          | _ => []
          end
  | path => path_support path (p_siblings p)
  end.

Definition nonempty_path (a : property) : bool := match p_path a with [] => false | _ => true end.

Definition prop_ok_b (e : env) (p : property) : bool :=
  match p_path p with
  | [] => match p_ty p with
          | FOneof ref => match lookup e ref with Some (SOneof arms) => forallb nonempty_path arms | _ => true end
          | _ => true
          end
  | _ => true
  end.

(* two members of one proto oneof (same holder, the first among the second's siblings, explicit presence,
   not repeated): they never both succeed, whatever the order *)
Definition is_list_ty (t : field_ty) : bool := match t with FArray _ | FMap _ => true | _ => false end.

Fixpoint list_N_eqb (a b : list N) : bool :=
  match a, b with
  | [], [] => true
  | x :: a', y :: b' => (x =? y) && list_N_eqb a' b'
  | _, _ => false
  end.

Definition oneof_after_b (p q : property) : bool :=
  match rev (p_path p), rev (p_path q) with
  | na :: rp, nb :: rq =>
      list_N_eqb rp rq && existsb (N.eqb na) (p_siblings q) && p_explicit p && negb (is_list_ty (p_ty p))
  | _, _ => false
  end.

Definition props_commute2_b (e : env) (props : list property) : bool :=
  forallb (prop_ok_b e) props &&
  forallb (fun p =>
    forallb (fun q =>
      bytes_eqb (p_json p) (p_json q)
      || compat_b (p_path p) (p_siblings p) (p_path q) (p_siblings q)
      || disjoint_b (prop_support_b e p) (prop_support_b e q)
      || oneof_after_b p q) props) props.

Definition env_commute (e : env) : bool :=
  forallb (fun ns => match snd ns with
                     | SObject props | SOneof props => props_commute2_b e props
                     | SEnum _ _ => true
                     end) e.

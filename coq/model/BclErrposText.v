(* BclErrposText.v — the text ErrorsWithSource.HumanString renders (errpos/print.go humanString,
   Position.String, tabsToSpaces, replaceRunes), built on the guard skeleton of BclErrpos.v: the
   skeleton decides the branch, the number of context lines and the caret width and holds every
   index / slice operation that can panic; [render] turns its result into the bytes Go writes.
   A diagnostic here is what the parser produces: a position without file name, no context path,
   a message.  ([]rune conversion of a line: invalid bytes are written as U+FFFD.)  No proofs here. *)
From Coq Require Import String List NArith ZArith Bool.
From J5V.lib Require Import Text Outcome.
From J5V.model Require Import BclLexer BclErrpos.
Import ListNotations.
Local Open Scope Z_scope.

Definition bytes_of (s : string) : list N := map (fun a => N.of_nat (Ascii.nat_of_ascii a)) (list_ascii_of_string s).

(* %d *)
Definition z_dec (z : Z) : list N := if z <? 0 then 45%N :: N_to_dec (Z.to_N (- z)) else N_to_dec (Z.to_N z).
(* %03d for a non-negative number *)
Definition pad3 (z : Z) : list N := let d := z_dec z in repeat 48%N (3 - length d) ++ d.

(* tabsToSpaces: replaceRunes over []rune(line) *)
Definition tabs_to_spaces (line : list N) : list N :=
  utf8_encode (flat_map (fun r => if N.eqb r 9 then [32%N; 32%N] else [r]) (utf8_decode line)).

Definition nl1 : list N := [10%N].
Definition line_out (num : Z) (line : list N) : list N :=
  bytes_of "  > " ++ pad3 num ++ bytes_of ": " ++ tabs_to_spaces line ++ nl1.
Definition marker_prefix (start_line : Z) : list N :=
  repeat 62%N (length (bytes_of "  > " ++ pad3 start_line)) ++ bytes_of ": ".

(* the lines printed before the error line: line numbers start_line - nctx .. start_line - 1 *)
Fixpoint context_out (lines : list (list N)) (first : Z) (n : nat) : list N :=
  match n with
  | O => []
  | S k => line_out first (nth (Z.to_nat (first - 1)) lines []) ++ context_out lines (first + 1) k
  end.

Definition render (lines : list (list N)) (d : diag) (h : hres) : list N :=
  let '(sl, sc) := dstart d in
  let '(el, ec) := dend d in
  let start_line := sl + 1 in
  let start_col := sc + 1 in
  let head := bytes_of "Position: " ++ z_dec start_line ++ [58%N] ++ z_dec start_col ++ nl1
              ++ bytes_of "LIT: " ++ z_dec sl ++ [32%N] ++ z_dec sc ++ nl1 in
  let ctx n := context_out lines (start_line - Z.of_N n) (N.to_nat n) in
  let err_line := nth (Z.to_nat (start_line - 1)) lines [] in
  match h with
  | HNoStart =>
    if (el <? 0) && (ec <? 0) then bytes_of "<no position information>" ++ nl1
    else bytes_of "Position: " ++ nl1
  | HLineOutA =>
    head ++ bytes_of "<line " ++ z_dec start_line ++ bytes_of " out of range (len " ++ z_dec (Z.of_nat (length lines)) ++ bytes_of ") - a>" ++ nl1
  | HLineOutB n =>
    head ++ ctx n ++ bytes_of "<line " ++ z_dec start_line ++ bytes_of " out of range (len " ++ z_dec (Z.of_nat (length lines)) ++ bytes_of ") - b>" ++ nl1
  | HColOut n =>
    head ++ ctx n ++ line_out start_line err_line ++ marker_prefix start_line
    ++ bytes_of "<column " ++ z_dec start_col ++ bytes_of " out of range>" ++ nl1 ++ nl1
  | HCaret n w =>
    head ++ ctx n ++ line_out start_line err_line ++ marker_prefix start_line
    ++ repeat 32%N (N.to_nat w) ++ [94%N] ++ nl1
  end.

(* humanString(err, lines, context) for a diagnostic with a position and a message *)
Definition human_text (lines : list (list N)) (context : Z) (d : diag) : outcome (list N) :=
  omap (fun h => render lines d h ++ bytes_of "Message: " ++ dmsg d ++ nl1) (human_string lines context d).

(* ErrorsWithSource.HumanString: the renderings joined by a line of dashes *)
Fixpoint human_text_all (lines : list (list N)) (context : Z) (ds : list diag) : outcome (list N) :=
  match ds with
  | [] => Ok []
  | [d] => human_text lines context d
  | d :: r => obind (human_text lines context d) (fun t =>
              obind (human_text_all lines context r) (fun ts => Ok (t ++ nl1 ++ bytes_of "-----" ++ nl1 ++ ts)))
  end.
Definition human_text_bytes (input : list N) (context : Z) (ds : list diag) : outcome (list N) :=
  match ds with
  | [] => Ok (bytes_of "<ErrorsWithWource[]>")
  | _ => human_text_all (split_on 10 input) context ds
  end.

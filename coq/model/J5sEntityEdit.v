(* J5sEntityEdit.v — C13 over source files that declare entities: bundles whose source files
   hold declarations AND entities (J5sEntity.eelement), the append edits on them, and their
   expansion to the bundles of the C02 / C13 model.  Definitions only.

   An entity is expanded by sourcewalk/entity.go into eight ordinary declarations
   (J5sEntity.expand_entity: Keys, Data, Status enum, State, EventType oneof with the event
   objects nested, Event, the Query service, the Publish topic).  The edits: a key / data field /
   status / event appended to an entity, a field appended to an existing event, a declaration or
   a new entity appended to a file, and any C13 edit (J5sEdit.edit_element) on a plain
   declaration of a file that also holds entities.

   URL keys: acceptQuery puts every key-typed key that is primary or shard into the request of
   <Name>Get / <Name>Events (shard keys also into <Name>List) BEFORE the `page` / `query` fields
   and into the HTTP path; mapProperties numbers by position (the ProtoField 100 / 101 written in
   entity.go is ignored).  Appending such a key therefore moves `page` / `query` to the next
   numbers and changes the path: [url_key] marks that class.  It is OUTSIDE the quantifier of
   property C13 (a URL key changes the resource path by its nature); the theorem is for histories
   whose appended keys are not URL keys, C13_entity_full_refuted is the observation that the
   premise cannot be dropped. *)
From Coq Require Import String List NArith Bool.
From J5V.lib Require Import Outcome Strcase.
From J5V.model Require Import J5sAst Desc J5sWalk J5sEdit J5sEntity.
Import ListNotations.
Local Open Scope N_scope.

Inductive ebfile :=
| EBJ (dir : list str) (base : str) (imports : list import) (els : list eelement)
| EBP (f : pfile).
Definition ebundle := list ebfile.

Definition expand_bfile (x : ebfile) : bfile :=
  match x with
  | EBJ d bs im els => BJ (expand_jfile d bs im els)
  | EBP p => BP p
  end.
Definition expand_bundle (bd : ebundle) : bundle := map expand_bfile bd.

(* the key goes into the URL and the request of the query methods *)
Definition url_key (k : ekey) : bool :=
  is_key_field (prop_field (ek_prop k)) && (ek_primary k || ek_shard k).

Inductive ent_action :=
| XKey (k : ekey)                      (* key appended *)
| XData (p : property)                 (* data field appended *)
| XStatus (o : str)                    (* status appended *)
| XEvent (ev : eevent)                 (* event appended *)
| XEventField (i : nat) (p : property).  (* field appended to the i-th event *)

Definition ent_apply (a : ent_action) (e : entity) : entity :=
  match a with
  | XKey k => mkEntity (et_name e) (et_keys e ++ [k]) (et_data e) (et_status e) (et_events e)
  | XData p => mkEntity (et_name e) (et_keys e) (snoc_prop (et_data e) p) (et_status e) (et_events e)
  | XStatus o => mkEntity (et_name e) (et_keys e) (et_data e) (et_status e ++ [o]) (et_events e)
  | XEvent ev => mkEntity (et_name e) (et_keys e) (et_data e) (et_status e) (et_events e ++ [ev])
  | XEventField i p =>
      mkEntity (et_name e) (et_keys e) (et_data e) (et_status e)
        (update_nth i (fun ev => mkEevent (ee_name ev) (snoc_prop (ee_fields ev) p)) (et_events e))
  end.

Inductive eedit :=
| XEnt (file elem : nat) (a : ent_action)     (* on the elem-th root element, if it is an entity *)
| XAppend (file : nat) (x : eelement)          (* a declaration or a new entity at the end of the file *)
| XPlainAt (file elem : nat) (e : edit).       (* a C13 edit of the elem-th root element, if it is a declaration *)

Definition eedit_target (e : eedit) : nat :=
  match e with XEnt f _ _ | XAppend f _ | XPlainAt f _ _ => f end.

Definition eedit_element (e : eedit) (x : eelement) : eelement :=
  match e, x with
  | XEnt _ _ a, XEntity en => XEntity (ent_apply a en)
  | XPlainAt _ _ ed, XPlain el => XPlain (edit_element ed el)
  | _, _ => x
  end.

Definition eedit_file (e : eedit) (x : ebfile) : ebfile :=
  match x with
  | EBP p => EBP p
  | EBJ d bs im els =>
      match e with
      | XAppend _ y => EBJ d bs im (els ++ [y])
      | XEnt _ k _ | XPlainAt _ k _ => EBJ d bs im (update_nth k (eedit_element e) els)
      end
  end.

Definition apply_eedit (bd : ebundle) (e : eedit) : ebundle :=
  update_nth (eedit_target e) (eedit_file e) bd.
Definition apply_eedits (bd : ebundle) (es : list eedit) : ebundle := fold_left apply_eedit es bd.

(* no appended key is a URL key *)
Definition eedit_ok (e : eedit) : bool :=
  match e with XEnt _ _ (XKey k) => negb (url_key k) | _ => true end.

(* ------------------------------------------------------------------ statements *)
From J5V.model Require Import J5sValid J5sCorr.

(* the statement that also quantifies over appended URL keys (outside property C13's quantifier;
   false: C13_entity_full_refuted - an observation delimiting the theorem, not a refutation of C13) *)
Definition C13_entity_full_statement : Prop := forall es bd pkg,
  valid (expand_bundle bd) = true -> valid (expand_bundle (apply_eedits bd es)) = true ->
  (exists x, In x (expand_bundle bd) /\ bfile_pkg x = pkg) ->
  exists D D', compile (expand_bundle bd) pkg = Ok D /\
               compile (expand_bundle (apply_eedits bd es)) pkg = Ok D' /\ files_ext D D'.

(* what holds: the same for histories that append no URL key *)
Definition C13_entity_statement : Prop := forall es bd pkg,
  forallb eedit_ok es = true ->
  valid (expand_bundle bd) = true -> valid (expand_bundle (apply_eedits bd es)) = true ->
  (exists x, In x (expand_bundle bd) /\ bfile_pkg x = pkg) ->
  exists D D', compile (expand_bundle bd) pkg = Ok D /\
               compile (expand_bundle (apply_eedits bd es)) pkg = Ok D' /\ files_ext D D'.

(* the numbers of the fields called [f] of the top-level messages called [m] *)
Definition msg_field_nums (D : list dfile) (m f : str) : list N :=
  flat_map (fun fl => flat_map (fun ms => match ms with
                                          | DMsg n _ fs _ _ =>
                                              if str_eqb n m then map f_num (filter (fun x => str_eqb (f_name x) f) fs) else []
                                          end) (fl_msgs fl)) D.
Definition out_field_nums (o : outcome (list dfile)) (m f : str) : list N :=
  match o with Ok D => msg_field_nums D m f | _ => [] end.

(* ------------------------------------------------------------------ correspondence: entity-append stream of C13 *)
(* an entity bundle, the history of entity edits, the package; what the real compiler did with the
   printed text before / after (ok, okall = every package accepted), whether the real descriptors
   embed (files_ext_b), and the real files.  ents / ents': main proto paths of the files with entities. *)
Inductive c13ecase :=
| CEntEdit (bd : ebundle) (es : list eedit) (pkg : str) (ents : list str)
           (ok ok' okall okall' embeds : bool) (files files' : list dfile)
(* an append outside the edit language of C13_full (a message appended to a publish topic): the
   two versions as printed; the model must reproduce both, validity = acceptance on both sides,
   and the embedding is evaluated on the REAL descriptors *)
| CAppendPair (bd bd' : bundle) (pkg : str) (ok ok' okall okall' embeds : bool) (files files' : list dfile).

Definition c13e_check (c : c13ecase) : bool :=
  match c with
  | CEntEdit bd es pkg ents ok ok' okall okall' embeds files files' =>
      let b0 := expand_bundle bd in
      let b1 := expand_bundle (apply_eedits bd es) in
      compile_check_e b0 pkg ents ok files && compile_check_e b1 pkg ents ok' files' &&
      Bool.eqb (valid b0) okall && Bool.eqb (valid b1) okall' &&
      (* the theorem's class embeds; a history with a URL key is expected not to *)
      (if ok && ok' then Bool.eqb (files_ext_b files files') embeds else true) &&
      (if forallb eedit_ok es then embeds || negb (ok && ok') else true)
  | CAppendPair bd bd' pkg ok ok' okall okall' embeds files files' =>
      compile_check bd pkg ok files && compile_check bd' pkg ok' files' &&
      Bool.eqb (valid bd) okall && Bool.eqb (valid bd') okall' &&
      (if ok && ok' then Bool.eqb (files_ext_b files files') embeds else true)
  end.

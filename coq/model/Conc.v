(* Conc.v — model of lib/j5schema/schema_cache.go (SchemaCache.Schema, refTo) and the
   placeholder mechanism of schema_from_proto.go as a small-step shared-state machine.

   One atomic step of a thread = the code between two consecutive hook points
   (lib/j5schema/verifhook_*.go), which are placed where the Go code touches the
   shared maps / the To field of a shared RefSchema:

     schema.enter   first statement of Schema, before sc.mu.Lock()        -> PEnter
                    (the step from here takes the lock and resets sc.registered)
     cache.lookup   before the lookup  schemaPackage.Schemas[name]         -> PLookup
     cache.insert   before             schemaPackage.Schemas[name] = ph    -> PInsert
     refto.lookup   in refTo, before the lookup                            -> PRefLookup
     refto.insert   in refTo, before the insert                            -> PRefInsert
     ref.linked     after  ref.To = ...  of a nested message/enum          -> PLinked / PFail
     cache.linked   after  placeholder.To = ...  in Schema                 -> PReturn / PFailRoot

   The two-level map (packages, then Package.Schemas) is flattened to one map
   keyed by the full name; referencePackage has no hook of its own, so in forced
   schedules it is atomic with the lookup that follows it.

   A type universe is a finite graph: name -> the message/enum types its fields
   refer to, in field order (an enum is a node without references).  The reserved
   name [unsupported] stands for a field whose message type the reflector rejects
   (e.g. google.protobuf.Struct): the build of a type fails when it reaches such a
   field, the error propagates through every enclosing build, and Schema takes the
   refs registered by the failed call out of the map again (SchemaCache.registered).

   No proofs in this file. *)
From Coq Require Import List NArith Bool Arith.
Import ListNotations.

Definition name := N.
Definition tid := nat.
Definition cellid := nat.

(* ---- type universe ---------------------------------------------------- *)
Definition graph := list (name * list name).

Fixpoint refs (g : graph) (n : name) : list name :=
  match g with
  | [] => []
  | (m, rs) :: r => if N.eqb m n then rs else refs r n
  end.

(* a field of a type that cannot be reflected; not itself a type one can ask for *)
Definition unsupported : name := 0%N.

(* ---- shared state: RefSchema cells and the name -> cell map ------------ *)
(* c_to = None: placeholder, To == nil.  Some fs: linked, fs = the RefSchema
   cells the built schema's ref-typed fields point to, in field order. *)
Record cell := mkCell { c_name : name; c_to : option (list cellid) }.

(* reg = SchemaCache.registered: the names registered by the Schema call in progress,
   taken out of the map again if that call fails *)
(* failed: the cells whose To a failed build has set to a typed nil pointer
   (ref.To, err = build(...) with err != nil); the map no longer refers to them once
   Schema has returned *)
Record shared := mkShared {
  heap : list cell; cmap : list (name * cellid); reg : list name; failed : list cellid }.

Definition empty_shared : shared := mkShared [] [] [] [].

Fixpoint lookup (m : list (name * cellid)) (n : name) : option cellid :=
  match m with
  | [] => None
  | (k, c) :: r => if N.eqb k n then Some c else lookup r n
  end.

(* Schemas[n] = &RefSchema{...}: a new cell; a later binding shadows an earlier one *)
Definition alloc (sh : shared) (n : name) : shared * cellid :=
  let c := length (heap sh) in
  (mkShared (heap sh ++ [mkCell n None]) ((n, c) :: cmap sh) (reg sh ++ [n]) (failed sh), c).

Fixpoint set_nth {A} (l : list A) (i : nat) (x : A) : list A :=
  match l, i with
  | [], _ => []
  | _ :: r, O => x :: r
  | y :: r, S j => y :: set_nth r j x
  end.

(* ref.To = built *)
Definition set_to (sh : shared) (c : cellid) (fs : list cellid) : shared :=
  match nth_error (heap sh) c with
  | Some cl => mkShared (set_nth (heap sh) c (mkCell (c_name cl) (Some fs))) (cmap sh) (reg sh) (failed sh)
  | None => sh
  end.

(* sc.registered = sc.registered[:0] on entry, = nil on return *)
Definition reset_reg (sh : shared) : shared := mkShared (heap sh) (cmap sh) [] (failed sh).

(* ref.To = a typed nil pointer: the build of cell c failed *)
Definition fail_to (sh : shared) (c : cellid) : shared :=
  mkShared (heap sh) (cmap sh) (reg sh) (c :: failed sh).

(* delete(ref.Package.Schemas, ref.Schema) *)
Definition remove_key (m : list (name * cellid)) (n : name) : list (name * cellid) :=
  filter (fun e => negb (N.eqb (fst e) n)) m.

(* a failed call takes out of the map whatever is registered, then forgets the list *)
Definition rollback (sh : shared) : shared :=
  mkShared (heap sh) (fold_left remove_key (reg sh) (cmap sh)) [] (failed sh).

Definition cell_to (sh : shared) (c : cellid) : option (list cellid) :=
  match nth_error (heap sh) c with
  | Some cl => c_to cl
  | None => None
  end.

(* ---- what a caller can see of a returned schema ------------------------ *)
(* the unfolding of the schema to depth k: names, field structure, and which
   references are not linked (To == nil) at the moment of the observation *)
Inductive utree :=
| UNode (n : name) (kids : list utree)
| UCut (n : name)          (* linked, depth exhausted *)
| UUnlinked (n : name)     (* placeholder with To == nil *)
| UBad.

Fixpoint unfold (k : nat) (h : list cell) (c : cellid) : utree :=
  match nth_error h c with
  | None => UBad
  | Some cl =>
      match c_to cl with
      | None => UUnlinked (c_name cl)
      | Some fs =>
          match k with
          | O => UCut (c_name cl)
          | S k' => UNode (c_name cl) (map (unfold k' h) fs)
          end
      end
  end.

(* the same unfolding read off the type universe: what a lone call returns *)
Fixpoint gunfold (k : nat) (g : graph) (n : name) : utree :=
  match k with
  | O => UCut n
  | S k' => UNode n (map (gunfold k' g) (refs g n))
  end.

Inductive result :=
| RErr                     (* an error: the build failed (a field of an unsupported type) *)
| RUnlinked                (* the error "unlinked ref": the lookup found a placeholder with To == nil,
                              registered by a build that is still in progress (only without the lock) *)
| RNil                     (* no error, but no schema either: the lookup found the typed nil pointer
                              that a failed build had left in To (only without the lock) *)
| ROk (t : utree).

(* the end of Schema: on an error the registered refs are deleted; registered = nil *)
Definition finish_shared (res : result) (sh : shared) : shared :=
  match res with
  | RErr | RUnlinked => rollback sh
  | RNil | ROk _ => reset_reg sh
  end.

(* ---- thread-local continuation ---------------------------------------- *)
(* one frame per schema being built: the cell to link, the references still to
   process, the cells collected so far (reversed) *)
Record frame := mkFrame { f_cell : cellid; f_todo : list name; f_done : list cellid }.

Inductive pc :=
| PEnter                          (* at schema.enter (or: no call left) *)
| PWait                           (* inside sc.mu.Lock(), blocked: the lock was held when it arrived *)
| PLookup
| PInsert
| PRefLookup (stk : list frame)   (* refTo for the head of the top frame's todo *)
| PRefInsert (stk : list frame)
| PLinked (stk : list frame)      (* a nested schema was linked; stk = the frames above it *)
| PReturn (c : cellid)            (* the root placeholder c was linked *)
| PFail (stk : list frame)        (* a nested build failed; stk = the frames above it, which fail in turn *)
| PFailRoot.                      (* the build of the root failed *)

(* t_calls: the calls still to make, the current one first; t_results: reversed *)
Record thread := mkThread { t_pc : pc; t_calls : list name; t_results : list result }.

(* run the builder up to its next hook point: the top frame has a reference left
   (-> refto.lookup), or its next field is of an unsupported type (the build fails: its
   cell gets a typed nil, pop), or it is complete (link its cell, pop) *)
Definition advance (sh : shared) (stk : list frame) : shared * pc :=
  match stk with
  | [] => (sh, PEnter)
  | f :: rest =>
      match f_todo f with
      | m :: _ =>
          if N.eqb m unsupported then
            (fail_to sh (f_cell f), match rest with [] => PFailRoot | _ :: _ => PFail rest end)
          else (sh, PRefLookup stk)
      | [] =>
          let sh' := set_to sh (f_cell f) (rev (f_done f)) in
          match rest with
          | [] => (sh', PReturn (f_cell f))
          | _ :: _ => (sh', PLinked rest)
          end
      end
  end.

(* one step of a thread that is inside Schema(n); inr = the call returns *)
Definition lstep (k : nat) (g : graph) (n : name) (sh : shared) (p : pc) : shared * (pc + result) :=
  match p with
  | PLookup =>
      match lookup (cmap sh) n with
      | Some c =>
          match cell_to sh c with
          | Some _ => (sh, inr (ROk (unfold k (heap sh) c)))
          | None => (sh, inr (if existsb (Nat.eqb c) (failed sh) then RNil else RUnlinked))
          end
      | None => (sh, inl PInsert)
      end
  | PInsert =>
      let (sh1, c) := alloc sh n in
      let (sh2, p') := advance sh1 [mkFrame c (refs g n) []] in
      (sh2, inl p')
  | PRefLookup (f :: rest) =>
      match f_todo f with
      | m :: todo' =>
          match lookup (cmap sh) m with
          | Some c =>
              let (sh2, p') := advance sh (mkFrame (f_cell f) todo' (c :: f_done f) :: rest) in
              (sh2, inl p')
          | None => (sh, inl (PRefInsert (f :: rest)))
          end
      | [] => (sh, inl p)
      end
  | PRefInsert (f :: rest) =>
      match f_todo f with
      | m :: todo' =>
          let (sh1, c) := alloc sh m in
          let (sh2, p') :=
            advance sh1 (mkFrame c (refs g m) [] :: mkFrame (f_cell f) todo' (c :: f_done f) :: rest) in
          (sh2, inl p')
      | [] => (sh, inl p)
      end
  | PLinked stk =>
      let (sh2, p') := advance sh stk in (sh2, inl p')
  | PReturn c => (sh, inr (ROk (unfold k (heap sh) c)))
  | PFail (f :: rest) =>
      (* the enclosing build returns the error: its cell gets a typed nil too *)
      (fail_to sh (f_cell f), inl (match rest with [] => PFailRoot | _ :: _ => PFail rest end))
  | PFailRoot => (sh, inr RErr)
  | _ => (sh, inl p)
  end.

(* ---- the machine ------------------------------------------------------- *)
Inductive disc := Unguarded | Guarded.

Record state := mkState {
  s_sh : shared;
  s_lock : option tid;      (* holder of sc.mu *)
  s_waitq : list tid;       (* goroutines blocked in sc.mu.Lock(), in order of arrival: book-keeping
                               only — the machine below lets ANY of them (or a newcomer) take a
                               free lock; a hand-off policy (fifo_grant, ...) may consult it *)
  s_thr : list thread
}.

Definition set_thr (st : state) (t : tid) (th : thread) : state :=
  mkState (s_sh st) (s_lock st) (s_waitq st) (set_nth (s_thr st) t th).

Definition with_pc (th : thread) (p : pc) : thread := mkThread p (t_calls th) (t_results th).

(* the call returns res: record it, move to the next call *)
Definition finish_thread (th : thread) (res : result) : thread :=
  mkThread PEnter (tl (t_calls th)) (res :: t_results th).

(* sc.mu.Unlock(): the lock becomes free.  Nothing is handed over: which of the blocked
   goroutines (or which newcomer) gets the lock next is decided by the schedule alone, so
   the statements "for all schedules" cover every lock-grant order — first come first
   served, last come first served, barging by a running goroutine (Go's normal mode),
   direct hand-off (Go's starvation mode; see [hstep] below) *)
Definition release (st : state) : state := mkState (s_sh st) None (s_waitq st) (s_thr st).

Definition remove_tid (t : tid) (l : list tid) : list tid := filter (fun x => negb (Nat.eqb x t)) l.

Definition gstep (d : disc) (k : nat) (g : graph) (t : tid) (st : state) : state :=
  match nth_error (s_thr st) t with
  | None => st
  | Some th =>
      match t_calls th with
      | [] => st                                   (* all calls made *)
      | n :: _ =>
          match t_pc th with
          | PWait =>
              (* blocked in Lock(): it takes the lock if it finds it free when it is scheduled *)
              match d, s_lock st with
              | Guarded, None =>
                  mkState (reset_reg (s_sh st)) (Some t) (remove_tid t (s_waitq st))
                          (set_nth (s_thr st) t (with_pc th PLookup))
              | _, _ => st
              end
          | PEnter =>
              match d with
              | Unguarded => mkState (reset_reg (s_sh st)) (s_lock st) (s_waitq st) (set_nth (s_thr st) t (with_pc th PLookup))
              | Guarded =>
                  match s_lock st with
                  | None => mkState (reset_reg (s_sh st)) (Some t) (s_waitq st) (set_nth (s_thr st) t (with_pc th PLookup))
                  | Some _ => mkState (s_sh st) (s_lock st) (s_waitq st ++ [t]) (set_nth (s_thr st) t (with_pc th PWait))
                  end
              end
          | p =>
              let (sh', o) := lstep k g n (s_sh st) p in
              match o with
              | inl p' => mkState sh' (s_lock st) (s_waitq st) (set_nth (s_thr st) t (with_pc th p'))
              | inr res =>
                  let st' := mkState (finish_shared res sh') (s_lock st) (s_waitq st) (set_nth (s_thr st) t (finish_thread th res)) in
                  match d with
                  | Unguarded => st'
                  | Guarded => release st'
                  end
              end
          end
      end
  end.

Definition init_thread (calls : list name) : thread := mkThread PEnter calls [].

Definition init (calls : list (list name)) : state :=
  mkState empty_shared None [] (map init_thread calls).

Definition run_from (d : disc) (k : nat) (g : graph) (sched : list tid) (st : state) : state :=
  fold_left (fun s t => gstep d k g t s) sched st.

Definition run (d : disc) (k : nat) (g : graph) (calls : list (list name)) (sched : list tid) : state :=
  run_from d k g sched (init calls).

(* ---- a mutex that hands the lock over ---------------------------------------------- *)
(* A grant policy looks at the state right after an Unlock and names the goroutine that
   is given the lock at once (None: nobody, the lock stays free).  ANY function is a
   policy; [fifo_grant] is the one the forced schedules of the harness exhibit (the Go
   runtime wakes the longest-waiting goroutine, and every other goroutine is parked).
   One step of a machine with hand-off = one or two steps of the machine above. *)
Definition grant_policy := state -> option tid.

Definition fifo_grant : grant_policy := fun st => hd_error (s_waitq st).

Definition released_by (t : tid) (st st' : state) : bool :=
  match s_lock st, s_lock st' with
  | Some h, None => Nat.eqb h t
  | _, _ => false
  end.

(* the steps of the machine that one step of thread t stands for under the policy *)
Definition hsched (gr : grant_policy) (d : disc) (k : nat) (g : graph) (t : tid) (st : state) : list tid :=
  let st' := gstep d k g t st in
  if released_by t st st' then match gr st' with Some w => [t; w] | None => [t] end else [t].

Definition hstep (gr : grant_policy) (d : disc) (k : nat) (g : graph) (t : tid) (st : state) : state :=
  run_from d k g (hsched gr d k g t st) st.

Definition hrun_from (gr : grant_policy) (d : disc) (k : nat) (g : graph) (sched : list tid) (st : state) : state :=
  fold_left (fun s t => hstep gr d k g t s) sched st.

(* the schedule of the machine above that a schedule of the hand-off machine stands for *)
Fixpoint expand (gr : grant_policy) (d : disc) (k : nat) (g : graph) (sched : list tid) (st : state) : list tid :=
  match sched with
  | [] => []
  | t :: r => hsched gr d k g t st ++ expand gr d k g r (hstep gr d k g t st)
  end.

Definition hrun (gr : grant_policy) (d : disc) (k : nat) (g : graph) (calls : list (list name)) (sched : list tid) : state :=
  hrun_from gr d k g sched (init calls).

(* results of every thread, in call order *)
Definition results (st : state) : list (list result) :=
  map (fun th => rev (t_results th)) (s_thr st).

Definition all_done (st : state) : bool :=
  forallb (fun th => match t_calls th with [] => true | _ => false end) (s_thr st).

(* ---- which schema object a call hands to its caller -------------------------------- *)
(* the RefSchema cell whose To the returning call hands out (Go: the pointer `built.To` /
   `placeholder.To`; two calls return the same object iff they return the same cell's To) *)
Definition result_cell (n : name) (sh : shared) (p : pc) : option cellid :=
  match p with
  | PLookup => lookup (cmap sh) n
  | PReturn c => Some c
  | _ => None
  end.

(* (thread, type asked for, cell handed out) if this step of t completes a call with a schema *)
Definition gstep_ret (k : nat) (g : graph) (t : tid) (st : state) : option (tid * name * cellid) :=
  match nth_error (s_thr st) t with
  | None => None
  | Some th =>
      match t_calls th with
      | [] => None
      | n :: _ =>
          match t_pc th with
          | PEnter | PWait => None
          | p =>
              match snd (lstep k g n (s_sh st) p) with
              | inr (ROk _) =>
                  match result_cell n (s_sh st) p with
                  | Some c => Some (t, n, c)
                  | None => None
                  end
              | _ => None
              end
          end
      end
  end.

(* the objects handed out along a run, in order of completion *)
Fixpoint rets_from (d : disc) (k : nat) (g : graph) (sched : list tid) (st : state) : list (tid * name * cellid) :=
  match sched with
  | [] => []
  | t :: r =>
      match gstep_ret k g t st with Some x => [x] | None => [] end ++ rets_from d k g r (gstep d k g t st)
  end.

Definition rets d k g calls sched := rets_from d k g sched (init calls).

(* ---- the hook a thread is parked at, as the harness observes it --------- *)
Definition pc_label (th : thread) : N :=
  match t_calls th with
  | [] => 8%N
  | _ =>
      match t_pc th with
      | PEnter => 0 | PWait => 1 | PLookup => 2 | PInsert => 3
      | PRefLookup _ => 4 | PRefInsert _ => 5 | PLinked _ => 6 | PReturn _ => 7
      | PFail _ => 6 | PFailRoot => 7
      end%N
  end.

Definition label_of (st : state) (t : tid) : N :=
  match nth_error (s_thr st) t with
  | Some th => pc_label th
  | None => 9%N
  end.

(* the machine run with, after every step, the label of the thread that stepped *)
Fixpoint run_trace_from (d : disc) (k : nat) (g : graph) (sched : list tid) (st : state) : state * list N :=
  match sched with
  | [] => (st, [])
  | t :: r =>
      let st' := gstep d k g t st in
      let (st'', tr) := run_trace_from d k g r st' in
      (st'', label_of st' t :: tr)
  end.

Definition run_trace d k g calls sched := run_trace_from d k g sched (init calls).

(* the same for the hand-off machine: what the harness sees of a forced schedule *)
Fixpoint hrun_trace_from (gr : grant_policy) (d : disc) (k : nat) (g : graph) (sched : list tid) (st : state) : state * list N :=
  match sched with
  | [] => (st, [])
  | t :: r =>
      let st' := hstep gr d k g t st in
      let (st'', tr) := hrun_trace_from gr d k g r st' in
      (st'', label_of st' t :: tr)
  end.

Definition hrun_trace gr d k g calls sched := hrun_trace_from gr d k g sched (init calls).

(* ---- vocabulary of the statements about schedules ------------------------------------ *)
(* a thread at the entry of Schema, or queued on the lock: not inside the critical section *)
Definition outside (p : pc) : Prop := p = PEnter \/ p = PWait.

(* thread t has a call to make and is not blocked: it is not inside Lock(), or the lock is free *)
Definition can_step (st : state) (t : tid) : Prop :=
  exists th n rest, nth_error (s_thr st) t = Some th /\ t_calls th = n :: rest /\
                    (t_pc th <> PWait \/ s_lock st = None).

(* THE scheduler assumption of the completion theorem — weak fairness: the schedule is a
   sequence of rounds, and a round schedules every thread at least once (in any order, any
   number of times).  Nothing is assumed about who gets a free lock. *)
Definition covers (nt : nat) (round : list tid) : Prop := forall t, t < nt -> In t round.
Definition weakly_fair (nt : nat) (rounds : list (list tid)) : Prop := Forall (covers nt) rounds.

(* the cost of registering a type: one step to insert it, two per reference, two to link/return *)
Definition node_cost (g : graph) (n : name) : nat := 2 * length (refs g n) + 3.

(* every name the machine can ever register *)
Definition gnames (g : graph) : list name := flat_map (fun e => fst e :: snd e) g.
Definition universe (g : graph) (calls : list (list name)) : list name :=
  nodup N.eq_dec (concat calls ++ gnames g).

(* the cost of registering the whole universe once *)
Definition universe_cost (g : graph) (calls : list (list name)) : nat :=
  list_sum (map (node_cost g) (universe g calls)).

(* the number of fair rounds that suffices: a failed call may have registered (and then
   taken out again) the whole universe, so every call is charged for it *)
Definition fuel_bound (g : graph) (calls : list (list name)) : nat :=
  universe_cost g calls + (4 + universe_cost g calls) * length (concat calls).

(* ---- what a call returns when it is run alone on a fresh cache --------------------- *)
Definition result_solo (k : nat) (g : graph) (n : name) : result :=
  match results (run Guarded k g [[n]] (repeat 0 (fuel_bound g [[n]]))) with
  | [r] :: _ => r
  | _ => RErr
  end.

(* the same, characterised by the type universe: m is reachable from n through fields *)
Inductive reach (g : graph) (n : name) : name -> Prop :=
| reach_refl : reach g n n
| reach_step : forall m m', reach g n m -> In m' (refs g m) -> reach g n m'.

(* n is reflectable: no type reachable from it has a field of an unsupported type *)
Definition good (g : graph) (n : name) : Prop := ~ reach g n unsupported.

Definition char (k : nat) (g : graph) (n : name) (res : result) : Prop :=
  (res = ROk (gunfold k g n) /\ good g n) \/ (res = RErr /\ ~ good g n).

(* the calls are on types, not on the marker *)
Definition calls_ok (calls : list (list name)) : Prop :=
  forall t n, In n (nth t calls []) -> n <> unsupported.

(* ConcSites.v — which locking discipline the Go code follows, computed from the
   tables that harness/cmd/gen_conc regenerates from /repo on every run
   (coq/gen/ConcGen.v), and the access sequences the model of Conc.v assumes.
   No proofs in this file; the agreement lemmas are in proofs/ConcProofs.v. *)
From Coq Require Import String List Bool.
From J5V.model Require Import Conc ConcKey.
From J5V.gen Require ConcGen.
Import ListNotations.
Local Open Scope string_scope.

Definition fn_table := list (string * bool * list string).

Definition is_lock_token (t : string) : bool :=
  existsb (String.eqb t)
    ["lock"; "unlock"; "defer-lock"; "defer-unlock"; "rlock"; "runlock"; "defer-rlock"; "defer-runlock"; "trylock"; "defer-trylock"].

Definition is_shared_token (t : string) : bool :=
  existsb (String.eqb t)
    ["read:packages"; "write:packages"; "read:Schemas"; "write:Schemas"; "read:Packages"; "write:Packages"; "read:To"; "write:To";
     "delete:packages"; "delete:Schemas"; "delete:Packages"]
  || String.prefix "setfield:" t.

Fixpoint find_fn (tab : fn_table) (name : string) : option (bool * list string) :=
  match tab with
  | [] => None
  | (n, e, toks) :: r => if String.eqb n name then Some (e, toks) else find_fn r name
  end.

Definition callee (t : string) : option string :=
  if String.prefix "call:" t then Some (String.substring 5 (String.length t - 5) t) else None.

(* does the function touch shared state, itself or through the methods of the table it
   calls?  The search follows call: tokens through the table with a visited list; fuel is a
   termination device only: when it runs out with a call still to follow the answer is
   the explicit [RsOutOfFuel], never "no" (site_guarded treats it as NOT guarded, and
   reach_fuel_ok — proved over the regenerated table on every run — excludes it) *)
Inductive reach_ans := RsYes | RsNo | RsOutOfFuel.

Definition reach_join (a b : reach_ans) : reach_ans :=
  match a, b with
  | RsYes, _ | _, RsYes => RsYes
  | RsOutOfFuel, _ | _, RsOutOfFuel => RsOutOfFuel
  | RsNo, RsNo => RsNo
  end.

Definition in_strs (x : string) (l : list string) : bool := existsb (String.eqb x) l.

Fixpoint reaches_shared (fuel : nat) (tab : fn_table) (seen : list string) (toks : list string) : reach_ans :=
  if existsb is_shared_token toks then RsYes else
  fold_left
    (fun acc t =>
       match callee t with
       | Some n =>
           if in_strs n seen then acc
           else match find_fn tab n with
                | Some (_, toks') =>
                    match fuel with
                    | O => reach_join acc RsOutOfFuel
                    | S f => reach_join acc (reaches_shared f tab (n :: seen) toks')
                    end
                | None => acc          (* not a function of the table: see the census of ConcState.v *)
                end
       | None => acc
       end) toks RsNo.

(* the fuel the checks run with: one unit per function of the table *)
Definition reach_fuel (tab : fn_table) : nat := length tab.

Definition reach_out_of_fuel (a : reach_ans) : bool := match a with RsOutOfFuel => true | _ => false end.

(* no function of the table exhausts the fuel *)
Definition reach_fuel_ok (tab : fn_table) : bool :=
  forallb (fun f => negb (reach_out_of_fuel (reaches_shared (reach_fuel tab) tab [fst (fst f)] (snd f)))) tab.

(* sc.mu.Lock(); defer sc.mu.Unlock() are the first statements (after the entry
   hook), and the lock is not touched again: the whole body is one critical section *)
Definition entry_locked (toks : list string) : bool :=
  match toks with
  | "hook:schema.enter" :: "lock" :: "defer-unlock" :: rest => negb (existsb is_lock_token rest)
  | "lock" :: "defer-unlock" :: rest => negb (existsb is_lock_token rest)
  | _ => false
  end.

(* the discipline of the model's [Guarded]: an exported method that reaches shared
   state is one critical section; an unexported method (reachable only from inside a
   build, which an exported method started) never touches the lock (no self-deadlock
   on re-entry) *)
Definition site_guarded (tab : fn_table) (f : string * bool * list string) : bool :=
  match f with
  | (n, true, toks) =>
      match reaches_shared (reach_fuel tab) tab [n] toks with
      | RsNo => true
      | RsYes => entry_locked toks
      | RsOutOfFuel => false
      end
  | (_, false, toks) => negb (existsb is_lock_token toks)
  end.

Definition cache_has_mutex : bool := String.eqb ConcGen.cache_mutex "mu:sync.Mutex".

(* functions outside schema_cache.go never touch the lock either *)
Definition no_lock_tokens (tab : fn_table) : bool :=
  forallb (fun f => negb (existsb is_lock_token (snd f))) tab.

Definition code_guarded : bool :=
  cache_has_mutex &&
  reach_fuel_ok ConcGen.cache_methods &&
  forallb (site_guarded ConcGen.cache_methods) ConcGen.cache_methods &&
  no_lock_tokens ConcGen.placeholder_functions.

(* the discipline under which the correspondence evaluates the model *)
Definition code_disc : disc := if code_guarded then Guarded else Unguarded.

(* ---- a cache hit that was registered for another descriptor (ConcKey.v) ---------------- *)
(* The cache is keyed by (package, descriptor path joined with "_"), which two descriptors can share.
   Since /repo 0e6056c a RefSchema remembers the descriptor it was registered for (field source) and
   RefSchema.claim(descriptor) fails on another one.  HitCheck is chosen only if claim compares the
   field (read:source), the lookup of Schema calls it before it looks at To (schemaLocked), and the
   one function through which every field builder finds or creates its ref calls it too
   (newRefPlaceholder; refTo itself is below it and only touches the map). *)
Definition has_token (tab : fn_table) (fname tok : string) : bool :=
  existsb (fun f => String.eqb (fst (fst f)) fname && existsb (String.eqb tok) (snd f)) tab.

(* "call:claim" stands between the map lookup and the first look at To *)
Fixpoint claim_before_to (seen_lookup : bool) (toks : list string) : bool :=
  match toks with
  | [] => false
  | t :: r =>
      if String.eqb t "read:Schemas" then claim_before_to true r
      else if String.eqb t "call:claim" then seen_lookup
      else if String.eqb t "read:To" then false
      else claim_before_to seen_lookup r
  end.

Definition code_checks_source : bool :=
  existsb (String.eqb "read:source") ConcGen.claim_method &&
  match find_fn ConcGen.cache_methods "schemaLocked" with
  | Some (_, toks) => claim_before_to false toks
  | None => false
  end &&
  has_token ConcGen.placeholder_functions "newRefPlaceholder" "call:claim".

Definition code_hitpol : hitpol := if code_checks_source then HitCheck else HitServe.

(* ---- the access sequences the step function of Conc.v mirrors ------------- *)
(* What is compared with the regenerated tables, and what is not (conc3).

   Compared token by token, in source order (= the ORDER of cache operations that one step of
   the machine of Conc.v stands for): hook points, lock operations, lookups in / inserts into /
   deletes from the maps (read:/write:/delete: packages, Schemas, Packages), writes of
   RefSchema.To (write:To: the publication of a built schema), assignments to fields of the
   cache (setfield:), and calls of other functions of the tables (call:).

   Projected away: read:To, a READ of RefSchema.To.  Where such a read stands cannot matter
   for the property as long as the function it stands in runs only with sc.mu held:
     - no race: To is written, on the path of a codec call, by locked functions only
       (census: lf_writes_nothing; its writers among the locked functions are the four
       functions of the tables, lk_writes_to_fresh), so the read is ordered with every write
       by the mutex;
     - no dependence on the schedule: under the lock the value read is that of a cell
       linked by a completed call (immutable from then on, write_once) or of a cell of the
       lock holder's own build — a function of the state the critical section started in
       (ginv: every entry is linked when the lock is free) and of the holder's own steps.
   The side condition is NOT assumed: [projected_reads_ok] (ConcState.v, part of census_ok,
   over the regenerated census) demands that every function of the tables with a read:To
   token is not among the functions a codec call can run without entering
   SchemaCache.Schema, that an exported one is one critical section (entry_locked on the RAW
   tokens), and code_guarded / schema_body_ok keep looking at the raw, unprojected tokens.
   What the projection buys: an extra (or a dropped) look at To inside an already locked
   function — such as the type check `ref.To.( *EnumSchema )` that /repo 32db692 added to
   buildEnumFieldSchema — no longer breaks an agreement lemma; a moved Unlock, a new map
   access, a new writer, a new function on the path, a changed order of hooks still do. *)
Definition is_projected_read (t : string) : bool := String.eqb t "read:To".

Definition has_projected_read (toks : list string) : bool := existsb is_projected_read toks.

Definition project (toks : list string) : list string :=
  filter (fun t => negb (is_projected_read t)) toks.

Definition project_tab (tab : fn_table) : fn_table :=
  map (fun f => (fst f, project (snd f))) tab.

Definition expected_cache_methods : fn_table := [
  (* take the lock; registered = registered[:0]; build; on error delete the registered refs; registered = nil *)
  ("Schema", true, ["hook:schema.enter"; "lock"; "defer-unlock"; "setfield:registered"; "call:schemaLocked";
                    "delete:Schemas"; "setfield:registered"]);
  ("refTo", false, ["call:referencePackage"; "hook:refto.lookup"; "read:Schemas"; "hook:refto.insert"; "write:Schemas";
                    "setfield:registered"]);
  ("referencePackage", false, ["read:packages"; "write:packages"]);
  (* lookup (hit: the ref must have been registered for this descriptor — RefSchema.claim, else the call
     fails —, then To is looked at — nil: "unlinked ref", typed nil: no schema; both only without the
     lock — and returned); insert the placeholder; build; To = result (or the typed nil of a failed
     build); To is looked at again and returned *)
  ("schemaLocked", false, ["call:referencePackage"; "hook:cache.lookup"; "read:Schemas"; "call:claim";
                           "hook:cache.insert"; "write:Schemas"; "setfield:registered"; "write:To"; "write:To";
                           "hook:cache.linked"])
].

(* the placeholder sites of the on-demand builder (SchemaSetFromFiles builds a private SchemaSet).
   buildEnumFieldSchema since /repo 32db692: when newRefPlaceholder found the ref (didExist), To is
   looked at (`ref.To.( *EnumSchema )`, an error if it is something else) — in the machine: the hit
   branch of the PRefLookup step, for a name without references; there is no hook point between
   refto.lookup and this read, so it belongs to that step, inside the critical section
   (proofs/ConcLeafProofs.v: the cell found there is linked in every state of the machine).
   buildMessageFieldSchema since /repo d286176: the mirror guard in its didExist branch
   (`ref.To.( *EnumSchema )` must fail; To == nil — a type being built further up the holder's own
   stack — passes) — the hit branch of PRefLookup for any name; it landed while this projection was
   being tested and needed no table update *)
Definition expected_placeholder_functions : fn_table := [
  ("SchemaSetFromFiles", true, ["call:newRefPlaceholder"; "write:To"]);
  ("buildEnumFieldSchema", false, ["call:newRefPlaceholder"; "write:To"; "hook:ref.linked"]);
  ("buildMessageFieldSchema", false, ["call:newRefPlaceholder"; "write:To"; "write:To"; "hook:ref.linked"]);
  ("messageProperties", false, ["call:newRefPlaceholder"; "write:To"; "hook:ref.linked"]);
  ("newRefPlaceholder", false, ["call:refTo"; "call:claim"])
].

(* the functions of internal/codec that obtain the root schema through the reflector *)
Definition expected_codec_entry_points : list string :=
  ["decoder.go:decode"; "encoder.go:encode"; "query.go:decodeQuery"].

(* J5sContract.v — the contract of property C02 as a declarative specification, written from
   the property text and the README (scalar table, inline-type naming, enum numbering,
   service / topic layout), not from the compiler: what a descriptor must look like for a given
   declaration.  Definitions only (Prop-valued); the refinement proofs are in
   proofs/J5sProofs.v. *)
From Coq Require Import String List NArith Bool.
From J5V.lib Require Import Outcome.
From J5V.model Require Import J5sAst Desc J5sWalk J5sLink.
Import ListNotations.
Local Open Scope N_scope.

(* README "Scalar Types": J5 type -> proto type *)
Definition scalar_ptype (s : scalar) : ptype :=
  match s with
  | SString => TString | SBool => TBool | SBytes => TBytes
  | SInt I32 => TInt32 | SInt I64 => TInt64 | SInt U32 => TUint32 | SInt U64 => TUint64
  | SFloat F32 => TFloat | SFloat F64 => TDouble
  | STimestamp | SDate | SDecimal | SAny => TMessage
  | SKey _ => TString
  end.
Definition scalar_tname (s : scalar) : str :=
  match s with
  | STimestamp => b ".google.protobuf.Timestamp"
  | SDate => b ".j5.types.date.v1.Date"
  | SDecimal => b ".j5.types.decimal.v1.Decimal"
  | SAny => b ".j5.types.any.v1.Any"
  | _ => []
  end.

(* the element type of a field: the item type of an array or map, else the field itself *)
Definition elem (f : field) : field := match f with FArray it | FMap it => it | _ => f end.
Definition is_repeated (f : field) : bool := match f with FArray _ | FMap _ => true | _ => false end.
Definition is_map (f : field) : bool := match f with FMap _ => true | _ => false end.

Definition item_ptype (f : field) : ptype :=
  match f with
  | FScalar s => scalar_ptype s
  | FEnumRef _ | FEnumInline _ => TEnum
  | _ => TMessage
  end.
(* declared proto type of a property: a map is a repeated entry message *)
Definition decl_ptype (f : field) : ptype :=
  if is_map f then TMessage else item_ptype (elem f).


(* ------------------------------------------------------------------ references and imports *)
(* README "Packages and Imports": an import names a whole package and brings it into scope by
   the package name without the version ('bar' for foo.bar.v1), by the full package name, or by
   the alias; a file import ("dir/file.proto") brings in the package of that directory under
   its full name.  A reference without package, or with the file's own package, is local. *)
Definition last_but_one (p : str) : option str :=
  match rev (split 46 p) with _ :: wv :: _ => Some wv | _ => None end.

Definition import_pkg (i : import) : str :=
  if existsb (fun c => c =? 47) (i_path i) then package_from_filename (i_path i) else i_path i.

Definition import_key (i : import) (spec : str) : Prop :=
  if existsb (fun c => c =? 47) (i_path i) then spec = package_from_filename (i_path i)
  else match i_alias i with
       | _ :: _ => spec = i_alias i
       | [] => spec = i_path i \/ Some spec = last_but_one (i_path i)
       end.

Inductive denotes (this : str) (imports : list import) (spec full : str) : Prop :=
| den_own : (spec = [] \/ spec = this) -> full = this -> denotes this imports spec full
| den_import : forall i, In i imports -> import_key i spec -> full = import_pkg i ->
    denotes this imports spec full.

(* every reference of a run of properties, at any depth *)
Fixpoint refs_of_field (f : field) {struct f} : list ref :=
  match f with
  | FObjRef r | FOneofRef r | FEnumRef r => [r]
  | FObjInline _ ps | FOneofInline _ ps => refs_of_props ps
  | FArray it | FMap it => refs_of_field it
  | _ => []
  end
with refs_of_props (ps : props) {struct ps} : list ref :=
  match ps with
  | PNil => []
  | PCons p r => refs_of_property p ++ refs_of_props r
  end
with refs_of_property (p : property) {struct p} : list ref :=
  match p with Property _ _ _ f => refs_of_field f end.

(* every reference of a declaration: objects / oneofs with their nested declarations, the
   requests and responses of a service, the messages of a topic (implicit leading fields
   included) *)
Fixpoint refs_of_nested (n : nested) {struct n} : list ref :=
  match n with
  | NObject _ ps subs | NOneof _ ps subs => refs_of_props ps ++ refs_of_nesteds subs
  | NEnum _ => []
  end
with refs_of_nesteds (ns : nesteds) {struct ns} : list ref :=
  match ns with
  | NNil => []
  | NCons n r => refs_of_nested n ++ refs_of_nesteds r
  end.

Definition refs_of_method (m : method) : list ref :=
  refs_of_props (m_request m) ++ match m_response m with Some ps => refs_of_props ps | None => [] end.
Definition refs_of_tmsgs (virt : props) (l : list tmsg) : list ref :=
  flat_map (fun t => refs_of_props (papp virt (tm_fields t))) l.
Definition refs_of_topic (t : topic) : list ref :=
  match t with
  | TPublish _ msgs => refs_of_tmsgs PNil msgs
  | TReqRes _ req reply => refs_of_tmsgs virt_request req ++ refs_of_tmsgs virt_request reply
  | TUpsert _ _ msg => refs_of_tmsgs virt_upsert [msg]
  | TEvent _ _ msg => refs_of_tmsgs PNil [msg]
  end.

(* the references of the declarations that go to the main / .service / .topic file *)
Definition main_refs (e : element) : list ref :=
  match e with
  | EObject nm ps subs => refs_of_nested (NObject nm ps subs)
  | EOneof nm ps subs => refs_of_nested (NOneof nm ps subs)
  | _ => []
  end.
Definition service_refs (e : element) : list ref :=
  match e with EService s => flat_map refs_of_method (sv_methods s) | _ => [] end.
Definition topic_refs (e : element) : list ref :=
  match e with ETopic t => refs_of_topic t | _ => [] end.

Section Contract.
Variables snake camel screaming : str -> str.
(* the contract as the property text has it (before fix a65e1f2 it carried a switch [lenient]
   that waived the enum clause for enums whose first option ends in UNSPECIFIED under a name of
   its own: the compiler took that option as the zero value) *)

(* README "Inline Types": the inline type takes the name of the field (CamelCase) unless the
   name is overridden *)
Definition inline_type_name (pname given : str) : str :=
  match given with [] => camel pname | _ => given end.

(* protoc's map-entry naming: CamelCase of the proto field name + "Entry" *)
Definition entry_name (pname : str) : str :=
  (fix go (s : str) (up : bool) : str :=
     match s with
     | [] => []
     | c :: r => if c =? 95 then go r true
                 else (if up && (97 <=? c) && (c <=? 122) then c - 32 else c) :: go r false
     end) (snake pname) true ++ b "Entry".

(* ------------------------------------------------------------------ one field *)
(* name, JSON name, number, proto type, cardinality, optionality, oneof membership *)
Definition field_decl_ok (inoneof : bool) (num : N) (p : property) (df : dfield) : Prop :=
  f_name df = snake (prop_name p) /\
  f_json df = prop_name p /\
  f_num df = num /\
  f_type df = decl_ptype (prop_field p) /\
  f_label df = (if is_repeated (prop_field p) then LRepeated else LOptional) /\
  (* optionality: proto3_optional exactly for the properties declared optional; cardinality
     "repeated" has no presence, so an optional array / map is a plain repeated field *)
  f_opt3 df = (prop_optional p && negb (is_repeated (prop_field p)) && negb inoneof) /\
  f_oneof df = inoneof.

(* the fields of a message are exactly the declared properties, in order, numbered from
   [first]: the i-th declared property is field number first + i *)
Definition fields_ok (inoneof : bool) (first : N) (ps : list property) (fs : list dfield) : Prop :=
  length fs = length ps /\
  forall i p, nth_error ps i = Some p ->
    exists df, nth_error fs i = Some df /\ field_decl_ok inoneof (first + N.of_nat i) p df.

(* ------------------------------------------------------------------ enums *)
(* the declared options numbered in order after the implicit <PREFIX>UNSPECIFIED = 0; the
   zero value may be spelled out as the first option (README: "explicitly included (as
   UNSPECIFIED)"; TestEnumFlexibility: also with the prefix on) *)
Definition enum_pfx (name : str) (e : enum) : str :=
  match e_prefix e with [] => screaming name ++ b "_" | p => p end.
Definition opt_value_name (pfx o : str) : str := if has_prefix pfx o then o else pfx ++ o.
(* the option spells the zero value: UNSPECIFIED or <PREFIX>UNSPECIFIED *)
Definition zero_spelled (pfx o : str) : bool := str_eqb (opt_value_name pfx o) (pfx ++ b "UNSPECIFIED").
Definition strict_opts (name : str) (e : enum) : list str :=
  match e_opts e with
  | o :: r => if zero_spelled (enum_pfx name e) o then r else o :: r
  | [] => []
  end.
Definition enum_ok (name : str) (e : enum) (de : denum) : Prop :=
  en_name de = name /\
  nth_error (en_vals de) 0 = Some (enum_pfx name e ++ b "UNSPECIFIED", 0) /\
  length (en_vals de) = S (length (strict_opts name e)) /\
  forall i o, nth_error (strict_opts name e) i = Some o ->
    nth_error (en_vals de) (S i) = Some (opt_value_name (enum_pfx name e) o, N.of_nat (S i)).

(* the names of the nested messages / enums a list of properties gives rise to, in order:
   nothing else may be nested (exactness) *)
Definition item_msg_names (pname : str) (f : field) : list str :=
  match f with
  | FObjInline nm _ | FOneofInline nm _ => [inline_type_name pname nm]
  | _ => []
  end.
Definition item_enum_names (pname : str) (f : field) : list str :=
  match f with
  | FEnumInline e => [inline_type_name pname (e_name e)]
  | _ => []
  end.
Definition prop_msg_names (p : property) : list str :=
  match p with
  | Property n _ _ f =>
      item_msg_names n (elem f) ++ (if is_map f then [entry_name n] else [])
  end.
Definition prop_enum_names (p : property) : list str :=
  match p with Property n _ _ f => item_enum_names n (elem f) end.

(* ------------------------------------------------------------------ nesting *)
(* Inline types are nested inside the message of the field, under the default or overridden
   name, and satisfy the contract themselves (to any depth).  [msgs]/[enums] are the nested
   declarations of the message that holds the properties. *)
Fixpoint inline_ok (pname : str) (f : field) (msgs : list dmsg) (enums : list denum) {struct f} : Prop :=
  match f with
  | FObjInline nm ps =>
      exists m, In m msgs /\ dm_name m = inline_type_name pname nm /\ dm_kind m = MObject /\
                fields_ok false 1 (props_list ps) (dm_fields m) /\
                props_inline_ok ps (dm_msgs m) (dm_enums m) /\
                map dm_name (dm_msgs m) = flat_map prop_msg_names (props_list ps) /\
                map en_name (dm_enums m) = flat_map prop_enum_names (props_list ps)
  | FOneofInline nm ps =>
      exists m, In m msgs /\ dm_name m = inline_type_name pname nm /\ dm_kind m = MOneof /\
                fields_ok true 1 (props_list ps) (dm_fields m) /\
                props_inline_ok ps (dm_msgs m) (dm_enums m) /\
                map dm_name (dm_msgs m) = flat_map prop_msg_names (props_list ps) /\
                map en_name (dm_enums m) = flat_map prop_enum_names (props_list ps)
  | FEnumInline e =>
      exists de, In de enums /\ enum_ok (inline_type_name pname (e_name e)) e de
  | FArray it | FMap it => inline_ok pname it msgs enums
  | _ => True
  end
with props_inline_ok (ps : props) (msgs : list dmsg) (enums : list denum) {struct ps} : Prop :=
  match ps with
  | PNil => True
  | PCons p r => property_inline_ok p msgs enums /\ props_inline_ok r msgs enums
  end
with property_inline_ok (p : property) (msgs : list dmsg) (enums : list denum) {struct p} : Prop :=
  match p with
  | Property n _ _ f =>
      inline_ok n f msgs enums /\
      match f with
      | FMap it =>
          exists m, In m msgs /\ dm_name m = entry_name n /\ dm_kind m = MMapEntry /\
                    exists k v, dm_fields m = [k; v] /\
                      f_name k = b "key" /\ f_num k = 1 /\ f_type k = TString /\
                      f_name v = b "value" /\ f_num v = 2 /\ f_type v = item_ptype it
      | _ => True
      end
  end.

Definition nested_msg_name (n : nested) : list str :=
  match n with NObject nm _ _ | NOneof nm _ _ => [nm] | NEnum _ => [] end.
Definition nested_enum_name (n : nested) : list str :=
  match n with NEnum e => [e_name e] | _ => [] end.

(* a declared object / oneof [name] with properties [ps] (the first [nvirt] of them implicit
   leading fields) and explicitly nested schemas [subs] *)
Fixpoint nested_ok (n : nested) (msgs : list dmsg) (enums : list denum) {struct n} : Prop :=
  match n with
  | NObject nm ps subs =>
      exists m, In m msgs /\ dm_name m = nm /\ dm_kind m = MObject /\
                fields_ok false 1 (props_list ps) (dm_fields m) /\
                props_inline_ok ps (dm_msgs m) (dm_enums m) /\
                nesteds_ok subs (dm_msgs m) (dm_enums m) /\
                map dm_name (dm_msgs m) =
                  flat_map prop_msg_names (props_list ps) ++ flat_map nested_msg_name (nesteds_list subs) /\
                map en_name (dm_enums m) =
                  flat_map prop_enum_names (props_list ps) ++ flat_map nested_enum_name (nesteds_list subs)
  | NOneof nm ps subs =>
      exists m, In m msgs /\ dm_name m = nm /\ dm_kind m = MOneof /\
                fields_ok true 1 (props_list ps) (dm_fields m) /\
                props_inline_ok ps (dm_msgs m) (dm_enums m) /\
                nesteds_ok subs (dm_msgs m) (dm_enums m) /\
                map dm_name (dm_msgs m) =
                  flat_map prop_msg_names (props_list ps) ++ flat_map nested_msg_name (nesteds_list subs) /\
                map en_name (dm_enums m) =
                  flat_map prop_enum_names (props_list ps) ++ flat_map nested_enum_name (nesteds_list subs)
  | NEnum e => exists de, In de enums /\ enum_ok (e_name e) e de
  end
with nesteds_ok (ns : nesteds) (msgs : list dmsg) (enums : list denum) {struct ns} : Prop :=
  match ns with
  | NNil => True
  | NCons n r => nested_ok n msgs enums /\ nesteds_ok r msgs enums
  end.

(* ------------------------------------------------------------------ services and topics *)
(* README "Services": service Foo becomes FooService in the .service sub-package; every method
   is rpc <Method>(<Method>Request) returns (<Method>Response) - google.api.HttpBody when no
   response is declared - with the declared HTTP verb and the path: base path joined with the
   method path, every segment ":name" rewritten to "{snake_name}"; body "*" except for GET.
   (Type names as the converter writes them; the link step qualifies them with the package.) *)
Definition rewrite_segment (seg : str) : str :=
  match seg with
  | c :: nm => if c =? 58 then [123] ++ snake nm ++ [125] else seg
  | [] => seg
  end.
Definition declared_path (base : option str) (m : method) : str :=
  join slash (map rewrite_segment
    (split 47 (match base with Some bp => path_join bp (m_path m) | None => m_path m end))).

Definition method_ok (base : option str) (m : method) (dm : dmethod) : Prop :=
  me_name dm = m_name m /\
  me_in dm = m_name m ++ b "Request" /\
  me_out dm = (match m_response m with Some _ => m_name m ++ b "Response" | None => b "google.api.HttpBody" end) /\
  exists h, me_http dm = Some h /\ h_verb h = m_verb m /\ h_path h = declared_path base m /\
            h_body h = (match m_verb m with VGet => [] | _ => [42] end).

(* a root-level message with implicit leading fields [virt] followed by the declared ones *)
Definition virtual_ok (name : str) (virt decl : props) (m : dmsg) : Prop :=
  dm_name m = name /\ dm_kind m = MObject /\
  fields_ok false 1 (props_list (papp virt decl)) (dm_fields m) /\
  props_inline_ok (papp virt decl) (dm_msgs m) (dm_enums m) /\
  map dm_name (dm_msgs m) = flat_map prop_msg_names (props_list (papp virt decl)) /\
  map en_name (dm_enums m) = flat_map prop_enum_names (props_list (papp virt decl)).

Definition method_msgs_ok (m : method) (ms : list dmsg) : Prop :=
  match m_response m, ms with
  | Some rs, [rq; rp] => virtual_ok (m_name m ++ b "Request") PNil (m_request m) rq /\
                         virtual_ok (m_name m ++ b "Response") PNil rs rp
  | None, [rq] => virtual_ok (m_name m ++ b "Request") PNil (m_request m) rq
  | _, _ => False
  end.

(* README "Topics": messages <Name>Message, rpc <Name>(<Name>Message) returns (Empty), service
   <Topic>Topic with the messaging role and topic_name = snake(topic); request/reply topics and
   upsert topics get the implicit leading metadata field, numbered 1 *)
Definition tmsg_name (tname : str) (t : tmsg) : str :=
  match tm_name t with Some n => n | None => tname end.
Definition topic_method_ok (tname : str) (t : tmsg) (dm : dmethod) : Prop :=
  me_name dm = tmsg_name tname t /\ me_in dm = tmsg_name tname t ++ b "Message" /\
  me_out dm = b ".google.protobuf.Empty" /\ me_http dm = None.
Definition topic_service_ok (tname topic_name : str) (rl : role) (virt : props) (l : list tmsg)
           (ms : list dmsg) (ds : dservice) : Prop :=
  ds_name ds = camel tname ++ b "Topic" /\ ds_topic ds = Some (topic_name, rl) /\
  Forall2 (topic_method_ok tname) l (ds_methods ds) /\
  Forall2 (fun t m => virtual_ok (tmsg_name tname t ++ b "Message") virt (tm_fields t) m) l ms.

(* ------------------------------------------------------------------ files *)
Definition element_msg_name (e : element) : list str :=
  match e with EObject nm _ _ | EOneof nm _ _ => [nm] | _ => [] end.
Definition element_enum_name (e : element) : list str :=
  match e with EEnum en => [e_name en] | _ => [] end.

Definition element_ok (e : element) (msgs : list dmsg) (enums : list denum) : Prop :=
  match e with
  | EObject nm ps subs => nested_ok (NObject nm ps subs) msgs enums
  | EOneof nm ps subs => nested_ok (NOneof nm ps subs) msgs enums
  | EEnum en => nested_ok (NEnum en) msgs enums
  | EService _ | ETopic _ => True
  end.

(* the file generated for one source file: <path>.proto in the package of the source, holding
   exactly the declared objects, oneofs and enums, in declaration order *)
Definition main_file_ok (f : jfile) (df : dfile) : Prop :=
  fl_path df = main_proto_path f /\
  fl_pkg df = j5s_pkg f /\
  fl_svcs df = [] /\
  map dm_name (fl_msgs df) = flat_map element_msg_name (jf_elements f) /\
  map en_name (fl_enums df) = flat_map element_enum_name (jf_elements f) /\
  forall e, In e (jf_elements f) -> element_ok e (fl_msgs df) (fl_enums df).

Definition package_contract (bd : bundle) (pkg : str) (D : list dfile) : Prop :=
  forall f, In (BJ f) bd -> j5s_pkg f = pkg ->
    exists df, In df D /\ main_file_ok f df.

(* ------------------------------------------------------------------ the sub-package files, linked *)
(* The services of a source file go to <dir>/service/<base>.p.j5s.proto in the package
   <pkg>.service, the topics to <dir>/topic/... in <pkg>.topic.  After the link step the request
   / response / message types of a method are named with the sub-package. *)
Definition elem_services (e : element) : list service := match e with EService s => [s] | _ => [] end.
Definition elem_topics (e : element) : list topic := match e with ETopic t => [t] | _ => [] end.
Definition file_services (f : jfile) : list service := flat_map elem_services (jf_elements f).
Definition file_topics (f : jfile) : list topic := flat_map elem_topics (jf_elements f).

Inductive zip3 {A B C} (R : A -> B -> C -> Prop) : list A -> list B -> list C -> Prop :=
| z3_nil : zip3 R [] [] []
| z3_cons : forall a c d la lc ld, R a c d -> zip3 R la lc ld -> zip3 R (a :: la) (c :: lc) (d :: ld).

Definition in_pkg (spkg n : str) : str := dot ++ spkg ++ dot ++ n.

Definition method_linked_ok (spkg : str) (base : option str) (m : method) (dm : dmethod) : Prop :=
  me_name dm = m_name m /\
  me_in dm = in_pkg spkg (m_name m ++ b "Request") /\
  me_out dm = (match m_response m with
               | Some _ => in_pkg spkg (m_name m ++ b "Response")
               | None => b ".google.api.HttpBody"
               end) /\
  exists h, me_http dm = Some h /\ h_verb h = m_verb m /\ h_path h = declared_path base m /\
            h_body h = (match m_verb m with VGet => [] | _ => [42] end).

(* one service: <Name>Service with one rpc per method, and the request / response messages of
   its methods, in order *)
Definition service_linked_ok (spkg : str) (s : service) (ms : list dmsg) (ds : dservice) : Prop :=
  ds_name ds = sv_name s ++ b "Service" /\ ds_topic ds = None /\
  Forall2 (method_linked_ok spkg (sv_base s)) (sv_methods s) (ds_methods ds) /\
  exists mss, ms = concat mss /\ Forall2 method_msgs_ok (sv_methods s) mss.

Definition service_file_ok (f : jfile) (df : dfile) : Prop :=
  let spkg := j5s_pkg f ++ dot ++ b "service" in
  fl_path df = sub_proto_path f (b "service") /\ fl_pkg df = spkg /\ fl_enums df = [] /\
  exists mss, fl_msgs df = concat mss /\ zip3 (service_linked_ok spkg) (file_services f) mss (fl_svcs df).

Definition topic_method_linked_ok (spkg tname : str) (t : tmsg) (dm : dmethod) : Prop :=
  me_name dm = tmsg_name tname t /\ me_in dm = in_pkg spkg (tmsg_name tname t ++ b "Message") /\
  me_out dm = b ".google.protobuf.Empty" /\ me_http dm = None.

Definition topic_service_linked_ok (spkg tname topic_name : str) (rl : role) (virt : props) (l : list tmsg)
           (ms : list dmsg) (ds : dservice) : Prop :=
  ds_name ds = camel tname ++ b "Topic" /\ ds_topic ds = Some (topic_name, rl) /\
  Forall2 (topic_method_linked_ok spkg tname) l (ds_methods ds) /\
  Forall2 (fun t m => virtual_ok (tmsg_name tname t ++ b "Message") virt (tm_fields t) m) l ms.

(* one topic: one <Topic>Topic service (two for a request / reply topic) and its messages *)
Definition topic_linked_ok (spkg : str) (t : topic) (ms : list dmsg) (ss : list dservice) : Prop :=
  match t with
  | TPublish name msgs =>
      exists ds, ss = [ds] /\ topic_service_linked_ok spkg name (snake name) RPublish PNil msgs ms ds
  | TReqRes name req reply =>
      exists ds1 ds2 ms1 ms2, ss = [ds1; ds2] /\ ms = ms1 ++ ms2 /\
        topic_service_linked_ok spkg (name ++ b "Request") (snake name) RRequest virt_request req ms1 ds1 /\
        topic_service_linked_ok spkg (name ++ b "Reply") (snake name) RReply virt_request reply ms2 ds2
  | TUpsert name entity msg =>
      exists ds, ss = [ds] /\
        topic_service_linked_ok spkg name (snake name) (RUpsert entity) virt_upsert
          [match tm_name msg with None => mkTmsg (Some name) (tm_fields msg) | Some _ => msg end] ms ds
  | TEvent name entity msg =>
      exists ds, ss = [ds] /\ topic_service_linked_ok spkg name (snake name) (REvent entity) PNil [msg] ms ds
  end.

Definition topic_file_ok (f : jfile) (df : dfile) : Prop :=
  let spkg := j5s_pkg f ++ dot ++ b "topic" in
  fl_path df = sub_proto_path f (b "topic") /\ fl_pkg df = spkg /\ fl_enums df = [] /\
  exists mss sss, fl_msgs df = concat mss /\ fl_svcs df = concat sss /\
                  zip3 (topic_linked_ok spkg) (file_topics f) mss sss.

(* every output file is one of these, for a source file of the package *)
Definition output_of (f : jfile) (df : dfile) : Prop :=
  fl_path df = main_proto_path f \/
  (fl_path df = sub_proto_path f (b "service") /\ file_services f <> []) \/
  (fl_path df = sub_proto_path f (b "topic") /\ file_topics f <> []).

(* the whole output of a package: per source file the main file, the .service file exactly when
   it declares services, the .topic file exactly when it declares topics - and nothing else *)
Definition package_contract_full (bd : bundle) (pkg : str) (D : list dfile) : Prop :=
  (forall f, In (BJ f) bd -> j5s_pkg f = pkg ->
     (exists df, In df D /\ main_file_ok f df) /\
     (file_services f <> [] -> exists df, In df D /\ service_file_ok f df) /\
     (file_topics f <> [] -> exists df, In df D /\ topic_file_ok f df)) /\
  (forall df, In df D -> exists f, In (BJ f) bd /\ j5s_pkg f = pkg /\ output_of f df).

End Contract.

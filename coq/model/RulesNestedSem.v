(* RulesNestedSem.v — C12 for inline (nested) schemas: what the validator does with a
   message whose fields hold messages of inline types, and what the declaration tree
   says about such a value.
   protovalidate evaluates, for a message, the constraints of its fields and then,
   for every populated message-typed field (singular value, list items, map values),
   the evaluator of the embedded message type (builder.go processEmbeddedMessage /
   value.go: embedded message evaluators are appended to the field's value evaluator;
   all are run, failFast is off; mergeViolations lets an error dominate). Fields that
   are absent have no embedded value to evaluate.
   Value domain: [mvalue] = the field values of the message as in the flat model
   (message-typed values stay abstract ids there) together with, per inline type of
   the schema (in declaration order), the messages of that type that occur in its
   field. No proofs here. *)
From Coq Require Import String List NArith ZArith Bool.
From J5V.lib Require Import Outcome.
From J5V.model Require Import RulesDecl RulesWrite RulesRead RulesNested RulesSpec Validate RulesSpecDec RulesOneof.
Import ListNotations.

Inductive mvalue := MV (fvs : list fvalue) (inner : list (list mvalue)).

(* how many messages a field value holds *)
Definition held (fv : fvalue) : nat :=
  match fv with
  | FAbsent => 0
  | FOne _ => 1
  | FMany vs => length vs
  | FMap kvs => length kvs
  end.

(* the compiled tree as the validator sees it: the fields of a oneof message are members of
   a proto oneof and have presence (RulesOneof.as_member) *)
Fixpoint c12_view (m : mtree) : mtree :=
  match m with
  | MT o nested =>
      MT (RO (ro_name o) (ro_comment o) (ro_msgopt o)
             (match ro_msgopt o with Some ROneof => map as_member (ro_fields o) | _ => ro_fields o end))
         (map c12_view nested)
  end.

Section Validator.
Variable re_ok : str -> bool.
Variable re_match : str -> str -> bool.
Variable defined : list Z.

Fixpoint validate_tree (m : mtree) (v : mvalue) : verdict :=
  match m, v with
  | MT o nested, MV fvs inner =>
      vworst (validate_obj re_ok re_match defined (ro_fields o) fvs)
        ((fix go (ns : list mtree) (is : list (list mvalue)) : verdict :=
            match ns, is with
            | [], [] => VAccept
            | n :: nr, vs :: ir =>
                vworst ((fix all (l : list mvalue) : verdict :=
                           match l with
                           | [] => VAccept
                           | x :: r => vworst (validate_tree n x) (all r)
                           end) vs)
                       (go nr ir)
            | _, _ => VReject
            end) nested inner)
  end.
End Validator.

(* the inline schemas of a field list, with the declaring property, in order *)
Fixpoint inlines (fs : list nfield) : list (prop * nschema) :=
  match fs with
  | [] => []
  | NF _ None :: r => inlines r
  | NF d (Some s) :: r => (d, s) :: inlines r
  end.

Section Spec.
Variable pat_sem : str -> str -> Prop.
Variable env : enum_env.

(* the declared meaning: every property of the message satisfies its declared rules, and so
   does, recursively, every message of an inline type that occurs in it *)
Fixpoint rule_tree (s : nschema) (v : mvalue) : Prop :=
  match s, v with
  | NS k _ _ fields, MV fvs inner =>
      (* an object: every property on its own; a oneof: every option as a member (RulesOneof.member_sem) *)
      match k with
      | RObject => rule_obj pat_sem env (map nf_prop fields) fvs
      | ROneof => member_obj pat_sem env (map nf_prop fields) fvs
      end /\
      (fix go (fs : list nfield) (is : list (list mvalue)) : Prop :=
         match fs with
         | [] => match is with [] => True | _ => False end
         | NF _ None :: r => go r is
         | NF _ (Some s') :: r =>
             match is with
             | vs :: ir =>
                 (fix all (l : list mvalue) : Prop :=
                    match l with [] => True | x :: r' => rule_tree s' x /\ all r' end) vs
                 /\ go r ir
             | [] => False
             end
         end) fields inner
  end.
End Spec.

Section Decide.
Variable re_match : str -> str -> bool.
Variable env : enum_env.

Fixpoint rule_treeb (s : nschema) (v : mvalue) : bool :=
  match s, v with
  | NS k _ _ fields, MV fvs inner =>
      match k with
      | RObject => rule_objb re_match env (map nf_prop fields) fvs
      | ROneof => member_objb re_match env (map nf_prop fields) fvs
      end &&
      (fix go (fs : list nfield) (is : list (list mvalue)) : bool :=
         match fs with
         | [] => match is with [] => true | _ => false end
         | NF _ None :: r => go r is
         | NF _ (Some s') :: r =>
             match is with
             | vs :: ir =>
                 (fix all (l : list mvalue) : bool :=
                    match l with [] => true | x :: r' => rule_treeb s' x && all r' end) vs
                 && go r ir
             | [] => false
             end
         end) fields inner
  end.
End Decide.

(* typing: the field values are typed by the properties; for a field with an inline type the
   messages listed are as many as the field value holds; recursively *)
Fixpoint typed_tree (s : nschema) (v : mvalue) : bool :=
  match s, v with
  | NS _ _ _ fields, MV fvs inner =>
      typed_obj (map nf_prop fields) fvs &&
      (fix go (fs : list nfield) (fvs : list fvalue) (is : list (list mvalue)) : bool :=
         match fs, fvs with
         | [], [] => match is with [] => true | _ => false end
         | NF _ None :: r, _ :: fr => go r fr is
         | NF _ (Some s') :: r, fv :: fr =>
             match is with
             | vs :: ir =>
                 Nat.eqb (held fv) (length vs)
                 && (fix all (l : list mvalue) : bool :=
                       match l with [] => true | x :: r' => typed_tree s' x && all r' end) vs
                 && go r fr ir
             | [] => false
             end
         | _, _ => false
         end) fields fvs inner
  end.

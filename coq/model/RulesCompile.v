(* RulesCompile.v — the property compiler as it is called (buildProperty with the
   checks it runs before it emits anything) over the declaration language of
   schema.proto INCLUDING the three settings RulesDecl.prop leaves out:
     IntegerField.Rules.multiple_of   (schema.proto:313)
     MapField.Ext (single_form)       (schema.proto MapField.Ext)
   (descriptions with paragraph breaks are strings like any other: RulesRead.clean_desc).
   They sit BESIDE [prop] because the shapes of RulesDecl / RulesWrite are frozen
   (another family's proofs match on them).

   [compile_prop] = front checks, then RulesWrite.write_prop, then the map
   annotation.  The front checks are the compile errors of fields.go:
     - integer rules.multipleOf: "not implemented" (buf.validate has no such rule)
     - a string pattern / custom key pattern that regexp.Compile refuses
     - array rules.uniqueItems = true on message typed items
     - default filters of an enum field that name no option of the enum
   [compile_object] adds what the link step refuses: two properties whose proto
   field names (strcase.ToSnake of the property name) coincide.
   Definitions only. *)
From Coq Require Import String List NArith ZArith Bool.
From J5V.lib Require Import Outcome Strcase.
From J5V.model Require Import RulesDecl RulesWrite RulesRead.
Import ListNotations.

(* ---- the extended declaration ------------------------------------------------ *)
Record xprop := XP {
  x_prop : prop;
  x_mult : option Z;                 (* rules.multipleOf of the integer (element) type *)
  x_map_ext : option (option str) }. (* MapField.Ext present, with its optional single form *)

Definition plain (d : prop) : xprop := XP d None None.

Definition item_of (t : pty) : fty := match t with PSingle t | PArray _ _ t | PMap _ t => t end.

(* the extras are set where schema.proto has them: multipleOf inside the Rules
   message of an integer, Ext on a map *)
Definition x_wf (x : xprop) : bool :=
  match x_mult x with
  | Some _ => match item_of (p_ty (x_prop x)) with TInt _ (Some _) _ => true | _ => false end
  | None => true
  end &&
  match x_map_ext x with
  | Some _ => match p_ty (x_prop x) with PMap _ _ => true | _ => false end
  | None => true
  end.

(* ---- front checks ---------------------------------------------------------------- *)
(* the patterns buildField hands to checkPattern *)
Definition pattern_of (t : fty) : option str :=
  match t with
  | TStr _ (Some r) _ => sr_pat r
  | TKey (Some (KCustom p)) _ _ => Some p
  | _ => None
  end.

(* FieldDescriptorProto_TYPE_MESSAGE *)
Definition message_typed (t : fty) : bool :=
  match t with
  | TDate _ _ | TDecimal _ _ | TTimestamp _ _ | TAny _ _ _ | TObject _ _ _ | TOneof _ _ _ => true
  | _ => false
  end.

(* st.Array.Rules.GetUniqueItems() && item type is a message *)
Definition unique_refused (t : pty) : bool :=
  match t with
  | PArray (Some r) _ t => match ar_uniq r with Some true => message_typed t | _ => false end
  | _ => false
  end.

Definition front_checks (re_ok : str -> bool) (x : xprop) : outcome unit :=
  match x_mult x with
  | Some _ => Err "integer rules: multipleOf is not implemented"
  | None =>
      match pattern_of (item_of (p_ty (x_prop x))) with
      | Some p => if re_ok p then
                    (if unique_refused (p_ty (x_prop x)) then Err "array rules: uniqueItems is not supported for message typed items" else Ok tt)
                  else Err "pattern is not a valid regular expression"
      | None => if unique_refused (p_ty (x_prop x)) then Err "array rules: uniqueItems is not supported for message typed items" else Ok tt
      end
  end.

(* EnumRef.hasValue: the name, or the prefix followed by the name, is a key of ValMap
   (the full names of the declared options and of the explicit zero option) *)
Definition full_known (env : enum_env) (full : str) : bool :=
  match lookup_from env (ee_options env) 1 full with
  | Some _ => true
  | None => match ee_zero env with
            | Some z => str_eqb (with_prefix env z) full
            | None => false
            end
  end.
Definition has_value (env : enum_env) (name : str) : bool :=
  full_known env name || full_known env (ee_prefix env ++ name)%list.

(* listRules.filtering.defaultFilters of an enum field name options of the enum
   (compile error otherwise, /repo fb0e252) *)
Definition enum_filters_ok (env : enum_env) (t : fty) : bool :=
  match t with
  | TEnum _ (Some l) => forallb (has_value env) (lp_filters l)
  | _ => true
  end.

(* setJ5Ext(.., "map", st.Map.Ext) when st.Map.Ext != nil *)
Definition with_map_ext (x : xprop) (o : fout) : fout :=
  match x_map_ext x, fo_kind o with
  | Some sf, KdMapEntry _ =>
      FO (fo_json o) (fo_name o) (fo_number o) (fo_kind o) (fo_rep o) (fo_opt o) (fo_pres o)
         (fo_val o) (Some (XMap sf)) (fo_list o) (fo_key o) (fo_desc o)
  | _, _ => o
  end.

Definition compile_prop (re_ok : str -> bool) (env : enum_env) (idx : N) (x : xprop) : outcome fout :=
  obind (front_checks re_ok x) (fun _ =>
  if enum_filters_ok env (item_of (p_ty (x_prop x)))
  then obind (write_prop env idx (x_prop x)) (fun o => Ok (with_map_ext x o))
  else Err "listRules.filtering.defaultFilters: enum value not found").

Fixpoint compile_props_from (re_ok : str -> bool) (env : enum_env) (idx : N) (xs : list xprop) : outcome (list fout) :=
  match xs with
  | [] => Ok []
  | x :: r => obind (compile_prop re_ok env idx x) (fun o =>
              obind (compile_props_from re_ok env (idx + 1)%N r) (fun os => Ok (o :: os)))
  end.

(* ---- the link step: proto field names of one message are pairwise different ----- *)
Fixpoint mem_str (s : str) (l : list str) : bool :=
  match l with [] => false | x :: r => str_eqb s x || mem_str s r end.
Fixpoint distinct_strs (l : list str) : bool :=
  match l with [] => true | x :: r => negb (mem_str x r) && distinct_strs r end.

Definition proto_names (xs : list xprop) : list str := map (fun x => to_snake (p_name (x_prop x))) xs.
Definition props_distinct (xs : list xprop) : bool := distinct_strs (proto_names xs).

Definition compile_object (re_ok : str -> bool) (env : enum_env) (xs : list xprop) : outcome (list fout) :=
  if props_distinct xs then compile_props_from re_ok env 0%N xs
  else Err "symbol already defined".

(* ---- the reader on the extended language --------------------------------------- *)
(* the reader never sets multipleOf; MapField.Ext comes from (j5.ext.v1.field).map
   of a map field *)
Record rxprop := RXP { rx_prop : rprop; rx_mult : option Z; rx_map_ext : option (option str) }.

Definition read_xprop (env : enum_env) (o : fout) : outcome rxprop :=
  obind (read_prop env o) (fun r =>
    Ok (RXP r None
            (match fo_kind o, fo_ext o with
             | KdMapEntry _, Some (XMap sf) => Some sf
             | _, _ => None
             end))).

Fixpoint read_xprops (env : enum_env) (os : list fout) : outcome (list rxprop) :=
  match os with
  | [] => Ok []
  | o :: r => obind (read_xprop env o) (fun p => obind (read_xprops env r) (fun ps => Ok (p :: ps)))
  end.

(* what the declaration says, from the declaration alone *)
Definition norm_xprop (env : enum_env) (idx : N) (x : xprop) : rxprop :=
  RXP (norm_prop env idx (x_prop x)) (x_mult x) (x_map_ext x).

Fixpoint norm_xprops_from (env : enum_env) (idx : N) (xs : list xprop) : list rxprop :=
  match xs with
  | [] => []
  | x :: r => norm_xprop env idx x :: norm_xprops_from env (idx + 1)%N r
  end.
Definition norm_xobject (env : enum_env) (xs : list xprop) : list rxprop := norm_xprops_from env 0%N xs.

Definition xrt_ok (x : xprop) : bool := rt_ok (x_prop x).

(* PipelineCorr.v — correspondence cases for C16: what the real chain
   (ReadFSImage -> APIFromImage -> APIFromSource -> BuildSwagger) was observed to do,
   checked against model/Pipeline.v by vm_compute. Only projected observables. *)
From Coq Require Import String List NArith Bool.
From J5V.lib Require Import Outcome Corr.
From J5V.model Require Import Pipeline PipelineEntity PipelineList.
From J5V.gen Require SwaggerGen.
Import ListNotations.
Local Open Scope N_scope.
Local Open Scope bool_scope.

(* the configuration of the code as it is now: arms are re-read from convert.go on every run;
   the two guards are what the repaired code has (a revert shows up as a disagreement) *)
Definition current_config : code_config :=
  {| cc_arms := SwaggerGen.convert_schema_arms; cc_walk_guard := true; cc_resp_guard := true |}.

Record cm_obs := {
  o_svc : str; o_name : str; o_verb : N; o_path : str;
  o_pathp : list str; o_query : list str; o_body : option (list str);
  o_resp : bool; o_list : option (list str)
}.

Inductive c16case :=
(* a lone service named [name] with no methods in package p.v1.service: 0 service 1 ignored 2 topic 3 error *)
| CClassify (name : str) (kind : N)
(* buildMethod on a hand-built descriptor: kind 0 ok / 1 err; verb and client path when ok *)
| CMethod (m : meth_desc) (kind : nat) (verb : N) (path : str)
(* the chain on an image: per stage kind (0 ok 1 err 2 panic 3 fatal stack overflow, 9 = stage not reached) *)
| CChain (im : image)
         (src_kind : nat) (src : list (str * list src_method))
         (cli_kind : nat) (cli : list cm_obs) (keys : list key)
         (sw_kind : nat)
(* the same with the entity annotations of the package's objects instead of pre-computed walk roots:
   the model groups them (walkSourceSchemas) and derives the roots itself; with the list constraints of the
   source API's properties and the list request of every client method that has one *)
| CChainE (anns : list ent_ann) (im : image) (rt : rules_table)
          (src_kind : nat) (src : list (str * list src_method))
          (cli_kind : nat) (cli : list cm_obs) (keys : list key)
          (ents : list (str * str * list str))      (* entities of the client API: name, state schema, event names *)
          (lobs : list (str * str * (list str * (list str * list str))))  (* service, method, filterable / sortable / searchable *)
          (sw_kind : nat)
(* the client stage and swagger on a hand-built source API (services given directly) *)
| CClient (im : image) (api : src_api)
          (cli_kind : nat) (cli : list cm_obs) (keys : list key)
          (sw_kind : nat).

Definition strs_eqb := list_eqb str_eqb.
Definition names_of (ps : list prop) : list str := map p_json ps.

Definition src_method_eqb (a b : src_method) : bool :=
  str_eqb (sm_name a) (sm_name b) && (sm_verb a =? sm_verb b) && str_eqb (sm_path a) (sm_path b)
  && str_eqb (sm_req a) (sm_req b) && str_eqb (sm_resp a) (sm_resp b).

(* services may come out in any order across files (RangeFiles); methods are ordered *)
Definition src_matches (api : src_api) (obs : list (str * list src_method)) : bool :=
  (Nat.eqb (length (sa_services api)) (length obs))
  && forallb (fun s => existsb (fun o => str_eqb (fst o) (ss_name s)
                                        && list_eqb src_method_eqb (snd o) (ss_methods s)) obs)
             (sa_services api).

Definition dotted (p : list str) : str := join_with DOT p.

Definition is_bool_ty (t : fty) : bool :=
  match t with TScalar alt => String.eqb alt "bool" | _ => false end.

Definition list_matches (m : option (list (list str * fty))) (o : option (list str)) : bool :=
  match m, o with
  | None, None => true
  | Some walked, Some names =>
      let all := map (fun x => dotted (fst x)) walked in
      let bools := map (fun x => dotted (fst x)) (filter (fun x => is_bool_ty (snd x)) walked) in
      forallb (fun n => mem_str n all) names
      && strs_eqb (filter (fun n => mem_str n bools) names) bools
  | _, _ => false
  end.

Definition cm_matches (m : client_method) (o : cm_obs) : bool :=
  str_eqb (cm_service m) (o_svc o) && str_eqb (cm_name m) (o_name o)
  && (cm_verb m =? o_verb o) && str_eqb (cm_path m) (o_path o)
  && strs_eqb (names_of (r_path (cm_req m))) (o_pathp o)
  && strs_eqb (names_of (r_query (cm_req m))) (o_query o)
  && option_eqb strs_eqb (option_map names_of (r_body (cm_req m))) (o_body o)
  && Bool.eqb (match cm_resp m with Some _ => true | None => false end) (o_resp o)
  && list_matches (cm_list m) (o_list o).

Definition cli_matches (ms : list client_method) (obs : list cm_obs) : bool :=
  Nat.eqb (length ms) (length obs)
  && forallb (fun m => existsb (cm_matches m) obs) ms.

(* the list request of every list method: exactly the model's filterable, sortable and searchable fields, in order *)
Definition lists_match (rt : rules_table) (g : env) (ms : list client_method)
    (lobs : list (str * str * (list str * (list str * list str)))) : bool :=
  let same := fun (m : client_method) (o : str * str * (list str * (list str * list str))) =>
                str_eqb (cm_service m) (fst (fst o)) && str_eqb (cm_name m) (snd (fst o)) in
  forallb (fun m =>
    match method_list_fields rt g m with
    | Ok None => negb (existsb (same m) lobs)
    | Ok (Some lf) =>
        existsb (fun o => same m o && strs_eqb (lf_filter lf) (fst (snd o))
                          && strs_eqb (lf_sort lf) (fst (snd (snd o))) && strs_eqb (lf_search lf) (snd (snd (snd o)))) lobs
    | _ => false
    end) ms.

Definition keys_match (a b : list key) : bool :=
  forallb (fun k => mem_key k b) a && forallb (fun k => mem_key k a) b.

Definition c16_check (c : c16case) : bool :=
  match c with
  | CClassify name k => svc_kind_code (classify_service name) =? k
  | CMethod m k verb path =>
      match build_method m with
      | Ok sm => Nat.eqb k 0 && (sm_verb sm =? verb) && str_eqb (sm_path sm) path
      | Err _ => Nat.eqb k 1
      | _ => false
      end
  | CChain im sk src ck cli keys wk =>
      let r := run_chain current_config im in
      Nat.eqb (kind (cr_source r)) sk
      && match cr_source r with Ok api => src_matches api src | _ => true end
      && (Nat.eqb sk 0 || Nat.eqb ck 9) && (Nat.eqb sk 0 && Nat.eqb ck 0 || Nat.eqb wk 9)
      && (negb (Nat.eqb sk 0) ||
          (Nat.eqb (kind (cr_client r)) ck
           && match cr_client r with Ok (ms, ks) => cli_matches ms cli && keys_match ks keys | _ => true end))
      && (negb (Nat.eqb sk 0 && Nat.eqb ck 0) || Nat.eqb (kind (cr_swagger r)) wk)
  | CChainE anns im rt sk src ck cli keys eobs lobs wk =>
      let r := run_chain_list current_config im anns rt in
      (* the entities the client API lists: the model's grouping, state schema and event names *)
      (negb (Nat.eqb sk 0 && Nat.eqb ck 0) ||
       match walk_source_schemas anns with
       | Ok es =>
           Nat.eqb (length es) (length eobs)
           && forallb (fun o =>
                existsb (fun e =>
                  str_eqb (en_name e) (fst (fst o))
                  && match en_state e with Some k => str_eqb (fst k ++ DOT :: snd k) (snd (fst o)) | None => false end
                  && match entity_events (im_schemas im) e with Ok evs => strs_eqb evs (snd o) | _ => false end) es) eobs
       | _ => false
       end) &&
      Nat.eqb (kind (cr_source r)) sk
      && match cr_source r with Ok api => src_matches api src | _ => true end
      && (Nat.eqb sk 0 || Nat.eqb ck 9) && (Nat.eqb sk 0 && Nat.eqb ck 0 || Nat.eqb wk 9)
      && (negb (Nat.eqb sk 0) ||
          (Nat.eqb (kind (cr_client r)) ck
           && match cr_client r with
              | Ok (ms, ks) => cli_matches ms cli && keys_match ks keys && lists_match rt (im_schemas im) ms lobs
              | _ => true
              end))
      && (negb (Nat.eqb sk 0 && Nat.eqb ck 0) || Nat.eqb (kind (cr_swagger r)) wk)
  | CClient im api ck cli keys wk =>
      let r := run_client current_config im (Ok api) in
      Nat.eqb (kind (cr_client r)) ck
      && match cr_client r with Ok (ms, ks) => cli_matches ms cli && keys_match ks keys | _ => true end
      && (Nat.eqb ck 0 || Nat.eqb wk 9)
      && (negb (Nat.eqb ck 0) || Nat.eqb (kind (cr_swagger r)) wk)
  end.

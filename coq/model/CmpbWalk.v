(* CmpbWalk.v — model of the schema-directed BCL walker as it runs on .j5s files:
   internal/bcl/parse.go ParseAST, internal/bcl/internal/walker/c2.go (doBody, doFullBlock, doBlock, walkTags,
   walkQualifiers, checkBang), walk_context.go (walkScope, BuildScope, setAttribute, setContainerFromScalar),
   internal/bcl/internal/walker/schema/{scope,container_field,schemaset}.go (findBlock, ChildBlock, Field,
   walkToChild, walkPath, childSourceLocation, _buildSpec) and the part of lib/j5reflect the walker drives
   (NewValue / GetOrCreateValue / NewContainerElement / ProtoPath, value_ast.go scalar conversion).

   The walker is generic; what makes it the J5S walker are two tables, both regenerated from /repo on every run
   (gen/WalkSchemaGen.v): j5parse.J5SchemaSpec and the j5schema closure of j5.sourcedef.v1.SourceFile.

   State.  The Go walker mutates a protoreflect message and a bcl.j5.v1.SourceLocation tree.  Every property
   the walker creates (propSet.buildValue) gets a location child in the same step (walkPath / wrap ->
   childSourceLocation), and the walk stops at the first error, so "the property already has a value"
   (propSet.NewValue: "already set") is "its location path exists", and the length of an array of containers
   is the number of children of its location node.  The model therefore keeps the location tree and a list of the
   scalar values stored (path, value), nothing else.

   Outside the model ([WUnmod], counted by the correspondence, never compared): maps of containers
   (SourceLocation.children, reachable only by writing `sourceLocations...` in a .j5s file), map keys and scalar-split
   delimiters that are not ASCII / not "." (empty for the translated schema: C07_walker_split_delimiters_modelled),
   [float literals are modelled since round 4: float_lit_ok], a scalar split nested more than
   3 deep, (in CmpbWalkFile.v) a oneof message with two members set.  No proofs here. *)
From Coq Require Import Ascii String List NArith ZArith Bool Arith.
From J5V.lib Require Import Text Outcome.
From J5V.gen Require WalkSchemaGen.
From J5V.model Require Import BclLexer BclParser CmpbFront.
Import ListNotations.
Local Open Scope string_scope.
Local Open Scope bool_scope.
Local Open Scope list_scope.

(* ------------------------------------------------------------------ names *)
Definition rune_ascii (n : N) : ascii := ascii_of_N (if N.ltb n 128 then n else 255).
Fixpoint string_of_runes (l : list N) : string :=
  match l with [] => EmptyString | c :: r => String (rune_ascii c) (string_of_runes r) end.
Fixpoint runes_of_string (s : string) : list N :=
  match s with EmptyString => [] | String a r => N_of_ascii a :: runes_of_string r end.
Definition all_ascii (l : list N) : bool := forallb (fun c => N.ltb c 128) l.
Definition ident_name (t : token) : string := string_of_runes (lit t).

(* ------------------------------------------------------------------ the tables, decoded *)
Inductive skind :=
| KString | KBool | KInt (bits : N) | KUint (bits : N) | KFloat
| KEnum (prefix : string) (opts : list string) | KAnyScalar | KUnsupported.

Inductive ptype :=
| PScalar (k : skind) | PObject (s : string) | POneof (s : string)
| PArrScalar (k : skind) | PArrObject (s : string) | PArrOneof (s : string)
| PMapScalar (k : skind) | PMapContainer | PAny | POther.

Record pdef := mkPD { pd_name : string; pd_req : bool; pd_path : list string; pd_ty : ptype; pd_alias : string }.
Record sdef := mkSD { sd_name : string; sd_oneof : bool; sd_props : list pdef }.

Definition skind_of (ty prefix : string) (opts : list string) : skind :=
  if String.eqb ty "string" || String.eqb ty "key" then KString
  else if String.eqb ty "bool" then KBool
  else if String.eqb ty "int32" then KInt 32 else if String.eqb ty "int64" then KInt 64
  else if String.eqb ty "uint32" then KUint 32 else if String.eqb ty "uint64" then KUint 64
  else if String.eqb ty "float32" || String.eqb ty "float64" then KFloat
  else if String.eqb ty "enum" then KEnum prefix opts
  else if String.eqb ty "anyscalar" then KAnyScalar
  else KUnsupported.

Definition ptype_of (k : N) (ref prefix : string) (opts : list string) : ptype :=
  match k with
  | 0 => PScalar (skind_of ref prefix opts)
  | 1 => PObject ref | 2 => POneof ref
  | 3 => PArrScalar (skind_of ref prefix opts)
  | 4 => PArrObject ref | 5 => PArrOneof ref
  | 6 => PMapScalar (skind_of ref prefix opts)
  | 7 => PAny | 8 => PMapContainer
  | _ => POther
  end%N.

Definition decode_prop (r : string * bool * list string * (N * string * string * list string) * string) : pdef :=
  match r with
  | (n, req, path, (k, ref, prefix, opts), alias) => mkPD n req path (ptype_of k ref prefix opts) alias
  end.
Definition schemas : list sdef :=
  map (fun r => match r with (n, o, ps) => mkSD n o (map decode_prop ps) end) WalkSchemaGen.schemas.
Definition find_schema (n : string) : option sdef := find (fun d => String.eqb (sd_name d) n) schemas.

Record tagspec := mkTS { ts_field : string; ts_bang : option string; ts_question : option string;
                         ts_block : bool; ts_optional : bool }.
Record split := mkSplit { sp_delim : option string; sp_rtl : bool; sp_req : list (list string);
                          sp_opt : list (list string); sp_rem : option (list string) }.
Record bspec := mkBS { bs_name : option tagspec; bs_typesel : option tagspec; bs_qual : option tagspec;
                       bs_desc : option string; bs_only : bool; bs_aliases : list (string * list string);
                       bs_split : option split }.
Definition empty_spec : bspec := mkBS None None None None false [] None.

Definition decode_tag (t : option (string * option string * option string * bool * bool)) : option tagspec :=
  match t with Some (f, b, q, blk, o) => Some (mkTS f b q blk o) | None => None end.
Definition given_specs : list (string * bspec) :=
  map (fun r => match r with
       | (n, nm, tsel, q, d, only, al, sp) =>
           (n, mkBS (decode_tag nm) (decode_tag tsel) (decode_tag q) d only al
                    (match sp with Some (dl, rtl, rq, op, rm) => Some (mkSplit dl rtl rq op rm) | None => None end))
       end) WalkSchemaGen.specs.

Fixpoint assoc {A} (k : string) (l : list (string * A)) : option A :=
  match l with [] => None | (k', v) :: r => if String.eqb k k' then Some v else assoc k r end.
Fixpoint assoc_set {A} (k : string) (v : A) (l : list (string * A)) : list (string * A) :=
  match l with
  | [] => [(k, v)]
  | (k', v') :: r => if String.eqb k k' then (k, v) :: r else (k', v') :: assoc_set k v r
  end.

(* schemaset.go _buildSpec: the given spec (or an empty one) completed from the schema: a string property
   `name` becomes the name tag, a string property `description` the description field, arrays / maps contribute
   an alias (their singleForm, or the lowerCamel item object name: computed by the translator with the same
   strcase) unless the given spec already has that alias; two derived aliases of one name: the later property wins *)
Definition is_string_prop (p : pdef) : bool := match pd_ty p with PScalar KString => true | _ => false end.
Definition derived_aliases (ps : list pdef) : list (string * list string) :=
  fold_left (fun acc p => if String.eqb (pd_alias p) "" then acc else assoc_set (pd_alias p) [pd_name p] acc) ps [].
Definition build_spec (d : sdef) : bspec :=
  let g := match assoc (sd_name d) given_specs with Some g => g | None => empty_spec end in
  if bs_only g then g else
  let nm := match bs_name g with
            | Some t => Some t
            | None => match find (fun p => String.eqb (pd_name p) "name" && is_string_prop p) (sd_props d) with
                      | Some p => Some (mkTS "name" None None false (negb (pd_req p)))
                      | None => None
                      end
            end in
  let ds := match bs_desc g with
            | Some x => Some x
            | None => if existsb (fun p => String.eqb (pd_name p) "description" && is_string_prop p) (sd_props d)
                      then Some "description" else None
            end in
  let al := fold_left (fun acc kv => match assoc (fst kv) acc with Some _ => acc | None => acc ++ [kv] end)
                      (derived_aliases (sd_props d)) (bs_aliases g) in
  mkBS nm (bs_typesel g) (bs_qual g) ds (bs_only g) al (bs_split g).

(* ------------------------------------------------------------------ AST values as the walker sees them *)
Inductive aval :=
| ATok (t : token) (sp : span)          (* parser.Value, not an array (len(array) = 0: `[]` is one of these) *)
| AArr (vs : list value) (sp : span)    (* parser.Value with a non-empty array *)
| AStr (l : list N) (sp : span)         (* parser.StringValue *)
| ABool (b : bool)                      (* parser.BoolValue: NewBoolValue drops its position *)
| ATag (t : tag).                       (* parser.TagValue *)

Definition zero_tok : token := mkTok INVALID [] pos0 pos0.
Definition aval_of (v : value) : aval :=
  match v with
  | VTok t s e => ATok t (s, e)
  | VArr [] s e => ATok zero_tok (s, e)
  | VArr vs s e => AArr vs (s, e)
  end.
Definition aval_span (a : aval) : span :=
  match a with
  | ATok _ sp | AArr _ sp | AStr _ sp => sp
  | ABool _ => span0
  | ATag t => (tgstart t, tgend t)
  end.

Definition tok_as_string (t : token) : option (list N) :=
  match ty t with STRING | DESCRIPTION | IDENT | REGEX => Some (lit t) | _ => None end.
Definition value_as_string (v : value) : option (list N) :=
  match v with VTok t _ _ => tok_as_string t | VArr _ _ _ => None end.
Definition as_string (a : aval) : option (list N) :=
  match a with
  | ATok t _ => tok_as_string t
  | AStr l _ => Some l
  | ATag t => match tbody t with TagVal v => value_as_string v | TagRef r => Some (ref_string r) end
  | _ => None
  end.
Definition lit_true : list N := [116; 114; 117; 101]%N.
Definition as_bool (a : aval) : option bool :=
  match a with
  | ATok t _ => match ty t with BOOL => Some (list_N_eqb (lit t) lit_true) | _ => None end
  | ABool b => Some b
  | _ => None
  end.
(* strconv.ParseUint(lit, 10, bits) on a token of digits; ParseInt differs only in the bound *)
Fixpoint dec_value (l : list N) (acc : N) : option N :=
  match l with
  | [] => Some acc
  | c :: r => if N.leb 48 c && N.leb c 57 then dec_value r (acc * 10 + (c - 48))%N else None
  end.
Definition parse_dec (l : list N) : option N := match l with [] => None | _ => dec_value l 0%N end.
Definition int_tok (a : aval) : option (list N) :=
  match a with ATok t _ => match ty t with INT => Some (lit t) | _ => None end | _ => None end.
Definition as_uint (bits : N) (a : aval) : option N :=
  match int_tok a with
  | Some l => match parse_dec l with Some n => if N.ltb n (2 ^ bits) then Some n else None | None => None end
  | None => None
  end.
Definition as_int (bits : N) (a : aval) : option N :=
  match int_tok a with
  | Some l => match parse_dec l with Some n => if N.ltb n (2 ^ (bits - 1)) then Some n else None | None => None end
  | None => None
  end.
Definition float_tok (a : aval) : option (list N) :=
  match a with ATok t _ => match ty t with INT | DECIMAL => Some (lit t) | _ => None end | _ => None end.

(* strconv.ParseFloat(lit, 64) on an INT / DECIMAL token (the lexer's digits are Unicode digits, at most one '.'):
   syntax error unless every rune is an ASCII digit or the dot; range error iff the correctly rounded value is
   +Inf, i.e. value >= 2^1024 - 2^970 (half an ulp above the largest float64, the tie rounds to even = up); the
   bound is an integer and the fraction is below 1, so that is a condition on the integer part alone.  Every
   float property of the translated schema is float64 (proofs/CmpbWalkProofs.v no_float32_props). *)
Definition ascii_digit (c : N) : bool := N.leb 48 c && N.leb c 57.
Fixpoint int_part (l : list N) : list N :=
  match l with [] => [] | c :: r => if N.eqb c 46 then [] else c :: int_part r end.
Definition float64_limit : N := (2 ^ 1024 - 2 ^ 970)%N.
Definition float_lit_ok (l : list N) : bool :=
  forallb (fun c => ascii_digit c || N.eqb c 46) l &&
  match dec_value (int_part l) 0%N with Some n => N.ltb n float64_limit | None => false end.

(* the scalar stored: (kind tag, text): 0 string 1 bool 2 number (as written) 3 enum option (as written) 4 any *)
Definition sval : Type := (N * list N)%type.
Definition trim_prefix (p s : string) : string :=
  if String.prefix p s then String.substring (String.length p) (String.length s - String.length p) s else s.
Definition mem_str (x : string) (l : list string) : bool := existsb (String.eqb x) l.

Inductive conv := ConvOk (v : sval) | ConvErr | ConvUnmod.
(* value_ast.go scalarReflectFromAST / type_enum.go SetASTValue *)
Definition conv_scalar (k : skind) (a : aval) : conv :=
  match k with
  | KString => match as_string a with Some l => ConvOk (0%N, l) | None => ConvErr end
  | KBool => match as_bool a with Some b => ConvOk (1%N, if b then lit_true else []) | None => ConvErr end
  | KInt bits => match as_int bits a with Some _ => ConvOk (2%N, match int_tok a with Some l => l | None => [] end) | None => ConvErr end
  | KUint bits => match as_uint bits a with Some _ => ConvOk (2%N, match int_tok a with Some l => l | None => [] end) | None => ConvErr end
  | KFloat => match float_tok a with
              | Some l => if float_lit_ok l then ConvOk (2%N, l) else ConvErr
              | None => ConvErr
              end
  | KEnum prefix opts =>
      match as_string a with
      | Some l => if all_ascii l then
                    let s := string_of_runes l in
                    if mem_str s opts || mem_str (trim_prefix prefix s) opts then ConvOk (3%N, l) else ConvErr
                  else ConvErr
      | None => ConvErr
      end
  | KAnyScalar => ConvOk (4%N, [])
  | KUnsupported => ConvErr
  end.

(* ------------------------------------------------------------------ walker state and result *)
Record wstate := mkWS { ws_loc : loc; ws_vals : list (path * sval) }.

Inductive wres (A : Type) :=
| ROk (a : A) (s : wstate)
| RErr (sp : option span) (code : N)      (* the first error; its position if one was attached so far *)
| RUnmod (why : string).
Arguments ROk {A} a s.
Arguments RErr {A} sp code.
Arguments RUnmod {A} why.

Definition rbind {A B} (m : wres A) (k : A -> wstate -> wres B) : wres B :=
  match m with
  | ROk a s => k a s
  | RErr sp c => RErr sp c
  | RUnmod w => RUnmod w
  end.
(* errpos.AddPosition: only when the error has none yet *)
Definition add_pos {A} (sp : span) (m : wres A) : wres A :=
  match m with RErr None c => RErr (Some sp) c | o => o end.

(* error codes (classes, not texts) *)
Definition E_ROOT_NOT_FOUND := 1%N.    Definition E_NODE_NOT_FOUND := 2%N.   Definition E_NOT_CONTAINER := 3%N.
Definition E_ALREADY_SET := 4%N.       Definition E_EMPTY_PATH := 5%N.       Definition E_APPEND_CONTAINER := 6%N.
Definition E_BAD_TYPE := 7%N.          Definition E_SCALAR := 8%N.           Definition E_NO_SPLIT := 9%N.
Definition E_SPLIT_COUNT := 10%N.      Definition E_EXPECTED_TAG := 11%N.    Definition E_TYPESEL_REF := 12%N.
Definition E_TAG_MARK := 13%N.         Definition E_MORE_TAGS := 14%N.       Definition E_NO_QUALIFIER := 15%N.
Definition E_MORE_QUALIFIERS := 16%N.  Definition E_QUAL_REF := 17%N.        Definition E_NO_BANG := 18%N.
Definition E_NO_DESC := 19%N.          Definition E_VALIDATE := 20%N.

(* ------------------------------------------------------------------ the location tree *)
Fixpoint loc_get (t : loc) (p : path) : option loc :=
  match p with
  | [] => Some t
  | k :: r => match find_child k (loc_children t) with Some c => loc_get c r | None => None end
  end.
Definition loc_has (t : loc) (p : path) : bool := match loc_get t p with Some _ => true | None => false end.

Fixpoint set_child (k : string) (c : loc) (cs : list (string * loc)) : list (string * loc) :=
  match cs with
  | [] => [(k, c)]
  | (k', c') :: r => if String.eqb k k' then (k, c) :: r else (k', c') :: set_child k c r
  end.
(* childSourceLocation along a path: a missing child is created with the hint, an existing one is kept *)
Fixpoint loc_ensure (t : loc) (p : path) (hint : span) : loc :=
  match p with
  | [] => t
  | k :: r =>
      let c := match find_child k (loc_children t) with Some c => c | None => Loc hint [] end in
      Loc (loc_span t) (set_child k (loc_ensure c r hint) (loc_children t))
  end.
Definition child_count (t : loc) (p : path) : nat :=
  match loc_get t p with Some n => length (loc_children n) | None => 0 end.

Fixpoint nat_dec_fuel (fuel n : nat) (acc : string) : string :=
  match fuel with
  | O => acc
  | S f => let acc' := String (ascii_of_nat (48 + n mod 10)) acc in
           if Nat.ltb n 10 then acc' else nat_dec_fuel f (n / 10) acc'
  end.
Definition nat_dec (n : nat) : string := nat_dec_fuel (S n) n "".

(* ------------------------------------------------------------------ containers and scopes *)
Inductive cont := CSchema (s : string) | CMap (k : skind).
Record cfield := mkCF { cf_cont : cont; cf_loc : path; cf_spec : bspec }.
Record scope := mkScope { sc_blocks : list cfield; sc_leaf : cfield; sc_root : cfield }.

Definition cont_props (c : cont) : list pdef :=
  match c with
  | CSchema s => match find_schema s with Some d => sd_props d | None => [] end
  | CMap _ => []
  end.
Definition cont_spec (c : cont) : bspec :=
  match c with
  | CSchema s => match find_schema s with Some d => build_spec d | None => empty_spec end
  | CMap _ => empty_spec
  end.
Definition find_prop (c : cont) (n : string) : option pdef := find (fun p => String.eqb (pd_name p) n) (cont_props c).
Definition has_property (c : cont) (n : string) : bool :=
  match c with CMap _ => true | CSchema _ => match find_prop c n with Some _ => true | None => false end end.

(* scope.go findBlock: the first block of the scope that has the name as an alias or as a property *)
Fixpoint find_block (bs : list cfield) (n : string) : option (cfield * path) :=
  match bs with
  | [] => None
  | b :: r =>
      match assoc n (bs_aliases (cf_spec b)) with
      | Some p => Some (b, p)
      | None => if has_property (cf_cont b) n then Some (b, [n]) else find_block r n
      end
  end.

(* container_field.go walkPath: one GetOrCreateValue per path part; an array of containers gets a NEW element;
   the location of every proto path part is created on the way.  Returns the deepest container. *)
Fixpoint walk_path (c : cfield) (p : path) (hint : span) (s : wstate) : wres cfield :=
  match p with
  | [] => RErr None E_EMPTY_PATH
  | n :: r =>
      if negb (has_property (cf_cont c) n) then RErr None E_NODE_NOT_FOUND else
      let step (pp : path) (nc : cont) :=
        let lp := cf_loc c ++ pp in
        let s' := mkWS (loc_ensure (ws_loc s) lp hint) (ws_vals s) in
        let child := mkCF nc lp (cont_spec nc) in
        match r with [] => ROk child s' | _ => walk_path child r hint s' end in
      match cf_cont c with
      | CMap _ => RErr None E_NOT_CONTAINER                   (* a map of scalars: the element is a leaf *)
      | CSchema _ =>
          match find_prop (cf_cont c) n with
          | None => RErr None E_NODE_NOT_FOUND
          | Some pd =>
              match pd_ty pd with
              | PObject sn | POneof sn => step (pd_path pd) (CSchema sn)
              | PArrObject sn | PArrOneof sn =>
                  let idx := child_count (ws_loc s) (cf_loc c ++ pd_path pd) in
                  step (pd_path pd ++ [nat_dec idx]) (CSchema sn)
              | PMapScalar k => step (pd_path pd) (CMap k)
              | PMapContainer => RUnmod "map of containers"
              | _ => RErr None E_NOT_CONTAINER
              end
          end
      end
  end.

Definition walk_to_child (c : cfield) (p : path) (hint : span) (s : wstate) : wres cfield :=
  match p with [] => ROk c s | _ => walk_path c p hint s end.

Definition new_child_scope (c : cfield) : scope := mkScope [c] c c.

(* scope.go ChildBlock *)
Definition child_block (sc : scope) (n : string) (hint : span) (s : wstate) : wres scope :=
  match find_block (sc_blocks sc) n with
  | None => RErr None E_ROOT_NOT_FOUND
  | Some (root, p) => rbind (walk_to_child root p hint s) (fun c s' => ROk (new_child_scope c) s')
  end.

(* what setAttribute needs to know of the field it got: its kind and where its location is *)
Inductive fkind := FScalar (k : skind) | FArrScalar (k : skind) | FContainer | FOther.
Definition fkind_of (t : ptype) : fkind :=
  match t with
  | PScalar k => FScalar k
  | PArrScalar k => FArrScalar k
  | PObject _ | POneof _ => FContainer
  | _ => FOther
  end.

Fixpoint pop_last {A} (l : list A) : option (A * list A) :=
  match l with
  | [] => None
  | [x] => Some (x, [])
  | x :: r => match pop_last r with Some (y, r') => Some (y, x :: r') | None => None end
  end.

(* scope.go Field / field: find the block, walk to the parent of the leaf, NewValue (or GetOrCreateValue when
   appending), record the location (wrap) *)
Definition scope_field (sc : scope) (n : string) (hint : span) (existing_ok : bool) (s : wstate)
  : wres (fkind * path) :=
  match find_block (sc_blocks sc) n with
  | None => RErr None E_ROOT_NOT_FOUND
  | Some (root, p) =>
      match pop_last p with
      | None => RErr None E_EMPTY_PATH
      | Some (final, to_parent) =>
          rbind (walk_to_child root to_parent hint s) (fun parent s1 =>
            if negb (has_property (cf_cont parent) final) then RErr None E_NODE_NOT_FOUND else
            match cf_cont parent with
            | CMap k =>
                if negb (all_ascii (runes_of_string final)) || String.eqb final "" then RUnmod "map key" else
                let lp := cf_loc parent ++ [final] in
                if negb existing_ok && loc_has (ws_loc s1) lp then RErr None E_ALREADY_SET
                else ROk (FScalar k, lp) (mkWS (loc_ensure (ws_loc s1) lp hint) (ws_vals s1))
            | CSchema _ =>
                match find_prop (cf_cont parent) final with
                | None => RErr None E_NODE_NOT_FOUND
                | Some pd =>
                    match pd_ty pd with
                    | PMapContainer => RUnmod "map of containers"
                    | _ =>
                      let lp := cf_loc parent ++ pd_path pd in
                      if negb existing_ok && loc_has (ws_loc s1) lp then RErr None E_ALREADY_SET
                      else ROk (fkind_of (pd_ty pd), lp) (mkWS (loc_ensure (ws_loc s1) lp hint) (ws_vals s1))
                    end
                end
            end)
      end
  end.

(* a path element: a name, with the position of the identifier when the user wrote it *)
Definition pelem : Type := (string * option span)%type.
Definition combine_path (p : list string) (ref : list token) : list pelem :=
  map (fun n => (n, None)) p ++ map (fun t => (ident_name t, Some (tstart t, tend t))) ref.

(* walk_context.go walkScope; the block location of a walkContext is never set: the zero position *)
Fixpoint walk_scope (sc : scope) (p : list pelem) (l : span) (s : wstate) : wres scope :=
  match p with
  | [] => ROk sc s
  | (n, po) :: r =>
      let l' := match po with Some x => x | None => l end in
      match child_block sc n l' s with
      | ROk sc' s' => walk_scope sc' r l' s'
      | RErr _ c => RErr po c                      (* positioned at the identifier, or a schema error without *)
      | RUnmod x => RUnmod x
      end
  end.

Inductive sflag := ResetScope | KeepScope.
Definition merge_scope (a b : scope) : scope := mkScope (sc_blocks a ++ sc_blocks b) (sc_leaf b) (sc_root a).

Definition build_scope (sc : scope) (sp : list string) (up : list token) (f : sflag) (s : wstate) : wres scope :=
  match combine_path sp up with
  | [] => match f with
          | KeepScope => ROk sc s
          | ResetScope => RUnmod "TailScope: empty type reference"   (* scope.go TailScope leaves the root block nil; the
                                                                        only Reset caller is doFullBlock, see do_stmt *)
          end
  | full => rbind (walk_scope sc full span0 s) (fun c s' =>
              ROk (match f with ResetScope => c | KeepScope => merge_scope sc c end) s')
  end.

Definition store (lp : path) (v : sval) (s : wstate) : wstate := mkWS (ws_loc s) (ws_vals s ++ [(lp, v)]).

(* AppendASTValue for each element; the element's own position on failure *)
Fixpoint append_all (k : skind) (lp : path) (vs : list aval) (s : wstate) : wres unit :=
  match vs with
  | [] => ROk tt s
  | v :: r =>
      match conv_scalar k v with
      | ConvOk x => append_all k lp r (store lp x s)
      | ConvErr => RErr (Some (aval_span v)) E_SCALAR
      | ConvUnmod => RUnmod "float literal"
      end
  end.

Definition split_dot (l : list N) : list (list N) := split_on 46 l.

Definition split_at {A} (n : nat) (l : list A) : list A * list A := (firstn n l, skipn n l).

(* ---- walk_context.go setContainerFromScalar, after the value has been cut into pieces: [f] sets one attribute
   of the container's scope (it is setAttribute again: `object:foo.Bar` sets Ref{package, schema}) *)
Definition setter : Type := scope -> list string -> aval -> wstate -> wres unit.

Fixpoint set_each (f : setter) (sc : scope) (ps : list (list string)) (vs : list aval) (s : wstate) : wres unit :=
  match ps, vs with
  | pth :: ps', v :: vs' => rbind (f sc pth v s) (fun _ s' => set_each f sc ps' vs' s')
  | _, _ => ROk tt s
  end.

Definition join_remainder (rem : list aval) (dflt : aval) : wres aval :=
  let strs := map as_string rem in
  match find (fun pr => match snd pr with None => true | Some _ => false end) (combine rem strs) with
  | Some (bad, _) => RErr (Some (aval_span bad)) E_SCALAR
  | None =>
      let joined := join_with 46 (map (fun o => match o with Some l => l | None => [] end) strs) in
      let f := match rem with x :: _ => x | [] => dflt end in
      let l := last rem dflt in
      ROk (AStr joined (fst (aval_span f), snd (aval_span l))) (mkWS (Loc span0 []) [])
  end.

Definition set_from_pieces (f : setter) (csc : scope) (ss : split) (vals0 : list aval) (s : wstate) : wres unit :=
  let vals := if sp_rtl ss then rev vals0 else vals0 in
  let nreq := length (sp_req ss) in
  if Nat.ltb (length vals) nreq then RErr None E_SPLIT_COUNT else
  let into_req := firstn nreq vals in
  let rest := skipn nreq vals in
  rbind (set_each f csc (sp_req ss) into_req s) (fun _ s5 =>
    match rest with
    | [] => ROk tt s5
    | _ =>
        let nopt := length (sp_opt ss) in
        let opt := if Nat.ltb nopt (length rest) then firstn nopt rest else rest in
        let rest2 := if Nat.ltb nopt (length rest) then skipn nopt rest else [] in
        rbind (set_each f csc (sp_opt ss) opt s5) (fun _ s6 =>
          match rest2 with
          | [] => ROk tt s6
          | first :: _ =>
              match sp_rem ss with
              | None => RErr None E_SPLIT_COUNT
              | Some rp =>
                  let rem := if sp_rtl ss then rev rest2 else rest2 in
                  match join_remainder rem first with
                  | ROk j _ => f csc rp j s6
                  | RErr p c => RErr p c
                  | RUnmod w => RUnmod w
                  end
              end
          end)
    end).

(* the pieces of a value for a container with a scalar split *)
Definition split_pieces (ss : split) (val : aval) : wres (list aval) :=
  match sp_delim ss with
  | Some dl =>
      if negb (String.eqb dl ".") then RUnmod "scalar split delimiter" else
      match as_string val with
      | None => RErr (Some (aval_span val)) E_SCALAR
      | Some str => ROk (map (fun x => AStr x (aval_span val)) (split_dot str)) (mkWS (Loc span0 []) [])
      end
  | None =>
      match val with
      | AArr vs _ => ROk (map aval_of vs) (mkWS (Loc span0 []) [])
      | _ => RErr None E_NO_SPLIT
      end
  end.

Definition set_container_from_scalar (f : setter) (csc : scope) (spec : bspec) (val : aval) (s : wstate) : wres unit :=
  match bs_split spec with
  | None => RErr None E_NO_SPLIT
  | Some ss =>
      match split_pieces ss val with
      | ROk vals0 _ => set_from_pieces f csc ss vals0 s
      | RErr p c => RErr p c
      | RUnmod w => RUnmod w
      end
  end.

(* the leaf of setAttribute: an array value (or an appended scalar) into an array of scalars, a scalar into a scalar *)
Definition set_leaf (fk : fkind) (lp : path) (val : aval) (app : bool) (s : wstate) : wres unit :=
  let arr : option (list aval) :=
    match val with
    | AArr vs _ => Some (map aval_of vs)
    | _ => if app then Some [val] else None
    end in
  match arr with
  | Some vs =>
      match fk with
      | FArrScalar k => append_all k lp vs s
      | _ => RErr (Some (aval_span val)) E_BAD_TYPE
      end
  | None =>
      match fk with
      | FScalar k =>
          match conv_scalar k val with
          | ConvOk x => ROk tt (store lp x s)
          | ConvErr => RErr (Some (aval_span val)) E_SCALAR
          | ConvUnmod => RUnmod "float literal"
          end
      | _ => RErr (Some (aval_span val)) E_BAD_TYPE
      end
  end.

(* the error of a lookup is re-positioned by the caller *)
Definition repos {A} (p : option span) (m : wres A) : wres A :=
  match m with RErr _ c => RErr p c | o => o end.

(* walk_context.go setAttribute; [depth] bounds the nesting of containers set from scalars *)
Fixpoint set_attribute (depth : nat) (sc : scope) (p : list string) (ref : list token) (val : aval) (app : bool)
                       (s : wstate) : wres unit :=
  match pop_last (combine_path p ref) with
  | None => RErr None E_EMPTY_PATH
  | Some ((lname, lpos), to_block) =>
      rbind (walk_scope sc to_block span0 s) (fun parent s1 =>
        rbind (repos lpos (scope_field parent lname (aval_span val) app s1)) (fun fl s2 =>
          match fst fl with
          | FContainer =>
              if app then RErr (Some (aval_span val)) E_APPEND_CONTAINER else
              rbind (repos (Some (aval_span val)) (child_block parent lname (aval_span val) s2)) (fun csc s3 =>
                match depth with
                | O => RUnmod "nested scalar split"
                | S d => set_container_from_scalar (fun sc' p' v' s' => set_attribute d sc' p' [] v' false s')
                                                   csc (cf_spec (sc_leaf csc)) val s3
                end)
          | fk => set_leaf fk (snd fl) val app s2
          end))
  end.

Definition split_depth : nat := 3.
Definition set_attr := set_attribute split_depth.

(* setContainerFromScalar called directly (walkTags, a left-over tag on a type with a scalar split): in the
   scope as it is *)
Definition set_container_from_tag (sc : scope) (spec : bspec) (t : tag) (s : wstate) : wres unit :=
  set_container_from_scalar (fun sc' p' v' s' => set_attr sc' p' [] v' false s') sc spec (ATag t) s.

(* ------------------------------------------------------------------ tags and qualifiers (c2.go) *)
Definition tag_span (t : tag) : span := (tgstart t, tgend t).
Definition has_mark (t : tag) : bool := match tmark t with MarkNone => false | _ => true end.

Definition check_bang (sc : scope) (ts : tagspec) (t : tag) (s : wstate) : wres unit :=
  match tmark t with
  | MarkNone => ROk tt s
  | MarkBang => match ts_bang ts with
                | None => RErr (Some (tag_span t)) E_NO_BANG
                | Some f => set_attr sc [f] [] (ABool true) false s
                end
  | MarkQuestion => match ts_question ts with
                    | None => RErr (Some (tag_span t)) E_NO_BANG
                    | Some f => set_attr sc [f] [] (ABool true) false s
                    end
  end.

Definition span_of_tags (first : tag) (l : list tag) : span := (tgstart first, tgend (last l first)).

(* walkTags.  [np]: the name tag of the current spec has not been looked at yet.  Returns the scope and spec the
   qualifiers (then the body) are walked in.  Structural on the tags: the name and the type-select each pop one. *)
Fixpoint walk_tags (tags : list tag) (np : bool) (sc : scope) (spec : bspec) (lastpos : pos) (s : wstate)
  : wres (scope * bspec) :=
  let leftovers (tags : list tag) :=
    match tags with
    | [] => ROk (sc, spec) s
    | first :: _ =>
        match find has_mark tags with
        | Some bad => RErr (Some (tag_span bad)) E_TAG_MARK
        | None =>
            match bs_split spec with
            | Some _ =>
                match tags with
                | [one] => rbind (set_container_from_tag sc spec one s) (fun _ s' => ROk (sc, spec) s')
                | _ => RErr None E_MORE_TAGS
                end
            | None => RErr (Some (span_of_tags first tags)) E_MORE_TAGS
            end
        end
    end in
  match (if np then bs_name spec else None) with
  | Some ns =>
      match tags with
      | [] => if ts_optional ns then ROk (sc, spec) s else RErr (Some (lastpos, lastpos)) E_EXPECTED_TAG
      | t :: r =>
          rbind (check_bang sc ns t s) (fun _ s1 =>
            rbind (set_attr sc [ts_field ns] [] (ATag t) false s1) (fun _ s2 =>
              walk_tags r false sc spec (tgend t) s2))
      end
  | None =>
      match bs_typesel spec with
      | Some ts =>
          match tags with
          | [] => RErr (Some (lastpos, lastpos)) E_EXPECTED_TAG
          | t :: r =>
              match tbody t with
              | TagVal _ => RErr None E_TYPESEL_REF
              | TagRef rf =>
                  let to_type := if String.eqb (ts_field ts) "" || String.eqb (ts_field ts) "." then [] else [ts_field ts] in
                  rbind (build_scope sc to_type rf KeepScope s) (fun tsc s1 =>
                    rbind (check_bang tsc ts t s1) (fun _ s2 =>
                      walk_tags r true tsc (cf_spec (sc_leaf tsc)) (tgend t) s2))
              end
          end
      | None => leftovers tags
      end
  end.

Fixpoint walk_qualifiers (qs : list tag) (sc : scope) (spec : bspec) (s : wstate) : wres (scope * bspec) :=
  match qs with
  | [] => ROk (sc, spec) s
  | q :: r =>
      match bs_qual spec with
      | None => RErr (Some (tag_span q)) E_NO_QUALIFIER
      | Some ts =>
          if negb (ts_block ts) then
            rbind (check_bang sc ts q s) (fun _ s1 =>
              rbind (set_attr sc [ts_field ts] [] (ATag q) false s1) (fun _ s2 =>
                match r with
                | [] => ROk (sc, spec) s2
                | f :: _ => RErr (Some (span_of_tags f r)) E_MORE_QUALIFIERS
                end))
          else
            match tbody q with
            | TagVal _ => RErr None E_QUAL_REF
            | TagRef rf =>
                rbind (build_scope sc [ts_field ts] rf KeepScope s) (fun nsc s1 =>
                  rbind (check_bang nsc ts q s1) (fun _ s2 =>
                    walk_qualifiers r nsc (cf_spec (sc_leaf nsc)) s2))
            end
      end
  end.

(* ------------------------------------------------------------------ statements (doBody, doFullBlock, doBlock) *)
Definition set_description (sc : scope) (val : aval) (s : wstate) : wres unit :=
  match bs_desc (cf_spec (sc_root sc)) with
  | None => RErr None E_NO_DESC
  | Some f => set_attr sc [f] [] val false s
  end.

(* what a statement leaves: the state, or the first error WITH its position (doBody adds the statement's position
   to an error that has none), or the one panic the walker can reach on a syntax tree: a block whose type
   reference is empty (BuildScope -> TailScope -> a scope without root block -> SetDescription dereferences it;
   parser.NewReference panics on such a reference first: C11) *)
Inductive sres :=
| SOk (s : wstate)
| SErr (sp : span) (code : N)
| SPanic (site : string)
| SUnmod (why : string).

Definition lift (sp : span) (m : wres unit) : sres :=
  match m with
  | ROk _ s => SOk s
  | RErr (Some p) c => SErr p c
  | RErr None c => SErr sp c
  | RUnmod w => SUnmod w
  end.

(* doFullBlock + doBlock up to the body: the scope the body is walked in *)
Definition open_block (sc : scope) (h : header) (s : wstate) : wres scope :=
  rbind (build_scope sc [] (htype h) ResetScope s) (fun bsc s1 =>
    let spec0 := cf_spec (sc_leaf bsc) in
    rbind (walk_tags (htags h) true bsc spec0 (ref_end (htype h)) s1) (fun r1 s2 =>
      rbind (walk_qualifiers (hquals h) (fst r1) (snd r1) s2) (fun r2 s3 =>
        let bsc' := fst r2 in
        match hdesc h with
        | None => ROk bsc' s3
        | Some d =>
            match bs_desc spec0 with
            | None => RErr (Some (dsstart d, dsend d)) E_NO_DESC
            | Some f => rbind (set_attr bsc' [f] [] (AStr (dvalue d) (hstart h, hend h)) false s3) (fun _ s4 => ROk bsc' s4)
            end
        end))).

Fixpoint do_stmt (sc : scope) (st : stmt) (s : wstate) : sres :=
  match st with
  | SDesc d => lift (dsstart d, dsend d) (set_description sc (AStr (dvalue d) (dsstart d, dsend d)) s)
  | SAssign a => lift (astart a, aend a) (set_attr sc [] (akey a) (aval_of (avalue a)) (aappend a) s)
  | SBlock h body =>
      match htype h with
      | [] => SPanic "SetDescription: nil root block after TailScope (empty block type)"
      | _ =>
          match open_block sc h s with
          | ROk bsc s1 =>
              (fix go (l : list stmt) (s : wstate) : sres :=
                 match l with
                 | [] => SOk s
                 | x :: r => match do_stmt bsc x s with SOk s' => go r s' | o => o end
                 end) body s1
          | RErr (Some p) c => SErr p c
          | RErr None c => SErr (hstart h, hend h) c
          | RUnmod w => SUnmod w
          end
      end
  end.

Fixpoint do_body (sc : scope) (body : list stmt) (s : wstate) : sres :=
  match body with
  | [] => SOk s
  | x :: r => match do_stmt sc x s with SOk s' => do_body sc r s' | o => o end
  end.

Definition root_cfield : cfield := mkCF (CSchema WalkSchemaGen.root_schema) [] (cont_spec (CSchema WalkSchemaGen.root_schema)).
Definition root_scope : scope := new_child_scope root_cfield.
Definition init_state : wstate := mkWS (Loc span0 []) [].

(* walker.WalkSchema on a fresh SourceFile *)
Definition walk_schema (body : list stmt) : sres := do_body root_scope body init_state.

(* CodecEnc.v — model of the J5 JSON encoder: internal/codec/encoder.go,
   structure_encode.go (encodeObjectBody, encodeOneofBody, encodeAny, encodeValue,
   encodeMap, encodeArray, encodeEnum, encodeScalarField), the proto->Go half of
   lib/j5reflect/value_go.go (scalarGoFromReflect) and the presence walk of
   lib/j5reflect/property_set.go (RangeValues / GetValue / buildValue / GetOne).
   Schema environment and message values: model/CodecTypes.v (owner dec).

   The encoder writes bytes, not a tree; so does this model.  Two things are
   parameters (Section variables):
     fmt_float is32 bits   strconv.FormatFloat(v, 'g', -1, 32|64) for a finite v given by
                           its IEEE bit pattern (never called on NaN / Inf)
     any_inner tn pb       what encodeAny does with a proto payload: resolver lookup of
                           the type named tn, proto.Unmarshal of pb, and a recursive
                           Codec.encode of that message; Err for an unknown type or
                           undecodable payload
   Map members are emitted in the order of the VMap entry list (Go iterates the map in
   an unspecified order; every theorem quantifies over all entry orders).
   No proofs in this file. *)
From Coq Require Import String List NArith ZArith Bool.
From J5V.lib Require Import Outcome Json JsonPrint Base64 Civil.
From J5V.model Require Import CodecTypes.
Import ListNotations.
Local Open Scope N_scope.
Local Open Scope bool_scope.

(* ------------------------------------------------------------------ floats *)
Definition float_exp_all_ones (is32 : bool) (bits : N) : bool :=
  if is32 then (bits / 8388608) mod 256 =? 255 else (bits / 4503599627370496) mod 2048 =? 2047.
Definition float_mantissa (is32 : bool) (bits : N) : N :=
  if is32 then bits mod 8388608 else bits mod 4503599627370496.
Definition float_negative (is32 : bool) (bits : N) : bool :=
  if is32 then 2147483648 <=? bits else 9223372036854775808 <=? bits.
Definition float_is_nan is32 bits := float_exp_all_ones is32 bits && negb (float_mantissa is32 bits =? 0).
Definition float_is_inf is32 bits := float_exp_all_ones is32 bits && (float_mantissa is32 bits =? 0).
Definition float_finite is32 bits := negb (float_exp_all_ones is32 bits).

Definition quote (b : bytes) : bytes := 34 :: b ++ [34].
Definition txt_NaN : bytes := [78; 97; 78].
Definition txt_Infinity : bytes := [73; 110; 102; 105; 110; 105; 116; 121].
Definition txt_type : bytes := [33; 116; 121; 112; 101].          (* !type *)
Definition txt_value : bytes := [118; 97; 108; 117; 101].         (* value *)
Definition any_prefix : bytes :=                                   (* type.googleapis.com/ *)
  [116;121;112;101;46;103;111;111;103;108;101;97;112;105;115;46;99;111;109;47].

Definition join_b : N -> list bytes -> bytes := join.

(* run a list of outcomes left to right, first failure wins (the encoder stops there) *)
Fixpoint sequence {A} (l : list (outcome A)) : outcome (list A) :=
  match l with
  | [] => Ok []
  | x :: r => obind x (fun a => omap (cons a) (sequence r))
  end.

Definition field_int (n : N) (m : msg) : outcome Z :=
  match msg_get n m with
  | None => Ok 0%Z
  | Some (VInt z) => Ok z
  | Some _ => Panic "protoreflect: type mismatch"
  end.
Definition field_bytes (n : N) (m : msg) : outcome bytes :=
  match msg_get n m with
  | None => Ok []
  | Some (VStr s) | Some (VBytes s) => Ok s
  | Some _ => Panic "protoreflect: type mismatch"
  end.

Section Enc.
  Variable fmt_float : bool -> N -> bytes.
  Variable any_inner : bytes -> bytes -> outcome bytes.
  Variable env : env.

  (* addFloat, after the fix of finding 7: NaN / Infinity / -Infinity as the quoted
     strings of the protobuf JSON mapping *)
  Definition enc_float (is32 : bool) (bits : N) : bytes :=
    if float_is_nan is32 bits then quote txt_NaN
    else if float_is_inf is32 bits then
      (if float_negative is32 bits then quote (45 :: txt_Infinity) else quote txt_Infinity)
    else fmt_float is32 bits.

  (* scalarGoFromReflect followed by the arm of encodeScalarField it selects *)
  Definition enc_scalar (k : scalar_kind) (v : pval) : outcome bytes :=
    match k, v with
    | KInt32, VInt z | KUint32, VInt z => Ok (print_Z z)
    | KInt64, VInt z | KUint64, VInt z => Ok (quote (print_Z z))
    | KFloat32, VFloat bits => Ok (enc_float true bits)
    | KFloat64, VFloat bits => Ok (enc_float false bits)
    | KBool, VBool b => Ok (if b then [116; 114; 117; 101] else [102; 97; 108; 115; 101])
    | KString, VStr s | KKey, VStr s => escape s
    | KBytes, VBytes s => escape (b64_encode s)
    | KDate, VMsg m =>
        obind (field_int 1 m) (fun y => obind (field_int 2 m) (fun mo => obind (field_int 3 m) (fun d =>
          escape (date_string y mo d))))
    | KDecimal, VMsg m => obind (field_bytes 1 m) escape
    | KTimestamp, VMsg m =>
        obind (field_int 1 m) (fun s => obind (field_int 2 m) (fun ns =>
          escape (format_rfc3339nano s ns)))
    | _, _ => Panic "protoreflect: type mismatch"
    end.

  (* ---- presence: buildValue(prop, create=false) *)
  Fixpoint walk (path : list N) (m : msg) : option pval :=
    match path with
    | [] => None
    | [n] => msg_get n m
    | n :: rest =>
        match msg_get n m with
        | Some (VMsg sub) => walk rest sub
        | _ => None
        end
    end.

  (* GetOne over a property list, given the lookup of one property *)
  Fixpoint get_one_with (look : property -> outcome (option pval)) (ps : list property)
           (found : option (property * pval)) : outcome (option (property * pval)) :=
    match ps with
    | [] => Ok found
    | p :: r =>
      match look p with
      | Ok None => get_one_with look r found
      | Ok (Some v) =>
          match found with
          | Some _ => Err "multiple values set for oneof"
          | None => get_one_with look r (Some (p, v))
          end
      | Err e => Err e
      | Panic s => Panic s
      | OutOfFuel => OutOfFuel
      end
    end.

  (* GetValue: a property with an empty proto path is an exposed oneof living in the
     same message; it counts as set when its GetOne finds exactly one member *)
  Fixpoint prop_lookup (fuel : nat) (p : property) (m : msg) : outcome (option pval) :=
    match p_path p with
    | [] =>
      match fuel with
      | O => OutOfFuel
      | S f =>
        match p_ty p with
        | FOneof r =>
          match lookup env r with
          | Some (SOneof ps) =>
            match get_one_with (fun q => prop_lookup f q m) ps None with
            | Ok (Some _) => Ok (Some (VMsg m))
            | Ok None => Ok None
            | Err _ => Ok None                    (* IsSet(): ok && err == nil *)
            | Panic s => Panic s
            | OutOfFuel => OutOfFuel
            end
          | _ => Panic "schema reference"
          end
        | _ => Err "Reflection Bug: no proto field and not a oneof"
        end
      end
    | path => Ok (walk path m)
    end.

  Definition lookup_fuel : nat := 8.

  Definition get_one (ps : list property) (m : msg) : outcome (option (property * pval)) :=
    get_one_with (fun q => prop_lookup lookup_fuel q m) ps None.

  Definition member (label value : bytes) : bytes := label ++ 58 :: value.

  (* encodeAny copies the stored j5_json text into the document only when it is one JSON value in
     valid UTF-8 (json.Valid && utf8.Valid = the strict reader, stream CValid); otherwise it fails *)
  Definition stored_json (js : bytes) : outcome bytes :=
    match strict_parse js with
    | Some _ => Ok js
    | None => Err "stored j5_json is not a JSON document"
    end.

  Definition enc_any (pb : bool) (m : msg) : outcome bytes :=
    obind (field_bytes 1 m) (fun tn0 =>
    let tn := if pb then trim_prefix any_prefix tn0 else tn0 in
    let j5json := if pb then None else
                  match msg_get 3 m with Some (VBytes s) => Some s | _ => None end in
    obind (match j5json with
           | Some js => stored_json js
           | None => obind (field_bytes 2 m) (fun pbytes => any_inner tn pbytes)
           end) (fun data =>
    obind (escape txt_type) (fun l1 =>
    obind (escape tn) (fun t =>
    obind (escape txt_value) (fun l2 =>
    Ok (123 :: member l1 t ++ 44 :: member l2 data ++ [125])))))).

  Fixpoint enc_value (fuel : nat) (t : field_ty) (v : pval) {struct fuel} : outcome bytes :=
    match fuel with
    | O => OutOfFuel
    | S f =>
      match t with
      | FScalar k => enc_scalar k v
      | FEnum r =>
          match lookup env r, v with
          | Some (SEnum _ opts), VEnum n =>
              match option_by_number opts n with
              | Some name => escape name
              | None => Err "enum value not found"
              end
          | _, _ => Panic "schema/value mismatch"
          end
      | FObject r =>
          match lookup env r, v with
          | Some (SObject ps), VMsg m => enc_object f ps m
          | _, _ => Panic "schema/value mismatch"
          end
      | FOneof r =>
          match lookup env r, v with
          | Some (SOneof ps), VMsg m => enc_oneof f ps m
          | _, _ => Panic "schema/value mismatch"
          end
      | FArray it =>
          match v with
          | VList l => omap (fun xs => 91 :: join_b 44 xs ++ [93]) (sequence (map (enc_value f it) l))
          | _ => Panic "schema/value mismatch"
          end
      | FMap it =>
          match v with
          | VMap es =>
              omap (fun xs => 123 :: join_b 44 xs ++ [125])
                   (sequence (map (fun kv => obind (escape (fst kv)) (fun l =>
                                             omap (member l) (enc_value f it (snd kv)))) es))
          | _ => Panic "schema/value mismatch"
          end
      | FAny pb =>
          match v with
          | VMsg m => enc_any pb m
          | _ => Panic "schema/value mismatch"
          end
      end
    end
  (* encodeObjectBody: RangeValues in schema order, unset properties skipped *)
  with enc_object (fuel : nat) (ps : list property) (m : msg) {struct fuel} : outcome bytes :=
    match fuel with
    | O => OutOfFuel
    | S f =>
      omap (fun xs => 123 :: join_b 44 (concat xs) ++ [125])
           (sequence (map (fun p =>
              obind (prop_lookup lookup_fuel p m) (fun ov =>
              match ov with
              | None => Ok []
              | Some v => obind (escape (p_json p)) (fun l =>
                          omap (fun b => [member l b]) (enc_value f (p_ty p) v))
              end)) ps))
    end
  (* encodeOneofBody *)
  with enc_oneof (fuel : nat) (ps : list property) (m : msg) {struct fuel} : outcome bytes :=
    match fuel with
    | O => OutOfFuel
    | S f =>
      obind (get_one ps m) (fun o =>
      match o with
      | None => Ok [123; 125]
      | Some (p, v) =>
          obind (escape txt_type) (fun l1 =>
          obind (escape (p_json p)) (fun nm =>
          obind (enc_value f (p_ty p) v) (fun b =>
          Ok (123 :: member l1 nm ++ 44 :: member nm b ++ [125]))))
      end)
    end.

  (* Codec.encode: the root is an object or a oneof *)
  Definition encode_fuel (fuel : nat) (root : bytes) (m : msg) : outcome bytes :=
    match lookup env root with
    | Some (SObject ps) => enc_object fuel ps m
    | Some (SOneof ps) => enc_oneof fuel ps m
    | _ => Err "unsupported root schema type"
    end.
End Enc.

(* nesting depth of a value: bounds the fuel the encoder needs *)
Fixpoint pval_depth (v : pval) : nat :=
  match v with
  | VMsg fs => S (fold_right (fun kv a => Nat.max (pval_depth (snd kv)) a) O fs)
  | VList l => S (fold_right (fun x a => Nat.max (pval_depth x) a) O l)
  | VMap es => S (fold_right (fun kv a => Nat.max (pval_depth (snd kv)) a) O es)
  | _ => 1%nat
  end.

Definition encode (fmt_float : bool -> N -> bytes) (any_inner : bytes -> bytes -> outcome bytes)
           (e : env) (root : bytes) (m : msg) : outcome bytes :=
  encode_fuel fmt_float any_inner e (4 * pval_depth (VMsg m) + 4) root m.

(* J5sAst.v — abstract syntax of the j5s schema language, the part that decides the
   protobuf contract (C02/C13): mirrors j5.sourcedef.v1.SourceFile /
   j5.schema.v1.{Object,Oneof,Enum,ObjectProperty,Field} as the BCL front end
   (internal/j5s/j5parse) delivers them to sourcewalk/j5convert.
   Strings are byte lists ([list N], every element < 256).
   Own list types ([props], [nesteds]) are used inside the mutual block so that every
   function over the syntax is a plain structural mutual Fixpoint. *)
From Coq Require Import String Ascii List NArith Bool.
Import ListNotations.
Local Open Scope N_scope.

Definition str := list N.

(* "literal" : string -> byte list *)
Definition b (s : string) : str := map N_of_ascii (list_ascii_of_string s).

Fixpoint str_eqb (x y : str) : bool :=
  match x, y with
  | [], [] => true
  | c :: r, d :: s => (c =? d) && str_eqb r s
  | _, _ => false
  end.

(* bytewise order, as Go compares strings (sort.Strings) *)
Fixpoint str_ltb (x y : str) : bool :=
  match x, y with
  | _, [] => false
  | [], _ :: _ => true
  | c :: r, d :: s => if c <? d then true else if d <? c then false else str_ltb r s
  end.

Fixpoint join (sep : str) (l : list str) : str :=
  match l with
  | [] => []
  | [x] => x
  | x :: r => x ++ sep ++ join sep r
  end.

Fixpoint has_prefix (p s : str) : bool :=
  match p, s with
  | [], _ => true
  | c :: r, d :: t => (c =? d) && has_prefix r t
  | _ :: _, [] => false
  end.
Definition has_suffix (p s : str) : bool := has_prefix (rev p) (rev s).

(* strings.Split(s, sep) for a one-byte separator *)
Fixpoint split_on (sep : N) (s : str) (cur : str) : list str :=
  match s with
  | [] => [rev cur]
  | c :: r => if c =? sep then rev cur :: split_on sep r [] else split_on sep r (c :: cur)
  end.
Definition split (sep : N) (s : str) : list str := split_on sep s [].

(* ------------------------------------------------------------------ field types *)
Inductive ifmt := I32 | I64 | U32 | U64.
Inductive ffmt := F32 | F64.
(* key formats only influence options/imports: none, informal, id62, uuid, custom *)
Inductive kfmt := KNone | KInformal | KId62 | KUuid | KCustom.
Inductive scalar :=
| SString | SBool | SBytes | SInt (f : ifmt) | SFloat (f : ffmt)
| STimestamp | SDate | SDecimal | SKey (f : kfmt) | SAny.

Record ref := mkRef { r_pkg : str; r_name : str }.

(* j5.schema.v1.Enum: options carry a name only (numbers are never written in j5s) *)
Record enum := mkEnum { e_name : str; e_prefix : str; e_opts : list str }.

(* Field / Object / Oneof / ObjectProperty.  A name [] on an inline object/oneof/enum means
   "not given" (the documented default name applies). *)
Inductive field :=
| FScalar (s : scalar)
| FObjRef (r : ref)
| FObjInline (name : str) (ps : props)
| FOneofRef (r : ref)
| FOneofInline (name : str) (ps : props)
| FEnumRef (r : ref)
| FEnumInline (e : enum)
| FArray (item : field)
| FMap (item : field)
with props :=
| PNil
| PCons (p : property) (ps : props)
with property :=
| Property (name : str) (required : bool) (optional : bool) (f : field).

Scheme field_mind := Induction for field Sort Prop
  with props_mind := Induction for props Sort Prop
  with property_mind := Induction for property Sort Prop.
Combined Scheme ast_mutind from field_mind, props_mind, property_mind.

Fixpoint props_list (ps : props) : list property :=
  match ps with PNil => [] | PCons p r => p :: props_list r end.
Fixpoint mkprops (l : list property) : props :=
  match l with [] => PNil | p :: r => PCons p (mkprops r) end.
Fixpoint papp (x y : props) : props :=
  match x with PNil => y | PCons p r => PCons p (papp r y) end.
Fixpoint plen (ps : props) : N :=
  match ps with PNil => 0 | PCons _ r => N.succ (plen r) end.

Definition prop_name (p : property) : str := match p with Property n _ _ _ => n end.
Definition prop_field (p : property) : field := match p with Property _ _ _ f => f end.
Definition prop_required (p : property) : bool := match p with Property _ r _ _ => r end.
Definition prop_optional (p : property) : bool := match p with Property _ _ o _ => o end.

(* j5.sourcedef.v1.{Object,Oneof} wrappers with their explicitly nested schemas *)
Inductive nested :=
| NObject (name : str) (ps : props) (subs : nesteds)
| NOneof (name : str) (ps : props) (subs : nesteds)
| NEnum (e : enum)
with nesteds :=
| NNil
| NCons (n : nested) (ns : nesteds).

Scheme nested_mind := Induction for nested Sort Prop
  with nesteds_mind := Induction for nesteds Sort Prop.
Combined Scheme nested_mutind from nested_mind, nesteds_mind.

Fixpoint nesteds_list (ns : nesteds) : list nested :=
  match ns with NNil => [] | NCons n r => n :: nesteds_list r end.
Fixpoint mknesteds (l : list nested) : nesteds :=
  match l with [] => NNil | n :: r => NCons n (mknesteds r) end.
Fixpoint napp (x y : nesteds) : nesteds :=
  match x with NNil => y | NCons n r => NCons n (napp r y) end.

(* ------------------------------------------------------------------ services, topics *)
Inductive verb := VGet | VPost | VPut | VDelete | VPatch.

Record method := mkMethod {
  m_name : str;
  m_verb : verb;
  m_path : str;                       (* httpPath *)
  m_request : props;
  m_response : option props           (* None: no response block *)
}.

Record service := mkService {
  sv_name : str;
  sv_base : option str;               (* basePath *)
  sv_methods : list method
}.

(* TopicMethod: optional name, fields *)
Record tmsg := mkTmsg { tm_name : option str; tm_fields : props }.

Inductive topic :=
| TPublish (name : str) (msgs : list tmsg)
| TReqRes (name : str) (req : list tmsg) (reply : list tmsg)
| TUpsert (name : str) (entity : str) (msg : tmsg)
| TEvent (name : str) (entity : str) (msg : tmsg).

Inductive element :=
| EObject (name : str) (ps : props) (subs : nesteds)
| EOneof (name : str) (ps : props) (subs : nesteds)
| EEnum (e : enum)
| EService (s : service)
| ETopic (t : topic).

Record import := mkImport { i_path : str; i_alias : str }.

(* one .j5s source file: <dir joined by "/">/<base>.j5s, package = dir joined by "." *)
Record jfile := mkJfile {
  jf_dir : list str;
  jf_base : str;
  jf_imports : list import;
  jf_elements : list element
}.

(* a hand-written .proto file of a local package: its top-level message and enum names, and
   the value names of those enums (they live in the package scope) *)
Record pfile := mkPfile {
  pf_dir : list str;
  pf_base : str;                      (* without ".proto" *)
  pf_msgs : list str;
  pf_enums : list str;
  pf_values : list str
}.

Inductive bfile := BJ (f : jfile) | BP (f : pfile).
Definition bundle := list bfile.

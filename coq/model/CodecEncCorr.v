(* CodecEncCorr.v — correspondence cases for the encoder family (C08, C01): what the
   implementation was observed to do, compared with the model by vm_compute. *)
From Coq Require Import String List NArith ZArith Bool.
From J5V.lib Require Import Outcome Corr Json JsonPrint Base64 Civil Decimal.
From J5V.model Require Import CodecTypes CodecEnc CodecEncDec CodecDecScalar CodecDec CodecEnvDerive CodecFloatInt CodecSharedHolder.
From J5V.proofs Require Import CodecEncDecProofs CodecEncRep.
Import ListNotations.
Local Open Scope N_scope.
Local Open Scope bool_scope.

(* strconv.FormatFloat results observed for the finite floats of one message *)
Fixpoint float_table (tbl : list (bool * N * bytes)) (is32 : bool) (bits : N) : bytes :=
  match tbl with
  | [] => []
  | (b, n, t) :: r => if Bool.eqb b is32 && (n =? bits) then t else float_table r is32 bits
  end.

(* what the real codec answered for the inner message of an Any (type name, payload) *)
Fixpoint inner_table (tbl : list (bytes * bytes * option bytes)) (tn pb : bytes) : outcome bytes :=
  match tbl with
  | [] => Err "no such inner"
  | (t, p, o) :: r =>
      if bytes_eqb t tn && bytes_eqb p pb
      then match o with Some b => Ok b | None => Err "inner" end
      else inner_table r tn pb
  end.

(* JSON trees equal up to the order of object members (member names unique) *)
Fixpoint find_member (k : bytes) (l : list (bytes * jvalue)) : option jvalue :=
  match l with
  | [] => None
  | (k', v) :: r => if bytes_eqb k k' then Some v else find_member k r
  end.

Fixpoint jv_eq_perm (fuel : nat) (a b : jvalue) : bool :=
  match fuel with
  | O => false
  | S f =>
    match a, b with
    | JNull, JNull => true
    | JBool x, JBool y => Bool.eqb x y
    | JNum x, JNum y => bytes_eqb x y
    | JStr x, JStr y => bytes_eqb x y
    | JArr x, JArr y => list_eqb (jv_eq_perm f) x y
    | JObj x, JObj y =>
        (N.of_nat (length x) =? N.of_nat (length y)) &&
        forallb (fun kv => match find_member (fst kv) y with
                           | Some v => jv_eq_perm f (snd kv) v
                           | None => false
                           end) x
    | _, _ => false
    end
  end.

Definition opt_bytes_eqb (a b : option bytes) : bool := option_eqb bytes_eqb a b.

Inductive enc_case :=
(* Codec.ProtoToJSON on message m of the root type of e.  strict: no map with two or more
   entries below m, so the output is determined byte for byte; valid: encoding/json.Valid(out) *)
| CEnc (e : env) (root : bytes) (m : msg)
       (floats : list (bool * N * bytes)) (inner : list (bytes * bytes * option bytes))
       (strict ok : bool) (out : bytes) (valid : bool)
(* appendString through a string field *)
| CEscape (s : bytes) (ok : bool) (out : bytes)
(* strconv.FormatInt / FormatUint and ParseInt(s, 10, 64) on their output and on other strings *)
| CFmtInt (z : Z) (out : bytes)
| CParseInt (s : bytes) (r : option Z)
(* base64.StdEncoding.EncodeToString; byteValueFromString *)
| CB64Enc (bs out : bytes)
| CB64Dec (s : bytes) (r : option bytes)
(* time.Unix(sec, ns).In(UTC).Format(RFC3339Nano) *)
| CTimeFmt (sec ns : Z) (out : bytes)
(* time.Parse(time.RFC3339, s): compared when the modelled fast path accepts *)
| CTimeParse (s : bytes) (r : option (Z * Z))
(* Date.DateString, DateFromString *)
| CDateFmt (y mo d : Z) (out : bytes)
| CDateParse (s : bytes) (r : option (Z * Z * Z))
(* strict_parse against encoding/json.Valid *)
| CValid (s : bytes) (valid : bool)
(* decimal.NewFromString(s) then the exponent bound and String(): what decimalFromString stores *)
| CDecimal (s : bytes) (r : option bytes)
(* Codec.ProtoToJSON then Codec.JSONToProto into a fresh message (default codec).
   pf / pt: strconv.ParseFloat and time.Parse results for the literals of [out];
   back: the decoded message (None: the decoder returned an error) *)
| CRound (e : env) (static : bool) (root : bytes) (m : msg)
         (floats : list (bool * N * bytes)) (inner : list (bytes * bytes * option bytes))
         (pf : list (bytes * (option N * option N))) (pt : list (bytes * (Z * Z)))
         (strict : bool) (out : bytes) (back : option msg) (xcheck : bool)
         (aback : option (list (bytes * bytes * option bytes)))
         (* rep: the harness's statement that (environment, message) satisfy the preconditions of
            C01_full_statement_decided (env_static_b and rep_root_b); the deciders must agree *)
         (rep : bool)
         (* hoist: the harness's statement that the environment has the shared-holder oneof shape (the
            exposed oneof of a flattened object: outside env_static_b) and that the case is inside the
            preconditions of C01_full_statement_decided for the HOISTED environment
            (CodecSharedHolder.hoist_env), on which the models then must reproduce the observed document
            and decoded message *)
         (hoist : bool)
(* the reflector's derivation steps: re is the raw environment of a root type (ObjectSchema.Properties
   with flatten marks, proto enum value names), e the client environment the real reflector built
   (ClientProperties, EnumSchema.Options): CodecEnvDerive.derive_schema recomputes every schema of e *)
| CEnv (re : rawenv) (e : env)
(* strconv on the sub-domain where the float laws are proved of a model (CodecFloatInt): FormatFloat(v,'g',-1,w)
   of an integer-valued float of magnitude < small_bound, and ParseFloat of that text; CFloatOut: a float
   outside the sub-domain, on which the model answers None *)
| CFloatInt (is32 : bool) (bits : N) (txt : bytes) (back : option N)
| CFloatOut (is32 : bool) (bits : N).

Fixpoint table_get {A} (tbl : list (bytes * A)) (k : bytes) : option A :=
  match tbl with
  | [] => None
  | (k', v) :: r => if bytes_eqb k k' then Some v else table_get r k
  end.

(* strconv.ParseFloat results of one document: literal -> (64-bit parse, 32-bit parse) *)
Definition float_parse_table (tbl : list (bytes * (option N * option N))) (is32 : bool) (s : bytes) : option N :=
  match table_get tbl s with
  | Some (b64, b32) => if is32 then b32 else b64
  | None => None
  end.

(* dec's token-level decoder model (model/CodecDec.v) run on the same document, its library
   oracles answered from the same tables and from lib/Decimal.v: the two decoder models must agree *)
Definition dec_oracles (pf : list (bytes * (option N * option N))) (pt : list (bytes * (Z * Z))) : oracles :=
  mkOracles (fun s => match table_get pf s with Some p => p | None => (None, None) end)
            (table_get pt)
            (fun s => match dec_parse s with Some (m, e) => Some (dec_print m e, e) | None => None end).

Definition outcome_msg_agree (a b : outcome msg) (exact : bool) : bool :=
  match a, b with
  | Ok x, Ok y => negb exact || msg_eqb x y
  | Err _, Err _ => true
  | _, _ => false
  end.

Definition zz_eqb (a b : Z * Z) : bool := Z.eqb (fst a) (fst b) && Z.eqb (snd a) (snd b).
Definition zzz_eqb (a b : Z * Z * Z) : bool :=
  Z.eqb (fst (fst a)) (fst (fst b)) && Z.eqb (snd (fst a)) (snd (fst b)) && Z.eqb (snd a) (snd b).
Definition is_some {A} (o : option A) : bool := match o with Some _ => true | None => false end.

(* Codec option WithProtoToAny of a case: None = default codec; Some tbl = the option is on and tbl
   answers (type name, payload text) -> proto bytes (None: the conversion fails) *)
Definition any_back_table (t : option (list (bytes * bytes * option bytes))) : option (bytes -> bytes -> outcome bytes) :=
  match t with
  | None => None
  | Some tbl => Some (inner_table tbl)
  end.

(* every static hypothesis of the round-trip theorem, decided on an environment of the run:
   CodecEncRep.env_static_b (oneofs_flat, oneof_names_ok, env_items_ok, enums_ok, props_ok of every
   property list; soundness env_static_b_sound) *)
Definition env_static_ok (e : env) : bool := env_static_b e.

Definition enc_check (c : enc_case) : bool :=
  match c with
  | CEnc e root m floats inner strict ok out valid =>
      oneofs_flat_b e &&
      (negb ok || Bool.eqb (is_some (strict_parse out)) valid) &&
      match encode (float_table floats) (inner_table inner) e root m with
      | Ok b =>
          ok && (if strict then bytes_eqb b out
                 else match strict_parse b, strict_parse out with
                      | Some x, Some y => jv_eq_perm (S (length out)) x y
                      | None, None => true
                      | _, _ => false
                      end)
      | Err _ => negb ok
      | _ => false
      end
  | CEscape s ok out =>
      match escape s with
      | Ok b => ok && bytes_eqb b out
      | Err _ => negb ok
      | _ => false
      end
  | CFmtInt z out => bytes_eqb (print_Z z) out
  | CParseInt s r =>
      match parse_Z s, r with
      | Some z, Some z' => Z.eqb z z'
      | Some z, None => (z <? -9223372036854775808)%Z || (9223372036854775807 <? z)%Z   (* range error *)
      | None, None => true
      | None, Some _ => false
      end
  | CB64Enc bs out => bytes_eqb (b64_encode bs) out
  | CB64Dec s r => opt_bytes_eqb (b64_lenient s) r
  | CTimeFmt sec ns out => bytes_eqb (format_rfc3339nano sec ns) out
  | CTimeParse s r =>
      match parse_rfc3339 s with
      | Some x => match r with Some y => zz_eqb x y | None => false end
      | None => true
      end
  | CDateFmt y mo d out => bytes_eqb (date_string y mo d) out
  | CDateParse s r => option_eqb zzz_eqb (date_from_string s) r
  | CValid s valid => Bool.eqb (is_some (strict_parse s)) valid
  | CDecimal s r => opt_bytes_eqb (dec_normalise s) r
  | CEnv re e => env_derived_b re e
  | CFloatInt is32 bits txt back =>
      match fmt_small is32 bits with
      | Some t => bytes_eqb t txt && option_eqb N.eqb (parse_small is32 txt) back && option_eqb N.eqb back (Some bits)
      | None => false
      end
  | CFloatOut is32 bits => match fmt_small is32 bits with None => true | Some _ => false end
  | CRound e static root m floats inner pf pt strict out back xcheck aback rep hoist =>
      (* the shared-holder oneof shape: the theorem's deciders on the hoisted environment, and the
         models run on the hoisted environment against the real codec's document and decoded message *)
      (let e' := hoist_env e in
       let pre := negb (env_static_ok e) && env_static_ok e' &&
                  rep_root_b (inner_table inner) print (any_back_table aback) e' (S (pval_depth (VMsg m))) root m in
       let agree := match encode (float_table floats) (inner_table inner) e' root m with
                    | Ok b =>
                        (if strict then bytes_eqb b out
                         else match strict_parse b, strict_parse out with
                              | Some x, Some y => jv_eq_perm (S (length out)) x y
                              | _, _ => false
                              end) &&
                        match decode_text (dec_scalar (float_parse_table pf) (table_get pt)) (any_back_table aback) e' root out, back with
                        | Ok m', Some mb => msg_eqb m' mb
                        | _, _ => false
                        end
                    | _ => false
                    end in
       Bool.eqb (pre && agree) hoist &&
       (* inside the preconditions the models on the hoisted view reproduce the real codec EXACTLY on the
          messages in which every existing holder has a populated member (holders_have_members_b) *)
       (negb pre || negb (is_some back) || Bool.eqb agree (holders_have_members_b e root m))) &&
      (* the harness states whether the environment is inside the theorem's static hypotheses
         (it knows one shape that is not); the decider must agree *)
      Bool.eqb (env_static_ok e) static &&
      (* ... and whether the message is inside the theorem's precondition rep_root (decided by
         rep_root_b, sound: CodecEncRep.rep_root_b_sound) *)
      Bool.eqb (static && rep_root_b (inner_table inner) print (any_back_table aback) e
                            (S (pval_depth (VMsg m))) root m) rep &&
      match encode (float_table floats) (inner_table inner) e root m with
      | Ok b =>
          (if strict then bytes_eqb b out
           else match strict_parse b, strict_parse out with
                | Some x, Some y => jv_eq_perm (S (length out)) x y
                | _, _ => false
                end) &&
          match decode_text (dec_scalar (float_parse_table pf) (table_get pt)) (any_back_table aback) e root out, back with
          | Ok m', Some mb => msg_eqb m' mb
          | Err _, None => true
          | _, _ => false
          end &&
          (* the decoder family's model is the default codec: compared when this case is *)
          match aback with
          | Some _ => true
          | None => outcome_msg_agree (decode_text (dec_scalar (float_parse_table pf) (table_get pt)) None e root out)
                                      (decode_bytes (dec_oracles pf pt) e root out) xcheck
          end
      | _ => false
      end
  end.

(* CodecDecCost.v — the token decoder with a step counter (GENERATED from model/CodecDec.v by tools/gen_cost_model.py: same arms, same order; every entry of decode_present / object_body /
   oneof_body / array_items / map_items / any_body — i.e. every decodeX call and every iteration of a
   body loop of decoder.go — counts one step, on every path, errors included).
   proofs/CodecDecCostProofs.v: the first component is CodecDec's result (the counter changes nothing) and
   the count is at most the number of tokens + 1.  No proofs in this file. *)
From Coq Require Import String List NArith ZArith Bool.
From J5V.lib Require Import Outcome Json.
From J5V.model Require Import CodecTypes CodecDecScalar CodecDec.
Import ListNotations.
Local Open Scope N_scope.
Local Open Scope bool_scope.

Definition cout (A : Type) : Type := (outcome A * nat)%type.
Definition Ok' {A} (a : A) : cout A := (Ok a, 0%nat).
Definition Err' {A} (c : string) : cout A := (Err c, 0%nat).
Definition tick {A} (o : cout A) : cout A := (fst o, S (snd o)).
(* a step that is not counted (one token read, one conversion, one message operation) *)
Definition pbind {A B} (o : outcome A) (k : A -> cout B) : cout B :=
  match o with
  | Ok a => k a
  | Err c => (Err c, 0%nat)
  | Panic s => (Panic s, 0%nat)
  | OutOfFuel => (OutOfFuel, 0%nat)
  end.
Definition cbind {A B} (o : cout A) (k : A -> cout B) : cout B :=
  match fst o with
  | Ok a => let r := k a in (fst r, (snd o + snd r)%nat)
  | Err c => (Err c, snd o)
  | Panic s => (Panic s, snd o)
  | OutOfFuel => (OutOfFuel, snd o)
  end.

Fixpoint with_holder_c {A} (path : list N) (m : msg) (k : N -> msg -> cout (msg * A)) : cout (msg * A) :=
  match path with
  | [] => Err' "Reflection Bug: no proto field"
  | [n] => k n m
  | n :: rest =>
      let '(sub, m1) := msg_mutable [] n m in
      cbind (with_holder_c rest sub k) (fun r => Ok' (msg_put n (VMsg (fst r)) m1, snd r))
  end.

Section DecodeCost.
  Variable orc : oracles.
  Variable e : env.
  Variable more_at_end : bool.
  Notation has_more := (has_more more_at_end).

  Fixpoint any_body_c (fuel : nat) (ts : list token) (value : option (list token)) (ty : option bytes)
    : cout (option (list token) * option bytes * list token) :=
    match fuel with
    | O => (OutOfFuel, 1%nat)
    | S f => tick (
      if has_more ts then
        pbind (next_token ts) (fun kt =>
          match fst kt with
          | TStr key =>
            if bytes_eqb key type_key then
              pbind (next_token (snd kt)) (fun vt =>
                match fst vt with
                | TStr s => any_body_c f (snd vt) value (Some s)
                | _ => Err' "unexpected token, expected string"
                end)
            else
              match value with
              | Some _ => Err' "multiple keys found in Any"
              | None =>
                match split_value (snd kt) with
                | None => Err' "json.Decode(RawMessage)"
                | Some (v, rest, depth) =>
                    if max_scan_depth <? depth then Err' "exceeded max depth"
                    else any_body_c f rest (Some v) ty
                end
              end
          | _ => Err' "unexpected token, expected object key"
          end)
      else Ok' (value, ty, ts))
    end.


  Definition member_with_c (d : N) (dp : list token -> msg -> cout (msg * list token))
             (p : property) (ts : list token) (m : msg) (seen : list bytes)
    : cout (msg * list token * list bytes) :=
    (* decodeValue: dec.depth++ and the nesting bound come before anything is read *)
    if max_nesting_depth <? d + 1 then Err' "exceeded max depth" else
    match ts with
    | [] => Err' "token"
    | TNull :: r => Ok' (m, r, seen)
    | _ =>
      if mem_bytes (p_json p) seen then Err' "field is already set"
      else if oneof_conflict p m then Err' "conflicts with another member of the same proto oneof"
      else cbind (dp ts m) (fun r => Ok' (fst r, snd r, p_json p :: seen))
    end.


  Fixpoint decode_present_c (fuel : nat) (d : N) (p : property) (ts : list token) (m : msg) {struct fuel}
    : cout (msg * list token) :=
    match fuel with
    | O => (OutOfFuel, 1%nat)
    | S f => tick (
      match p_ty p with
      | FScalar k =>
        pbind (next_token ts) (fun tr =>
          if is_delim (fst tr) then Err' "unexpected token, expected scalar"
          else
            pbind (scalar_from_go orc k (goval_of_token (fst tr))) (fun v =>
              pbind (with_holder (p_path p) m (fun n h =>
                       match v with
                       | None => Ok (msg_del n h, tt)                      (* protoPair.setValue: Clear *)
                       | Some x => Ok (msg_set (p_explicit p) (p_siblings p) n x h, tt)
                       end))
                    (fun r => Ok' (fst r, snd tr))))
      | FEnum ref =>
        pbind (next_token ts) (fun tr =>
          match fst tr with
          | TStr s =>
            match lookup e ref with
            | Some (SEnum prefix opts) =>
              match option_by_name prefix opts s with
              | Some z =>
                pbind (with_holder (p_path p) m (fun n h =>
                         Ok (msg_set (p_explicit p) (p_siblings p) n (VEnum z) h, tt)))
                      (fun r => Ok' (fst r, snd tr))
              | None => Err' "enum value not found"
              end
            | _ => Err' "schema"
            end
          | _ => Err' "unexpected token, expected string"
          end)
      | FObject ref =>
        pbind (expect TOpenObj ts) (fun r =>
          match lookup e ref with
          | Some (SObject props) =>
            with_holder_c (p_path p) m (fun n h =>
              let '(sub, h1) := msg_mutable (p_siblings p) n h in
              cbind (object_body_c f d props r sub []) (fun sr =>
                pbind (expect TCloseObj (snd sr)) (fun r2 =>
                  Ok' (msg_put n (VMsg (fst sr)) h1, r2))))
          | _ => Err' "schema"
          end)
      | FOneof ref =>
        pbind (expect TOpenObj ts) (fun r =>
          match lookup e ref with
          | Some (SOneof props) =>
            match p_path p with
            | [] =>
              (* exposed oneof: the inner properties live in the same message *)
              cbind (oneof_body_c f d props r m [] [] None) (fun sr =>
                pbind (expect TCloseObj (snd sr)) (fun r2 => Ok' (fst sr, r2)))
            | path =>
              with_holder_c path m (fun n h =>
                let '(sub, h1) := msg_mutable (p_siblings p) n h in
                cbind (oneof_body_c f d props r sub [] [] None) (fun sr =>
                  pbind (expect TCloseObj (snd sr)) (fun r2 =>
                    Ok' (msg_put n (VMsg (fst sr)) h1, r2))))
            end
          | _ => Err' "schema"
          end)
      | FArray item =>
        pbind (expect TOpenArr ts) (fun r =>
          match item with
          | FScalar _ | FEnum _ | FObject _ | FOneof _ =>
            with_holder_c (p_path p) m (fun n h =>
              let existing := match msg_get n h with Some (VList l) => l | _ => [] end in
              cbind (array_items_c f d item r existing) (fun lr =>
                pbind (expect TCloseArr (snd lr)) (fun r2 =>
                  Ok' (msg_set true (p_siblings p) n (VList (fst lr)) h, r2))))
          | _ => Err' "unsupported array item schema"
          end)
      | FMap item =>
        pbind (expect TOpenObj ts) (fun r =>
          match item with
          | FScalar _ | FEnum _ | FObject _ | FOneof _ =>
            with_holder_c (p_path p) m (fun n h =>
              let existing := match msg_get n h with Some (VMap l) => l | _ => [] end in
              cbind (map_items_c f d item r existing) (fun lr =>
                pbind (expect TCloseObj (snd lr)) (fun r2 =>
                  Ok' (msg_set true (p_siblings p) n (VMap (fst lr)) h, r2))))
          | _ => Err' "unsupported map item schema"
          end)
      | FAny pb =>
        pbind (expect TOpenObj ts) (fun r =>
          with_holder_c (p_path p) m (fun n h =>
            let '(sub, h1) := msg_mutable (p_siblings p) n h in
            cbind (any_body_c f r None None) (fun vr =>
              let '(value, ty, rest) := vr in
              match ty, value with
              | None, _ => Err' "no type found in Any"
              | _, None => Err' "no value found in Any"
              | Some tn, Some v =>
                if pb then Err' "proto is required for PB Any"
                else
                  let sub1 := msg_set false [] 1 (VStr tn) sub in
                  let sub2 := msg_set false [] 3 (VBytes (canon_json v)) sub1 in
                  pbind (expect TCloseObj rest) (fun r2 => Ok' (msg_put n (VMsg sub2) h1, r2))
              end)))
      end)
    end

  (* jsonObjectBody + decodeObjectInner callback *)
  with object_body_c (fuel : nat) (d : N) (props : list property) (ts : list token) (m : msg) (seen : list bytes) {struct fuel}
    : cout (msg * list token) :=
    match fuel with
    | O => (OutOfFuel, 1%nat)
    | S f => tick (
      if has_more ts then
        pbind (next_token ts) (fun kt =>
          match fst kt with
          | TStr key =>
            match find_prop props key with
            | None => Err' "no such field"
            | Some p =>
              cbind (member_with_c d (decode_present_c f (d + 1) p) p (snd kt) m seen) (fun r =>
                let '(m', rest, seen') := r in object_body_c f d props rest m' seen')
            end
          | _ => Err' "unexpected token, expected object key"
          end)
      else Ok' (m, ts))
    end

  (* decodeOneofInner: the body loop, then the post-checks *)
  with oneof_body_c (fuel : nat) (d : N) (props : list property) (ts : list token) (m : msg) (seen : list bytes)
                  (found : list bytes) (constrain : option bytes) {struct fuel}
    : cout (msg * list token) :=
    match fuel with
    | O => (OutOfFuel, 1%nat)
    | S f => tick (
      if has_more ts then
        pbind (next_token ts) (fun kt =>
          match fst kt with
          | TStr key =>
            if bytes_eqb key type_key then
              pbind (next_token (snd kt)) (fun vt =>
                match fst vt with
                | TStr s => oneof_body_c f d props (snd vt) m seen found (Some s)
                | _ => Err' "unexpected token, expected string"
                end)
            else
              match find_prop props key with
              | None => Err' "no such key"
              | Some p =>
                cbind (member_with_c d (decode_present_c f (d + 1) p) p (snd kt) m seen) (fun r =>
                  let '(m', rest, seen') := r in
                  oneof_body_c f d props rest m' seen' (found ++ [key]) constrain)
              end
          | _ => Err' "unexpected token, expected object key"
          end)
      else pbind (oneof_post props m found constrain) (fun m' => Ok' (m', ts)))
    end

  (* the element loop of decodeArrayProperty *)
  with array_items_c (fuel : nat) (d : N) (item : field_ty) (ts : list token) (acc : list pval) {struct fuel}
    : cout (list pval * list token) :=
    match fuel with
    | O => (OutOfFuel, 1%nat)
    | S f => tick (
      if has_more ts then
        match item with
        | FScalar k =>
          pbind (next_token ts) (fun tr =>
            if is_delim (fst tr) then Err' "unexpected token, expected scalar"
            else pbind (append_go_value orc k (fst tr) acc) (fun acc' => array_items_c f d item (snd tr) acc'))
        | FEnum ref =>
          pbind (next_token ts) (fun tr =>
            if is_delim (fst tr) then Err' "unexpected token, expected scalar"
            else
              match fst tr with
              | TStr s =>
                match lookup e ref with
                | Some (SEnum prefix opts) =>
                  match option_by_name prefix opts s with
                  | Some z => pbind (list_append (Some (VEnum z)) acc) (fun acc' => array_items_c f d item (snd tr) acc')
                  | None => Err' "enum value not found"
                  end
                | _ => Err' "schema"
                end
              | _ => Err' "cannot set enum value"
              end)
        | FObject ref =>
          match lookup e ref with
          | Some (SObject props) =>
            pbind (expect TOpenObj ts) (fun r =>
              cbind (object_body_c f d props r [] []) (fun sr =>
                pbind (expect TCloseObj (snd sr)) (fun r2 =>
                  array_items_c f d item r2 (acc ++ [VMsg (fst sr)]))))
          | _ => Err' "schema"
          end
        | FOneof ref =>
          match lookup e ref with
          | Some (SOneof props) =>
            pbind (expect TOpenObj ts) (fun r =>
              cbind (oneof_body_c f d props r [] [] [] None) (fun sr =>
                pbind (expect TCloseObj (snd sr)) (fun r2 =>
                  array_items_c f d item r2 (acc ++ [VMsg (fst sr)]))))
          | _ => Err' "schema"
          end
        | _ => Err' "unknown array schema type"
        end
      else Ok' (acc, ts))
    end

  (* decodeMapField: jsonObjectBody with the per-class callback *)
  with map_items_c (fuel : nat) (d : N) (item : field_ty) (ts : list token) (acc : list (bytes * pval)) {struct fuel}
    : cout (list (bytes * pval) * list token) :=
    match fuel with
    | O => (OutOfFuel, 1%nat)
    | S f => tick (
      if has_more ts then
        pbind (next_token ts) (fun kt =>
          match fst kt with
          | TStr key =>
            match item with
            | FScalar k =>
              match map_get key acc with
              | Some _ => Err' "key already exists in map"
              | None =>
              pbind (next_token (snd kt)) (fun tr =>
                if is_delim (fst tr) then Err' "unexpected token, expected scalar"
                else pbind (map_set_go_value orc k key (fst tr) acc) (fun acc' => map_items_c f d item (snd tr) acc'))
              end
            | FEnum ref =>
              match map_get key acc with
              | Some _ => Err' "key already exists in map"
              | None =>
              pbind (next_token (snd kt)) (fun tr =>
                match fst tr with
                | TStr s =>
                  match lookup e ref with
                  | Some (SEnum prefix opts) =>
                    match option_by_name prefix opts s with
                    | Some z => pbind (map_set_value key (Some (VEnum z)) acc) (fun acc' => map_items_c f d item (snd tr) acc')
                    | None => Err' "enum value not found"
                    end
                  | _ => Err' "schema"
                  end
                | _ => Err' "unexpected token, expected string"
                end)
              end
            | FObject ref =>
              match map_get key acc with
              | Some _ => Err' "key already exists in map"
              | None =>
                match lookup e ref with
                | Some (SObject props) =>
                  pbind (expect TOpenObj (snd kt)) (fun r =>
                    cbind (object_body_c f d props r [] []) (fun sr =>
                      pbind (expect TCloseObj (snd sr)) (fun r2 =>
                        map_items_c f d item r2 (map_set key (VMsg (fst sr)) acc))))
                | _ => Err' "schema"
                end
              end
            | FOneof ref =>
              match map_get key acc with
              | Some _ => Err' "key already exists in map"
              | None =>
                match lookup e ref with
                | Some (SOneof props) =>
                  pbind (expect TOpenObj (snd kt)) (fun r =>
                    cbind (oneof_body_c f d props r [] [] [] None) (fun sr =>
                      pbind (expect TCloseObj (snd sr)) (fun r2 =>
                        map_items_c f d item r2 (map_set key (VMsg (fst sr)) acc))))
                | _ => Err' "schema"
                end
              end
            | _ => Err' "unknown map schema type"
            end
          | _ => Err' "unexpected token, expected object key"
          end)
      else Ok' (acc, ts))
    end.

  Definition decode_tokens_rest_c (fuel : nat) (root : bytes) (ts : list token) : cout (msg * list token) :=
    match lookup e root with
    | Some (SObject props) =>
      pbind (expect TOpenObj ts) (fun r =>
        cbind (object_body_c fuel 0 props r [] []) (fun sr =>
          pbind (expect TCloseObj (snd sr)) (fun r2 => Ok' (fst sr, r2))))
    | Some (SOneof props) =>
      pbind (expect TOpenObj ts) (fun r =>
        cbind (oneof_body_c fuel 0 props r [] [] [] None) (fun sr =>
          pbind (expect TCloseObj (snd sr)) (fun r2 => Ok' (fst sr, r2))))
    | _ => Err' "unsupported root schema type"
    end.
End DecodeCost.

(* JSONToProto with the counter *)
Definition decode_document_c (orc : oracles) (e : env) (root : bytes) (bs : bytes) : cout msg :=
  let '(ts, more_at_end) := lex bs in
  cbind (decode_tokens_rest_c orc e more_at_end (S (length ts)) root ts) (fun mr =>
    pbind (end_of_input (snd mr) (lex_at_eof bs)) (fun _ => Ok' (fst mr))).

(* CodecDecCorr.v — correspondence cases for the decoder family (C06, C03):
   what the implementation was observed to do, checked against the model. *)
From Coq Require Import String List NArith ZArith Bool.
From J5V.lib Require Import Outcome Corr Json.
From J5V.model Require Import CodecTypes CodecDecScalar CodecDec.
Import ListNotations.
Local Open Scope N_scope.

Inductive dec_obs :=
| ObsOk (m : msg)
| ObsErr
| ObsPanic.

Fixpoint assoc {A} (tbl : list (bytes * A)) (k : bytes) : option A :=
  match tbl with
  | [] => None
  | (k', v) :: r => if bytes_eqb k' k then Some v else assoc r k
  end.

(* the library results observed in this run, as oracle functions *)
Definition orc_of (ft : list (bytes * (option N * option N))) (tmt : list (bytes * (Z * Z))) (dt : list (bytes * (bytes * Z))) : oracles :=
  mkOracles (fun s => match assoc ft s with Some r => r | None => (None, None) end) (assoc tmt) (assoc dt).

Inductive deccase :=
(* Decoder.Token run to its first failure on [doc]: tokens, and More() before the failing call *)
| CLex (doc : bytes) (toks : list token) (more_at_end : bool)
(* Codec.JSONToProto(doc, fresh message of type root) *)
| CDec (e : env) (root : bytes) (doc : bytes)
       (ft : list (bytes * (option N * option N))) (tmt : list (bytes * (Z * Z))) (dt : list (bytes * (bytes * Z)))
       (obs : dec_obs).

Definition obs_matches (o : outcome msg) (obs : dec_obs) : bool :=
  match o, obs with
  | Ok m, ObsOk m' => msg_eqb m m'
  | Err _, ObsErr => true
  | Panic _, ObsPanic => true
  | _, _ => false
  end.

Definition dec_check (c : deccase) : bool :=
  match c with
  | CLex doc toks me =>
      let '(ts, me') := lex doc in tokens_eqb ts toks && Bool.eqb me me'
  | CDec e root doc ft tmt dt obs =>
      env_wf e && obs_matches (decode_bytes (orc_of ft tmt dt) e root doc) obs
  end.

(* CodecDecCorr.v — correspondence cases for the decoder family (C06, C03):
   what the implementation was observed to do, checked against the model. *)
From Coq Require Import String List NArith ZArith Bool.
From J5V.lib Require Import Outcome Corr Json.
From J5V.model Require Import CodecTypes CodecDecScalar CodecDec CodecDecQuery CodecDecTree CodecDecTime CodecDecCommute CodecDecFloat.
From J5V.lib Require Decimal.
Import ListNotations.
Local Open Scope N_scope.

Inductive dec_obs :=
| ObsOk (m : msg)
| ObsErr
| ObsPanic.

Fixpoint assoc {A} (tbl : list (bytes * A)) (k : bytes) : option A :=
  match tbl with
  | [] => None
  | (k', v) :: r => if bytes_eqb k' k then Some v else assoc r k
  end.

(* the library results observed in this run, as oracle functions *)
Definition orc_of (ft : list (bytes * (option N * option N))) (tmt : list (bytes * (Z * Z))) (dt : list (bytes * (bytes * Z))) : oracles :=
  mkOracles (fun s => match assoc ft s with Some r => r | None => (None, None) end) (assoc tmt) (assoc dt).

Inductive deccase :=
(* Decoder.Token run to its first failure on [doc]: tokens, and More() before the failing call *)
| CLex (doc : bytes) (toks : list token) (more_at_end : bool)
(* Codec.JSONToProto(doc, fresh message of type root) *)
| CDec (e : env) (root : bytes) (doc : bytes)
       (ft : list (bytes * (option N * option N))) (tmt : list (bytes * (Z * Z))) (dt : list (bytes * (bytes * Z)))
       (obs : dec_obs)
(* Codec.QueryToProto(kvs, fresh message of type root); url.Values is a map, so the order in
   which the keys were visited is unknown: the observation must be what the model says for
   one of the orders *)
| CQuery (e : env) (root : bytes) (kvs : list (bytes * list bytes))
         (ft : list (bytes * (option N * option N))) (tmt : list (bytes * (Z * Z))) (dt : list (bytes * (bytes * Z)))
         (obs : dec_obs)
(* time.Parse(time.RFC3339, s): (t.Unix(), t.Nanosecond()), or None when it returns an error *)
| CTime (s : bytes) (r : option (Z * Z))
(* decimal.NewFromString(s): (d.String(), d.Exponent()), or None when it returns an error; the text
   is only compared when the exponent is within the decoder's bound (writing it out is what the
   bound avoids) *)
| CDecimal (s : bytes) (r : option (bytes * Z))
(* an environment of the run (dumped from the real reflector): well-formed, and satisfying the schema
   conditions of the exactness (env_separate) and member-reordering (env_commute) theorems; checked once
   per environment, the decode cases refer to the same definitions *)
| CEnv (e : env).

Fixpoint insert_all {A} (x : A) (l : list A) : list (list A) :=
  match l with
  | [] => [[x]]
  | y :: r => (x :: l) :: map (cons y) (insert_all x r)
  end.
Fixpoint perms {A} (l : list A) : list (list A) :=
  match l with
  | [] => [[]]
  | x :: r => flat_map (insert_all x) (perms r)
  end.

Definition obs_matches (o : outcome msg) (obs : dec_obs) : bool :=
  match o, obs with
  | Ok m, ObsOk m' => msg_eqb m m'
  | Err _, ObsErr => true
  | Panic _, ObsPanic => true
  | _, _ => false
  end.

Definition time_eqb (a b : option (Z * Z)) : bool :=
  match a, b with
  | Some (x, y), Some (x', y') => (x =? x')%Z && (y =? y')%Z
  | None, None => true
  | _, _ => false
  end.

(* every successful time.Parse of the case is what the model of time.Parse computes *)
Definition time_table_ok (tmt : list (bytes * (Z * Z))) : bool :=
  forallb (fun sr => time_eqb (go_time_parse (fst sr)) (Some (snd sr))) tmt.

(* lib/Decimal.v (enc's model of shopspring/decimal) against one observation *)
Definition decimal_obs_ok (s : bytes) (r : option (bytes * Z)) : bool :=
  match Decimal.dec_parse s, r with
  | None, None => true
  | Some (m, e), Some (c, ex) =>
      (e =? ex)%Z && (if (Z.abs ex <=? max_decimal_exponent)%Z then bytes_eqb c (Decimal.dec_print m e) else true)
  | _, _ => false
  end.

(* every successful decimal.NewFromString of the case is what the model computes *)
Definition decimal_table_ok (dt : list (bytes * (bytes * Z))) : bool :=
  forallb (fun sr => decimal_obs_ok (fst sr) (Some (snd sr))) dt.

Definition dec_check (c : deccase) : bool :=
  match c with
  | CLex doc toks me =>
      let '(ts, me') := lex doc in tokens_eqb ts toks && Bool.eqb me me'
  | CDec e root doc ft tmt dt obs =>
      env_wf e && float_table_ok ft && time_table_ok tmt && decimal_table_ok dt && obs_matches (decode_document (orc_of ft tmt dt) e root doc) obs
  | CQuery e root kvs ft tmt dt obs =>
      env_wf e && float_table_ok ft && time_table_ok tmt && decimal_table_ok dt && existsb (fun p => obs_matches (decode_query (orc_of ft tmt dt) e root p) obs) (perms kvs)
  | CTime s r => time_eqb (go_time_parse s) r
  | CDecimal s r => decimal_obs_ok s r
  | CEnv e => env_wf e && env_separate e && env_commute e
  end.

(* ConcWalk.v — the lock-free part of codec calls ("the walk": everything encode / decode / query-decode run
   outside SchemaCache.Schema) as accesses to SHARED CELLS, read off the go/types census (ConcStateGen.v):
   a cell = a field of a type reachable from a long-lived object (Codec, Reflector, SchemaCache, the schema
   objects) or a package-level variable; the walk of goroutine t READS the fields in lf_read_fields and
   performs every write that the census attributes to a lock-free function (state_writes rows whose function
   is in lockfree_fns, benign targets — a caller's scalar buffer, a protobuf message under construction —
   apart).  The walk takes no lock: between the accesses of two goroutines there is no synchronisation
   event, so under ConcHB.hb (program order only, ConcHBProofs.hb_no_acquire) ANY conflicting pair of walk
   accesses is a data race, and a per-call counter kept on a shared object with atomics is the same pair
   without the race but with a result that depends on the other calls in flight (seeded C10-F).

   No proofs in this file. *)
From Coq Require Import String List Bool.
From J5V.model Require Import Conc ConcSites ConcState.
Import ListNotations.
Local Open Scope string_scope.

Inductive wev :=
| WRead (t : tid) (cell : string)
| WWrite (t : tid) (cell : string) (by_fn kind : string).

Definition wev_tid (e : wev) : tid := match e with WRead t _ | WWrite t _ _ _ => t end.
Definition wev_cell (e : wev) : string := match e with WRead _ c | WWrite _ c _ _ => c end.
Definition wev_is_write (e : wev) : bool := match e with WWrite _ _ _ _ => true | WRead _ _ => false end.

Definition walk_writes (lf : list string) (ws : list write) : list write :=
  filter (fun w => in_strs (w_fn w) lf && negb (is_benign_target (w_target w))) ws.

(* the accesses of the walk of goroutine t (order immaterial: no synchronisation inside) *)
Definition walk_events (t : tid) (lf reads : list string) (ws : list write) : list wev :=
  map (fun f => WRead t ("field:" ++ f)) reads ++
  map (fun w => WWrite t (w_target w) (w_fn w) (snd w)) (walk_writes lf ws).

Definition wconflict (e1 e2 : wev) : Prop :=
  wev_tid e1 <> wev_tid e2 /\ wev_cell e1 = wev_cell e2 /\ (wev_is_write e1 = true \/ wev_is_write e2 = true).

(* RulesRead.v — model of the reader: lib/j5schema/schema_from_proto.go
   messageProperties (list / map / singular branches), buildSchemaProperty,
   buildSchema, buildScalarType, buildFromStringProto, wktSchema,
   buildMessageFieldSchema, buildEnumFieldSchema, commentDescription, and
   ObjectProperty.ToJ5Proto — on the annotations of one compiled field ([fout]).
   The reflected property is expressed in the declaration language ([prop]) plus
   its proto field path. Follows the code at /repo HEAD. No proofs here. *)
From Coq Require Import String List NArith ZArith Bool.
From J5V.lib Require Import Outcome.
From J5V.model Require Import RulesDecl RulesWrite.
From J5V.gen Require Id62Gen.
Import ListNotations.
Local Open Scope N_scope.

Definition larm_eqb (a b : larm) : bool :=
  match a, b with
  | LDouble, LDouble | LFloat, LFloat | LInt32, LInt32 | LInt64, LInt64 | LUint32, LUint32
  | LUint64, LUint64 | LBool, LBool | LStrOpenText, LStrOpenText | LStrFkUnique, LStrFkUnique
  | LStrFkUuid, LStrFkUuid | LStrFkId62, LStrFkId62 | LEnum, LEnum | LOneof, LOneof
  | LTimestamp, LTimestamp | LDate, LDate | LDecimal, LDecimal | LAny, LAny
  | LOtherArm, LOtherArm => true
  | _, _ => false
  end.
Definition ikind_eqb (a b : ikind) : bool :=
  match a, b with I32, I32 | I64, I64 | U32, U32 | U64, U64 => true | _, _ => false end.

(* ext.list.Get<Arm>() *)
Definition get_list (a : larm) (l : option (larm * lpay)) : option lpay :=
  match l with
  | Some (a', p) => if larm_eqb a a' then Some p else None
  | None => None
  end.

(* int64(cType.Lt) for the unsigned 64-bit rules *)
Definition to_i64 (k : ikind) (z : Z) : Z :=
  match k with U64 => wrap_signed 64 z | _ => z end.

Definition read_int_rules (k : ikind) (t : option tyc) : option int_rules :=
  match t with
  | Some (CInt k' ub lb) =>
      if ikind_eqb k k'
      then Some (IR (match lb with NoLb => None | Gt z | Gte z => Some (to_i64 k z) end)
                    (match ub with NoUb => None | Lt z | Lte z => Some (to_i64 k z) end)
                    (match lb with Gt _ => Some true | _ => None end)
                    (match ub with Lt _ => Some true | _ => None end))
      else None
  | _ => None
  end.

(* ---- enum: numbers back to option names ---------------------------------- *)
Fixpoint strip_prefix (p s : str) : str :=
  match p, s with
  | [], _ => s
  | x :: r, y :: t => if N.eqb x y then strip_prefix r t else y :: t
  | _ :: _, [] => []
  end.
(* strings.TrimPrefix *)
Definition trim_prefix (p s : str) : str := if has_prefix p s then strip_prefix p s else s.

Definition unspecified : str := [85;78;83;80;69;67;73;70;73;69;68].  (* "UNSPECIFIED" *)

(* EnumSchema.OptionByNumber(n).name: value names with the prefix trimmed *)
Definition short_name (env : enum_env) (n : Z) : option str :=
  if Z.eqb n 0%Z then Some unspecified
  else if (Z.leb 1%Z n) && (Z.leb n (Z.of_nat (length (ee_options env))))
  then match nth_error (ee_options env) (Z.to_nat (n - 1)%Z) with
       | Some o => Some (trim_prefix (ee_prefix env) (with_prefix env o))
       | None => None
       end
  else None.

(* an explicit zero option is spelled UNSPECIFIED or <prefix>UNSPECIFIED (the
   reader derives the enum's prefix from the name of value 0; with another name
   ending in UNSPECIFIED every reflected option name changes: known finding) *)
Definition zero_std (env : enum_env) : bool :=
  match ee_zero env with
  | Some z => str_eqb (with_prefix env z) (ee_prefix env ++ unspecified)%list
  | None => true
  end.

Fixpoint names_in (env : enum_env) (ns : list Z) : outcome (list str) :=
  match ns with
  | [] => Ok []
  | n :: r => match short_name env n with
              | None => Err "enum value not found"
              | Some s => obind (names_in env r) (fun l => Ok (s :: l))
              end
  end.
(* not_in: an unknown 0 is skipped (never unknown here: UNSPECIFIED is an option) *)
Fixpoint names_notin (env : enum_env) (ns : list Z) : outcome (list str) :=
  match ns with
  | [] => Ok []
  | n :: r => match short_name env n with
              | None => if Z.eqb n 0%Z then names_notin env r else Err "enum value not found"
              | Some s => obind (names_notin env r) (fun l => Ok (s :: l))
              end
  end.

(* ---- buildFromStringProto ------------------------------------------------- *)
Inductive sfmt := SfUuid | SfId62 | SfNatural | SfDate | SfNumber.

Definition fmt_date : str := [100;97;116;101].              (* "date" *)
Definition fmt_number : str := [110;117;109;98;101;114].    (* "number" *)

Definition date_pattern : str := [94;92;100;123;52;125;45;92;100;123;50;125;45;92;100;123;50;125;36].   (* ^\d{4}-\d{2}-\d{2}$ *)
Definition number_pattern : str := [94;92;100;40;46;63;92;100;41;63;36].                                  (* ^\d(.?\d)?$ *)

Definition read_string (vt : option tyc) (lst : option (larm * lpay)) (j5 : option j5ext) (key : option keyext)
  : outcome fty :=
  (* validate part *)
  obind (match vt with
         | None => Ok (None, None, false)
         | Some (CStr mn mx pat uuid) =>
             (* wellKnownStringPatterns: the pattern becomes a format and is dropped from the rules;
                the uuid well-known rule then overwrites the format *)
             let wk := match pat with
                       | Some p => if str_eqb p date_pattern then Some SfDate
                                   else if str_eqb p number_pattern then Some SfNumber
                                   else if str_eqb p Id62Gen.pattern_string then Some SfId62
                                   else None
                       | None => None
                       end in
             Ok (Some (SR (if is_some wk then None else pat) mn mx),
                 (if uuid then Some SfUuid else wk),
                 uuid)
         | Some _ => Err "constraint for string is not a string constraint"
         end)
    (fun v =>
       let '(rules, fmt0, key0) := v in
       (* list part: foreign key arms *)
       obind (match lst with
              | Some (LStrFkUnique, p) =>
                  match fmt0 with
                  | Some _ => Err "string format is not compatible with list.unique_string"
                  | None => Ok (Some p, Some SfNatural)
                  end
              | Some (LStrFkId62, p) =>
                  match fmt0 with
                  | Some SfId62 | None => Ok (Some p, Some SfId62)
                  | Some _ => Err "string format is not compatible with list.id62"
                  end
              | Some (LStrFkUuid, p) =>
                  match fmt0 with
                  | Some SfUuid | None => Ok (Some p, Some SfUuid)
                  | Some _ => Err "string format is not compatible with list.uuid"
                  end
              | _ => Ok (None, fmt0)
              end)
         (fun fk =>
            let '(fkrules, fmt) := fk in
            let open_text := get_list LStrOpenText lst in
            match open_text, fmt, key with
            | Some _, Some _, _ => Err "open_text and format do not match"
            | Some _, None, Some _ => Err "open_text and key constraint do not match"
            | _, _, _ =>
                let looks_like_key :=
                  key0 || is_some fkrules || is_some key
                  || match fmt with Some SfId62 => true | _ => false end
                  || match j5 with Some (XKey _) => true | _ => false end in
                if negb looks_like_key
                then Ok (TStr (match fmt with
                               | Some SfDate => Some fmt_date
                               | Some SfNumber => Some fmt_number
                               | _ => None          (* uuid / id62 / natural_key look like keys *)
                               end) rules open_text)
                else Ok (TKey (match fmt with
                               | Some SfUuid => Some KUuid
                               | Some SfId62 => Some KId62
                               (* natural_key yields to a format the key annotation states (fix 240b498) *)
                               | Some SfNatural => match j5 with Some (XKey (Some f)) => Some f | _ => Some KInformal end
                               (* otherwise what the key annotation says *)
                               | Some SfDate | Some SfNumber | None => match j5 with Some (XKey f) => f | _ => None end
                               end)
                              (match key with
                               | Some k =>
                                   Some (EK (if kx_primary k then Some (EPrimary true)
                                             else match kx_foreign k with
                                                  | Some (p, e) => Some (EForeign p e)
                                                  | None => None
                                                  end)
                                            (kx_tenant k))
                               | None => None
                               end)
                              fkrules)
            end)).

(* the schema name of a message: its path inside the package with '.' replaced by '_'
   (a message Foo.Bar nested in Foo is the schema Foo_Bar) *)
Definition under (n : str) : str := map (fun c => if c =? 46 then 95 else c) n.

(* ---- buildSchema: one field type from its annotations ---------------------- *)
Definition read_field (env : enum_env) (k : pkind) (vt : option tyc) (lst : option (larm * lpay))
           (j5 : option j5ext) (key : option keyext) : outcome fty :=
  match k with
  | KdString => read_string vt lst j5 key
  | KdBool =>
      Ok (TBool (match vt with Some (CBool (Some c)) => Some (Some c) | _ => None end) (get_list LBool lst))
  | KdInt32 => Ok (TInt I32 (read_int_rules I32 vt) (get_list LInt32 lst))
  | KdInt64 => Ok (TInt I64 (read_int_rules I64 vt) (get_list LInt64 lst))
  | KdUint32 => Ok (TInt U32 (read_int_rules U32 vt) (get_list LUint32 lst))
  | KdUint64 => Ok (TInt U64 (read_int_rules U64 vt) (get_list LUint64 lst))
  | KdFloat => Ok (TFloat false false (get_list LFloat lst))
  | KdDouble => Ok (TFloat true false (get_list LDouble lst))
  | KdBytes =>
      Ok (TBytes (Some (match vt with Some (CBytes mn mx) => LR mn mx | _ => LR None None end)))
  | KdEnum =>
      obind (match vt with
             | Some (CEnum _ cin cnotin) =>
                 obind (names_in env cin) (fun i =>
                 obind (names_notin env cnotin) (fun n => Ok (Some (ER i n))))
             | _ => Ok None
             end)
        (fun r => Ok (TEnum r (get_list LEnum lst)))
  | KdTimestamp =>
      (* wktSchema: lt / lte / gt / gte back into maximum / minimum + exclusive flags *)
      Ok (TTimestamp (match vt with
                      | Some (CTimestamp ub lb) =>
                          Some (TSR (match lb with NoLb => None | Gt z | Gte z => Some z end)
                                    (match ub with NoUb => None | Lt z | Lte z => Some z end)
                                    (match lb with Gt _ => Some true | _ => None end)
                                    (match ub with Lt _ => Some true | _ => None end))
                      | _ => None
                      end)
                     (get_list LTimestamp lst))
  | KdDate =>
      Ok (TDate (match j5 with Some (XDate r) => r | _ => None end) (get_list LDate lst))
  | KdDecimal =>
      Ok (TDecimal (match j5 with Some (XDecimal r) => r | _ => None end) (get_list LDecimal lst))
  | KdAny =>
      match j5 with
      | Some (XAny od ts) => Ok (TAny od ts (get_list LAny lst))
      | _ => Ok (TAny false [] (get_list LAny lst))
      end
  (* buildMessageFieldSchema: (buf.validate.field) is not looked at for objects and oneofs *)
  | KdMsgObject n => Ok (TObject (under n) (match j5 with Some (XObject fl) => fl | _ => false end) None)
  | KdMsgOneof n => Ok (TOneof (under n) false (get_list LOneof lst))
  | KdMapEntry _ | KdOther => Err "field kind outside the model"
  end.

(* ---- commentDescription / buildComment ------------------------------------- *)
Definition is_space (c : N) : bool :=
  N.eqb c 32 || N.eqb c 9 || N.eqb c 10 || N.eqb c 13 || N.eqb c 11 || N.eqb c 12.
Fixpoint trim_left (s : str) : str :=
  match s with c :: r => if is_space c then trim_left r else s | [] => [] end.
Definition trim (s : str) : str := rev (trim_left (rev (trim_left s))).

Fixpoint split_lines (s : str) (cur : str) : list str :=
  match s with
  | [] => [rev cur]
  | c :: r => if N.eqb c 10 then rev cur :: split_lines r [] else split_lines r (c :: cur)
  end.
Fixpoint join_lines (l : list str) : str :=
  match l with
  | [] => []
  | [x] => x
  | x :: r => (x ++ [10] ++ join_lines r)%list
  end.
(* appendCommentLines: the lines of the comment block trimmed; lines beginning
   with '#' skipped; blank lines are kept between two lines of the block
   (paragraph breaks) and dropped at either end of it *)
Fixpoint drop_blank (l : list str) : list str :=
  match l with [] :: r => drop_blank r | _ => l end.
Definition strip_blank_ends (l : list str) : list str := rev (drop_blank (rev (drop_blank l))).
Definition clean_desc (d : str) : str :=
  match d with
  | [] => []
  | _ =>
      join_lines
        (strip_blank_ends
           (filter (fun l => match l with [] => true | c :: _ => negb (N.eqb c 35) end)
                   (map trim (split_lines d []))))
  end.

(* an item / value constraint without a type is "no type constraint" (ext.validate.Type == nil) *)
Definition strip_empty (vt : option tyc) : option tyc :=
  match vt with Some CEmpty => None | v => v end.

(* ---- messageProperties: one property ---------------------------------------- *)
Record rprop := RP { rp_prop : prop; rp_path : list N }.

Definition read_prop (env : enum_env) (o : fout) : outcome rprop :=
  let vt := match fo_val o with Some c => c_ty c | None => None end in
  let req := match fo_val o with Some c => c_req c | None => false end in
  let mk (r opt : bool) (t : pty) :=
      RP (P (fo_json o) r opt t (clean_desc (fo_desc o))) [fo_number o] in
  match fo_kind o with
  | KdMapEntry vk =>
      (* map branch: rules and value constraints from (buf.validate.field).map,
         no list rules and no (j5.ext.v1.field) for the values; the key annotation
         is read from the value field *)
      let '(rules, values) :=
          match vt with
          | Some (CMap mn mx v) => (Some (MR mn mx), v)
          | _ => (None, None)
          end in
      obind (read_field env vk (strip_empty values) None None (fo_key o)) (fun t => Ok (mk req false (PMap rules t)))
  | k =>
      if fo_rep o
      then
        (* list branch: item constraints from repeated.items, list rules of the
           field, no (j5.ext.v1.field) for the items *)
        let '(rules, items) :=
            match vt with
            | Some (CRep mn mx uq it) => (Some (AR mn mx uq), it)
            | _ => (None, None)
            end in
        obind (read_field env k (strip_empty items) (fo_list o) None (fo_key o))
          (fun t => Ok (mk req false
                          (PArray rules (match fo_ext o with Some (XArray sf) => sf | _ => None end) t)))
      else
        obind (read_field env k vt (fo_list o) (fo_ext o) (fo_key o))
          (fun t => Ok (mk req (negb req && fo_opt o) (PSingle t)))
  end.

Fixpoint read_object (env : enum_env) (os : list fout) : outcome (list rprop) :=
  match os with
  | [] => Ok []
  | o :: r => obind (read_prop env o) (fun p => obind (read_object env r) (fun ps => Ok (p :: ps)))
  end.

(* ---- the schema a declaration denotes (what reading back must yield) ------- *)
(* representation-only differences are normalised away:
   exclusive flags that are false or have no bound; absent enum / bytes rules
   (read back as empty rules); absent array / map rules when the items carry a
   constraint (read back as empty rules); enum option names in short form; a
   primary key is required; primaryKey = false is the same as no entity type.
   Descriptions are NOT normalised. *)
Definition norm_int (r : int_rules) : int_rules :=
  IR (ir_min r) (ir_max r)
     (if is_some (ir_min r) && is_true (ir_xmin r) then Some true else None)
     (if is_some (ir_max r) && is_true (ir_xmax r) then Some true else None).

Definition norm_ts (r : ts_rules) : ts_rules :=
  TSR (tsr_min r) (tsr_max r)
      (if is_some (tsr_min r) && is_true (tsr_xmin r) then Some true else None)
      (if is_some (tsr_max r) && is_true (tsr_xmax r) then Some true else None).

Definition short (env : enum_env) (name : str) : str :=
  trim_prefix (ee_prefix env) (with_prefix env name).

Definition norm_entity (e : entity_key) : entity_key :=
  EK (match ek_type e with Some (EPrimary false) => None | t => t end) (ek_tenant e).

Definition norm_fty (env : enum_env) (t : fty) : fty :=
  match t with
  | TInt k r l => TInt k (match r with Some r => Some (norm_int r) | None => None end) l
  | TBytes r => TBytes (Some (match r with Some r => r | None => LR None None end))
  | TBool r l => TBool (match r with Some (Some c) => Some (Some c) | _ => None end) l
  | TEnum r l =>
      TEnum (Some (match r with
                   | Some r => ER (map (short env) (er_in r)) (map (short env) (er_notin r))
                   | None => ER [] []
                   end)) l
  | TKey f e l => TKey f (match e with Some e => Some (norm_entity e) | None => None end) l
  | TTimestamp r l => TTimestamp (match r with Some r => Some (norm_ts r) | None => None end) l
  (* rules messages without content: present = absent *)
  | TObject n fl r => TObject (under n) fl (match r with Some (OBR None None) => None | _ => r end)
  | TOneof n _ l => TOneof (under n) false l
  | t => t
  end.

(* does the declared item type carry a validation constraint of its own?
   (from the declaration alone: rules present, an enum, a formatted key) *)
Definition items_constrained (t : fty) : bool :=
  match t with
  | TInt _ (Some _) _ | TStr _ (Some _) _ | TBytes (Some _) | TBool (Some _) _ => true
  | TEnum _ _ => true
  | TKey (Some _) _ _ => true
  | TTimestamp (Some _) _ | TObject _ _ (Some _) | TOneof _ true _ => true
  | _ => false
  end.

(* computed from the declaration alone (no writer function is called) *)
Definition norm_prop (env : enum_env) (idx : N) (d : prop) : rprop :=
  let t := match p_ty d with PSingle t | PArray _ _ t | PMap _ t => t end in
  RP (P (p_name d) (p_req d || match p_ty d with PMap _ _ => false | _ => is_primary_ty t end) (p_opt d)
        (match p_ty d with
         | PSingle t => PSingle (norm_fty env t)
         | PArray r sf t =>
             (* absent array rules equal empty ones when the items are constrained *)
             PArray (match r with
                     | Some r => Some r
                     | None => if items_constrained t then Some (AR None None None) else None
                     end) sf (norm_fty env t)
         | PMap r t =>
             PMap (match r with
                   | Some r => Some r
                   | None => if items_constrained t then Some (MR None None) else None
                   end) (norm_fty env t)
         end)
        (p_desc d))               (* the description as declared *)
     [(idx + 1)%N].

(* ---- the fragment of declarations every component of which the annotations carry ---- *)
(* (proved exact in proofs/RulesReadProofs.v: a compiled property reads back as
   declared iff rt_ok holds) *)
(* the description survives commentDescription unchanged: no line starts with
   '#', none has leading / trailing blanks, the first and the last line are not
   empty (blank lines in between are paragraph breaks and survive) *)
Definition desc_plain (d : str) : bool := str_eqb (clean_desc d) d.

Definition pat_plain (p : option str) : bool :=
  match p with
  | Some p => negb (str_eqb p date_pattern) && negb (str_eqb p number_pattern)
              && negb (str_eqb p Id62Gen.pattern_string)
  | None => true
  end.

Inductive mode := MSingle | MArray | MMap.

(* the declarations whose every component is carried by the annotations *)
Definition no_list (t : fty) : bool :=
  match t with
  | TInt _ _ None | TStr _ _ None | TBytes _ | TBool _ None | TEnum _ None | TKey _ _ None
  | TFloat _ _ None | TDate _ None | TDecimal _ None | TTimestamp _ None | TAny _ _ None
  | TObject _ _ _ | TOneof _ _ None => true
  | _ => false
  end.

Definition rt_fty (m : mode) (t : fty) : bool :=
  (* list rules of map values are not read back *)
  (match m with MMap => no_list t | _ => true end) &&
  match m, t with
  | _, TTimestamp (Some r) _ => negb (is_some (tsr_min r)) && negb (is_some (tsr_max r))   (* bounds are not written *)
  | _, TObject _ _ (Some r) =>                 (* minProperties / maxProperties are not written *)
      negb (is_some (obr_min r)) && negb (is_some (obr_max r))
      && match m, t with MSingle, _ => true | _, TObject _ true _ => false | _, _ => true end
  | _, TStr (Some _) _ _ => false            (* StringField.format is not written *)
  | _, TStr None (Some r) _ => pat_plain (sr_pat r)
  | _, TKey None e l =>
      (* without a format the key is recognised by its annotations only; list
         rules of an unformatted key make it read back as informal *)
      match l with Some _ => false | None => match m with MSingle => true | _ => is_some e end end
  | _, TKey (Some KUuid) _ _ | _, TKey (Some KId62) _ _ => true
  (* custom pattern / informal live in (j5.ext.v1.field).key, which array items and map values do not have *)
  | MSingle, TKey (Some KInformal) _ _ => true
  (* ... but list rules (a unique_string foreign key, read as natural_key = informal) identify an informal key item *)
  | MArray, TKey (Some KInformal) _ (Some _) => true
  (* the custom pattern is also written as the validation pattern: the reader's well-known id62
     pattern turns the key into key:id62; with list rules (a unique_string foreign key) any
     well-known pattern makes the reader fail *)
  | MSingle, TKey (Some (KCustom p)) _ l =>
      negb (str_eqb p Id62Gen.pattern_string)
      && (negb (is_some l) || (negb (str_eqb p date_pattern) && negb (str_eqb p number_pattern)))
  | _, TKey (Some _) _ _ => false
  | MSingle, _ => true
  (* inside an array or a map there is no (j5.ext.v1.field) of the item *)
  | _, TDate (Some _) _ | _, TDecimal (Some _) _ => false
  | _, TObject _ true _ => false
  | _, TAny od ts _ => negb od && match ts with [] => true | _ => false end
  | _, _ => true
  end.

Definition rt_ok (d : prop) : bool :=
  desc_plain (p_desc d) &&
  match p_ty d with
  | PSingle t => rt_fty MSingle t
  (* explicitlyOptional is read for singular properties only *)
  | PArray _ _ t => rt_fty MArray t && negb (p_opt d)
  | PMap _ t => rt_fty MMap t && negb (p_opt d)
  end.


(* what the reader looks at: everything but the field's presence and its proto name *)
Definition c04_proj (o : fout) : fout :=
  FO (fo_json o) [] (fo_number o) (fo_kind o) (fo_rep o) (fo_opt o) false (fo_val o)
     (fo_ext o) (fo_list o) (fo_key o) (fo_desc o).

(* ---- root schemas: an object or a oneof with its name, description and properties ---- *)
(* visitObjectNode / visitOneofNode: the message carries (j5.ext.v1.message).object / .oneof
   and the description as its leading comment; buildObjectSchema / buildOneofSchema +
   isOneofWrapper read the kind from that option, the description through commentDescription *)
Inductive rkind := RObject | ROneof.
Record root_decl := RD { rd_kind : rkind; rd_name : str; rd_desc : str; rd_props : list prop }.
Record root_out := RO { ro_name : str; ro_comment : str; ro_msgopt : option rkind; ro_fields : list fout }.
Record rroot := RR { rr_kind : rkind; rr_name : str; rr_desc : str; rr_props : list rprop }.

Definition write_root (env : enum_env) (d : root_decl) : outcome root_out :=
  obind (write_object env (rd_props d))
        (fun os => Ok (RO (rd_name d) (rd_desc d) (Some (rd_kind d)) os)).

Definition read_root (env : enum_env) (o : root_out) : outcome rroot :=
  match ro_msgopt o with
  | Some k => obind (read_object env (ro_fields o))
                    (fun ps => Ok (RR k (ro_name o) (clean_desc (ro_comment o)) ps))
  | None => Err "message without (j5.ext.v1.message).object / .oneof: outside the model"
  end.

(* the fragment at root level: the description survives commentDescription, the properties lie in rt_ok *)
Definition rt_root (d : root_decl) : bool := desc_plain (rd_desc d) && forallb rt_ok (rd_props d).

(* the declared schema of an object's properties / of a root schema, from the declaration alone *)
Fixpoint norm_props_from (env : enum_env) (idx : N) (ds : list prop) : list rprop :=
  match ds with
  | [] => []
  | d :: r => norm_prop env idx d :: norm_props_from env (idx + 1)%N r
  end.
Definition norm_object (env : enum_env) (ds : list prop) : list rprop := norm_props_from env 0%N ds.
Definition norm_root (env : enum_env) (d : root_decl) : rroot :=
  RR (rd_kind d) (rd_name d) (rd_desc d) (norm_object env (rd_props d)).

(* ConcStatement.v — property C10 stated over the machine of Conc.v / ConcRace.v, for a
   locking discipline d.  No proofs in this file. *)
From Coq Require Import List NArith Bool Arith.
From J5V.model Require Import Conc ConcRace.
Import ListNotations.

(* logic level: for every type universe (cyclic or not, with or without types that cannot
   be reflected), every list of calls per thread (any number of threads; the calls are on
   types, [calls_ok]), every depth of observation —
   under every schedule the completed calls returned their solo results, and while a call
   is outstanding some thread that is not blocked (it is not queued on the lock, or the lock is free: can_step)
   can take a state-changing step (no deadlock — queueing behind the lock does not count as progress);
   every weakly fair schedule (rounds, each scheduling every thread at least once; this is
   the ONLY assumption on the scheduler, and none is made on the order in which sc.mu is
   granted: a released lock goes to whichever blocked or arriving thread runs next) of
   fuel_bound rounds completes all calls with their solo results;
   and beyond the shape of the results: all calls on a type are handed the same schema
   object, and an object that has been handed out unfolds to its type at every depth at every
   later point of the run (completely linked, never modified again) *)
Definition C10_logic_statement (d : disc) : Prop :=
  forall k g calls, calls_ok calls ->
    (forall sched t, exists j, nth t (results (run d k g calls sched)) [] =
                               map (result_solo k g) (firstn j (nth t calls []))) /\
    (forall sched, all_done (run d k g calls sched) = false ->
       exists t, t < length calls /\ can_step (run d k g calls sched) t /\
                 gstep d k g t (run d k g calls sched) <> run d k g calls sched) /\
    (forall rounds, weakly_fair (length calls) rounds -> fuel_bound g calls <= length rounds ->
       all_done (run d k g calls (concat rounds)) = true /\
       results (run d k g calls (concat rounds)) = map (map (result_solo k g)) calls) /\
    (forall sched t1 t2 n c1 c2,
       In (t1, n, c1) (rets d k g calls sched) -> In (t2, n, c2) (rets d k g calls sched) -> c1 = c2) /\
    (forall sched t n c, In (t, n, c) (rets d k g calls sched) ->
       forall later dd, unfold dd (heap (s_sh (run d k g calls (sched ++ later)))) c = gunfold dd g n).

(* memory level: the accesses of any run — to sc.packages, to the Schemas map of every package
   (for every assignment pk of type names to packages), to SchemaCache.registered,
   to the To field of every RefSchema, inside Schema and by the callers that walk the
   returned schema afterwards — are free of data races under happens-before = program
   order + "Unlock is synchronized before a later Lock" (the Go memory model's rule for
   sync.Mutex), and every To field is written once *)
Definition C10_memory_statement (d : disc) : Prop :=
  forall pk k g calls sched, calls_ok calls ->
    race_free (events d pk k g calls sched) /\ write_once (events d pk k g calls sched).

Definition C10_full_statement (d : disc) : Prop := C10_logic_statement d /\ C10_memory_statement d.

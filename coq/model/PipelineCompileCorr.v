(* PipelineCompileCorr.v — correspondence for the compiler side of C16: what compile_image (with the model
   of iancoleman/strcase ToSnake, lib/Strcase.v) says the compiler emits for a declared package, against
   the image abstracted from the descriptors the real compiler produced for that package
   (compile -> PrintFile -> ReadFSImage).
   One case = the declaration the generator wrote as j5s (services, methods, verbs, full paths, request and
   response property names; publish topics) and the observed image. *)
From Coq Require Import String List NArith Bool.
From J5V.lib Require Import Outcome Corr Strcase.
From J5V.model Require Import Pipeline PipelineCompile PipelineValid.
Import ListNotations.
Local Open Scope N_scope.
Local Open Scope bool_scope.

Definition field_names_eqb (a b : field_names) : bool :=
  str_eqb (f_proto a) (f_proto b) && str_eqb (f_json a) (f_json b).

Definition http_eqb (a b : option (N * str)) : bool :=
  match a, b with
  | None, None => true
  | Some (v, p), Some (w, q) => (v =? w) && str_eqb p q
  | _, _ => false
  end.

(* the output type: google.api.HttpBody, google.protobuf.Empty, or a message of the package (the model
   does not carry the package in md_out_full) *)
Definition out_class (full : str) : N :=
  if str_eqb full HTTPBODY then 1 else if str_eqb full EMPTY then 2 else 0.

(* fields: compare the input fields too (service methods; a topic declaration of the model carries the
   message names only) *)
Definition meth_desc_eqb (fields : bool) (a b : meth_desc) : bool :=
  str_eqb (md_name a) (md_name b) && Bool.eqb (md_in_same_pkg a) (md_in_same_pkg b)
  && str_eqb (md_in_name a) (md_in_name b) && str_eqb (md_out_name a) (md_out_name b)
  && (out_class (md_out_full a) =? out_class (md_out_full b))
  && http_eqb (md_http a) (md_http b)
  && (negb fields || list_eqb field_names_eqb (md_in_fields a) (md_in_fields b)).

Definition svc_desc_eqb (fields : bool) (a b : svc_desc) : bool :=
  str_eqb (sd_sub a) (sd_sub b) && str_eqb (sd_name a) (sd_name b)
  && list_eqb (meth_desc_eqb fields) (sd_methods a) (sd_methods b).

(* the request / response object of a method: present under the key the model says, with the declared
   property names in order *)
Fixpoint fty_eqb (a b : fty) : bool :=
  match a, b with
  | TScalar x, TScalar y => String.eqb x y
  | TRef x k, TRef y l => String.eqb x y && key_eqb k l
  | TArray x, TArray y | TMap x, TMap y => fty_eqb x y
  | _, _ => false
  end.

(* names AND types: the declared types are translated from the j5s source by the harness (declFTy), only types
   declared in place fall back to the observed ones *)
Definition method_schema_ok (obs : env) (ks : key * schema) : bool :=
  match lookup obs (fst ks), snd ks with
  | Some (SObject ps), SObject qs =>
      list_eqb str_eqb (map p_json qs) (map p_json ps) && list_eqb fty_eqb (map p_ty qs) (map p_ty ps)
  | _, _ => false
  end.

(* extra: the package has an entity or a non-publish topic, which add services (and request / response
   objects) of their own; awkward: the generator used property names outside the classes for which ToSnake is
   injective (fooID, HTTPServer).
   P carries the declared names; property types and the other schemas are those of the observed source API. *)
Inductive c16compile := CCompile (P : decl_package) (extra awkward : bool) (im : image).

Definition keys_of (g : env) : list key := map fst g.
Definition keys_same (a b : list key) : bool :=
  forallb (fun k => mem_key k b) a && forallb (fun k => mem_key k a) b.

(* a declared schema (built from the j5s declaration by the harness where its types translate) is the observed one:
   same kind, same property names and types in order *)
Definition props_eqb (qs ps : list prop) : bool :=
  list_eqb str_eqb (map p_json qs) (map p_json ps) && list_eqb fty_eqb (map p_ty qs) (map p_ty ps).

Definition declared_schema_ok (obs : env) (ks : key * schema) : bool :=
  match lookup obs (fst ks), snd ks with
  | Some (SObject ps), SObject qs | Some (SOneof ps), SOneof qs => props_eqb qs ps
  | Some SEnum, SEnum => true
  | _, _ => false
  end.

Definition c16_compile_check (c : c16compile) : bool :=
  match c with
  | CCompile P extra awkward im =>
      let ci := compile_image to_snake P in
      (* the package the compiler accepted is inside the hypotheses of C16_full *)
      (extra || awkward || valid_package_b to_snake P)
      (* the schema set: the request / response objects the model adds and nothing else *)
      && (extra || keys_same (keys_of (im_schemas ci)) (keys_of (im_schemas im))) &&
      str_eqb (im_pkg ci) (im_pkg im)
      && forallb (fun s => existsb (svc_desc_eqb (negb (str_eqb (sd_sub s) (bytes_of "topic"))) s) (im_services im))
                 (im_services ci)
      && (extra || Nat.eqb (length (im_services ci)) (length (im_services im)))
      && forallb (method_schema_ok (im_schemas im)) (flat_map (method_schemas (dp_pkg P)) (all_methods P))
      && forallb (declared_schema_ok (im_schemas im)) (dp_schemas P)
  end.

(* ReflectDecl.v — a declarative, STATE-FREE description of the schema each descriptor denotes:
   what the root schema of a message / exposed oneof / enum is, written as a function of the
   descriptor set alone (no schema set, no placeholder, no recursion through references, no fuel).
   The reader model (Reflect.v) threads a schema set through a depth-first build; the theorem in
   proofs/ReflectDeclProofs.v says that every entry it links is the value given here, whatever the
   state it started from and whatever the order of the calls. No proofs here. *)
From Coq Require Import String List NArith ZArith Bool.
From J5V.lib Require Import Outcome.
From J5V.model Require Import ReflectDesc ReflectSchema Reflect.
Import ListNotations.
Local Open Scope bool_scope.

Section Decl.
Variable D : desc.

(* the schema of an enum: the enum alone decides *)
Definition decl_enum (e : enumd) : res root :=
  match build_enum e with Ok r => ROk r | _ => RErr "enum" end.

(* an enum-typed field: the reference is the enum's split name, the rules name its options *)
Definition decl_enum_field (f : field) (x : exts) : res fschema :=
  match f_ty f with
  | TEnum full =>
      match find_enum D full with
      | None => RErr "descriptor: enum not in the set"
      | Some e =>
          match build_enum e with
          | Ok (REnum _ _ _ opts _) =>
              rbind (match x_vty x with
                     | VEnum ins notins =>
                         rbind (enum_in opts ins) (fun i => rbind (enum_notin opts notins) (fun n => ROk (Some (i, n))))
                     | _ => ROk None
                     end) (fun rules =>
              ROk (FEnum (enum_key e) rules (match x_lty x with LEnum t => Some t | _ => None end) None))
          | _ => RErr "enum"
          end
      end
  | _ => RErr "descriptor: enum field without an enum type"
  end.

(* a message-typed field: a well-known type, or a reference to the message's split name, as an
   object or as a oneof as isOneofWrapper of THAT message decides *)
Definition decl_message_field (f : field) (x : exts) : res fschema :=
  match f_ty f with
  | TMsg full =>
      let flatten := match x_j5 x with Some (JMessage b) => b | Some (JObject b) => b | _ => false end in
      rbind (wkt_schema full x) (fun w =>
      match w with
      | Some s => ROk s
      | None =>
          if has_prefix s_google_protobuf full then RErr "unsupported google type"
          else match find_msg D full with
               | None => RErr "descriptor: message not in the set"
               | Some m =>
                   ROk (if is_oneof_wrapper m then FOneof (msg_key m) None (match x_lty x with LOneof t => Some t | _ => None end) None
                        else FObject (msg_key m) flatten None None)
               end
      end)
  | _ => RErr "descriptor: message field without a message type"
  end.

Definition decl_schema (f : field) (x : exts) : res fschema :=
  match f_kind f with
  | KMessage => decl_message_field f x
  | KEnum => decl_enum_field f x
  | k => rbind (build_scalar k x) (fun p => ROk (FScalar (Some (k, [])) p))
  end.

(* the property of one field *)
Definition decl_field_prop (f : field) : res prop :=
  let x := field_exts f in
  let required := match x_validate x with Some (FCon (Some true) _ _) => true | _ => false end in
  match f_card f with
  | CRepeated =>
      let '(rules, items) := match x_vty x with
                             | VRepeated mn mx un it => (Some (mn, mx, un), it)
                             | _ => (None, None)
                             end in
      let ext := match x_j5 x with Some (JArray sf) => Some sf | _ => None end in
      rbind (decl_schema f (child_exts f items true)) (fun item =>
      ROk (Prop_ (f_json f) [f_num f] required false (f_descr f) (FArray item rules ext)))
  | CMap kk =>
      if negb (kind_eqb kk KString) then RErr "map keys must be strings for J5"
      else
        let '(rules, values) := match x_vty x with
                                | VMap mn mx vs => (Some (mn, mx), vs)
                                | _ => (None, None)
                                end in
        let ext := match x_j5 x with Some (JMap sf) => Some sf | _ => None end in
        rbind (decl_schema f (child_exts f values false)) (fun item =>
        ROk (Prop_ (f_json f) [f_num f] required false (f_descr f) (FMap item rules ext)))
  | c =>
      let optional := negb required && (match c with COptional => true | _ => false end) in
      rbind (decl_schema f x) (fun s =>
      ROk (Prop_ (f_json f) [f_num f] required optional (f_descr f) s))
  end.

(* the exposed real oneofs of a message, in declaration order *)
Fixpoint decl_exposed (m : msgd) (idx : N) (os : list oneofd) : list exposed :=
  match os with
  | [] => []
  | Oneof name jname synthetic ext d :: r =>
      match synthetic, ext with
      | false, Some true =>
          let k := oneof_key m name in
          {| ex_idx := idx; ex_key := k;
             ex_prop := Prop_ jname [] false false (m_descr m) (FOneof k None None None);
             ex_pending := true; ex_props := [] |} :: decl_exposed m (N.succ idx) r
      | _, _ => decl_exposed m (N.succ idx) r
      end
  end.

(* the fields in order: members of an exposed oneof go to the oneof, whose own property takes the
   place of its first member *)
Fixpoint decl_fields (m : msgd) (exs : list exposed) (fs : list field) : res (list exposed * list prop) :=
  match fs with
  | [] => ROk (exs, [])
  | f :: r =>
      rbind (decl_field_prop f) (fun p =>
      let direct := rbind (decl_fields m exs r) (fun '(exs2, ps) => ROk (exs2, p :: ps)) in
      match f_card f, f_oneof f with
      | CRepeated, _ | CMap _, _ => direct
      | _, None => direct
      | _, Some idx =>
          if oneof_is_synthetic m idx then direct
          else match add_to_exposed exs idx p with
               | None => direct
               | Some (exs1, pending) =>
                   rbind (decl_fields m exs1 r) (fun '(exs2, ps) =>
                   ROk (exs2, match pending with Some pp => pp :: ps | None => ps end))
               end
      end)
  end.

Definition decl_props (m : msgd) : res (list exposed * list prop) :=
  rbind (decl_fields m (decl_exposed m 0 (m_oneofs m)) (m_fields m)) (fun '(exs, ps) =>
  if existsb ex_pending exs then RErr "oneof has not been added"
  else if negb (exs_names_ok exs) then RErr "property name is used twice (members of an exposed oneof)"
  else if negb (props_valid ps) then RErr "property has no JSON name, or a JSON name is used twice"
  else ROk (exs, ps)).

(* the root schema of a message *)
Definition decl_root (m : msgd) : res root :=
  rbind (decl_props m) (fun '(_, ps) =>
  if is_oneof_wrapper m then ROk (ROneof (snd (msg_key m)) (m_descr m) ps)
  else rbind (find_psm D m) (fun entity =>
       let anym := match m_opt m with Some (MsgOpt _ (MTObject am)) => am | _ => [] end in
       ROk (RObject (snd (msg_key m)) (m_descr m) entity anym ps))).

(* the description of the real oneof of m whose split name is k *)
Definition oneof_descr (m : msgd) (k : ref) : str :=
  match find (fun o => match o with Oneof name _ syn _ _ => negb syn && ref_eqb (oneof_key m name) k end) (m_oneofs m) with
  | Some (Oneof _ _ _ _ d) => d
  | None => []
  end.

(* the root schema of an exposed oneof of m, from its record in decl_props *)
Definition decl_oneof_of (m : msgd) (e : exposed) : root :=
  ROneof (snd (ex_key e)) (oneof_descr m (ex_key e)) (ex_props e).
End Decl.

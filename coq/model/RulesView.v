(* RulesView.v — how the reader's annotation record ([RulesDecl.fout]) is read off a
   field descriptor of the file-level printer / parser model of family tool
   ([ProtoPrintFile.dfield]: label, type, names, number, comment, and the option
   trees of its extensions as text-format value trees).
   This is the concrete [view] of C04_text_composed: a decoder for the four
   annotation families j5 writes — (buf.validate.field), (j5.ext.v1.field),
   (j5.list.v1.field), (j5.ext.v1.key). Anything it does not know becomes COther /
   XOther / LOtherArm (as in the harness dump). Each option is looked up by its
   full extension name and must occur exactly once. No proofs here. *)
From Coq Require Import String Ascii List NArith ZArith Bool.
From J5V.lib Require Import Outcome.
From J5V.model Require Import RulesDecl RulesWrite ProtoPrintLit ProtoPrint ProtoPrintFile.
Import ListNotations.
Local Open Scope string_scope.
Local Open Scope list_scope.
Local Open Scope N_scope.

(* ASCII text as bytes *)
Fixpoint bs (s : string) : list N :=
  match s with EmptyString => [] | String a r => N_of_ascii a :: bs r end.

(* ---- leaves ---------------------------------------------------------------------- *)
Definition as_uint (v : rawval) : option N :=
  match v with RScalar (TLit s) => parse_uint s | _ => None end.
Definition as_int (v : rawval) : option Z :=
  match v with RScalar (TLit s) => parse_int s | _ => None end.
Definition as_str (v : rawval) : option (list N) :=
  match v with RScalar (TLit s) => parse_string_lit s | _ => None end.
Definition as_bool (v : rawval) : option bool :=
  match v with RScalar (TIdent s) => parse_bool s | _ => None end.
Definition as_enum (v : rawval) : option ident :=
  match v with RScalar (TIdent s) => Some s | _ => None end.

Definition get (k : string) (fs : list (ident * rawval)) : option rawval :=
  match find (fun kv => bytes_eqb (fst kv) (bs k)) fs with Some kv => Some (snd kv) | None => None end.
(* every key of the message is one of the expected ones *)
Definition only_keys (ks : list string) (fs : list (ident * rawval)) : bool :=
  forallb (fun kv => existsb (fun k => bytes_eqb (fst kv) (bs k)) ks) fs.

(* an optional sub-field: absent -> Some None; present and decodable -> Some (Some x); else None *)
Definition opt {A} (dec : rawval -> option A) (k : string) (fs : list (ident * rawval)) : option (option A) :=
  match get k fs with
  | None => Some None
  | Some v => match dec v with Some x => Some (Some x) | None => None end
  end.

Definition bind {A B} (o : option A) (f : A -> option B) : option B :=
  match o with Some a => f a | None => None end.

(* UTF-8 bytes of a pattern -> code points (patterns are code points in RulesDecl) *)
Fixpoint decode_utf8 (fuel : nat) (s : list N) : list N :=
  match fuel, s with
  | S f, _ :: _ => let '(r, n) := utf8_decode s in r :: decode_utf8 f (skipn n s)
  | _, _ => []
  end.
Definition runes (s : list N) : list N := decode_utf8 (length s) s.

(* ---- (buf.validate.field) ----------------------------------------------------------- *)
Definition dec_int_rules (k : ikind) (fs : list (ident * rawval)) : tyc :=
  if negb (only_keys ["lt"; "lte"; "gt"; "gte"]%string fs) then COther else
  match opt as_int "lt" fs, opt as_int "lte" fs, opt as_int "gt" fs, opt as_int "gte" fs with
  | Some lt, Some lte, Some gt, Some gte =>
      match (match lt, lte with
             | None, None => Some NoUb | Some z, None => Some (Lt z) | None, Some z => Some (Lte z) | _, _ => None
             end),
            (match gt, gte with
             | None, None => Some NoLb | Some z, None => Some (Gt z) | None, Some z => Some (Gte z) | _, _ => None
             end) with
      | Some ub, Some lb => CInt k ub lb
      | _, _ => COther
      end
  | _, _, _, _ => COther
  end.

Definition dec_secs (v : rawval) : option Z :=
  match v with
  | RMsg fs => if only_keys ["seconds"]%string fs
               then match get "seconds" fs with Some s => as_int s | None => Some 0%Z end
               else None
  | _ => None
  end.

Definition dec_ts_rules (fs : list (ident * rawval)) : tyc :=
  if negb (only_keys ["lt"; "lte"; "gt"; "gte"]%string fs) then COther else
  match opt dec_secs "lt" fs, opt dec_secs "lte" fs, opt dec_secs "gt" fs, opt dec_secs "gte" fs with
  | Some lt, Some lte, Some gt, Some gte =>
      match (match lt, lte with
             | None, None => Some NoUb | Some z, None => Some (Lt z) | None, Some z => Some (Lte z) | _, _ => None
             end),
            (match gt, gte with
             | None, None => Some NoLb | Some z, None => Some (Gt z) | None, Some z => Some (Gte z) | _, _ => None
             end) with
      | Some ub, Some lb => CTimestamp ub lb
      | _, _ => COther
      end
  | _, _, _, _ => COther
  end.

Definition dec_zlist (v : rawval) : option (list Z) :=
  match v with
  | RList items => fold_right (fun x acc => bind (as_int x) (fun z => bind acc (fun l => Some (z :: l)))) (Some []) items
  | _ => None
  end.

(* the type arm of a FieldConstraints message: None = no type (an empty constraint) *)
Fixpoint dec_tyc (fuel : nat) (fs : list (ident * rawval)) : option tyc :=
  match fuel with
  | O => Some COther
  | S f =>
    match fs with
    | [] => None
    | [(k, RMsg sub)] =>
        if bytes_eqb k (bs "int32") then Some (dec_int_rules I32 sub)
        else if bytes_eqb k (bs "int64") then Some (dec_int_rules I64 sub)
        else if bytes_eqb k (bs "uint32") then Some (dec_int_rules U32 sub)
        else if bytes_eqb k (bs "uint64") then Some (dec_int_rules U64 sub)
        else if bytes_eqb k (bs "string") then
          Some (if negb (only_keys ["min_len"; "max_len"; "pattern"; "uuid"]%string sub) then COther else
                match opt as_uint "min_len" sub, opt as_uint "max_len" sub, opt as_str "pattern" sub, opt as_bool "uuid" sub with
                | Some mn, Some mx, Some pat, Some (Some true) => CStr mn mx (option_map runes pat) true
                | Some mn, Some mx, Some pat, Some None => CStr mn mx (option_map runes pat) false
                | _, _, _, _ => COther
                end)
        else if bytes_eqb k (bs "bytes") then
          Some (if negb (only_keys ["min_len"; "max_len"]%string sub) then COther else
                match opt as_uint "min_len" sub, opt as_uint "max_len" sub with
                | Some mn, Some mx => CBytes mn mx
                | _, _ => COther
                end)
        else if bytes_eqb k (bs "bool") then
          Some (if negb (only_keys ["const"]%string sub) then COther else
                match opt as_bool "const" sub with Some c => CBool c | None => COther end)
        else if bytes_eqb k (bs "enum") then
          Some (if negb (only_keys ["defined_only"; "in"; "not_in"]%string sub) then COther else
                match opt as_bool "defined_only" sub, opt dec_zlist "in" sub, opt dec_zlist "not_in" sub with
                | Some (Some d), Some i, Some n =>
                    CEnum d (match i with Some l => l | None => [] end) (match n with Some l => l | None => [] end)
                | _, _, _ => COther
                end)
        else if bytes_eqb k (bs "timestamp") then Some (dec_ts_rules sub)
        else if bytes_eqb k (bs "repeated") then
          Some (if negb (only_keys ["min_items"; "max_items"; "unique"; "items"]%string sub) then COther else
                match opt as_uint "min_items" sub, opt as_uint "max_items" sub, opt as_bool "unique" sub with
                | Some mn, Some mx, Some uq =>
                    match get "items" sub with
                    | None => CRep mn mx uq None
                    | Some (RMsg it) =>
                        if existsb (fun kv => bytes_eqb (fst kv) (bs "required")) it then COther
                        else CRep mn mx uq (Some (match dec_tyc f it with Some t => t | None => CEmpty end))
                    | Some _ => COther
                    end
                | _, _, _ => COther
                end)
        else if bytes_eqb k (bs "map") then
          Some (if negb (only_keys ["min_pairs"; "max_pairs"; "values"]%string sub) then COther else
                match opt as_uint "min_pairs" sub, opt as_uint "max_pairs" sub with
                | Some mn, Some mx =>
                    match get "values" sub with
                    | None => CMap mn mx None
                    | Some (RMsg it) =>
                        if existsb (fun kv => bytes_eqb (fst kv) (bs "required")) it then COther
                        else CMap mn mx (Some (match dec_tyc f it with Some t => t | None => CEmpty end))
                    | Some _ => COther
                    end
                | _, _ => COther
                end)
        else Some COther
    | _ => Some COther
    end
  end.

Fixpoint raw_depth (v : rawval) : nat :=
  match v with
  | RScalar _ => 1%nat
  | RMsg fs => S ((fix go (l : list (ident * rawval)) : nat := match l with [] => O | (_, x) :: r => Nat.max (raw_depth x) (go r) end) fs)
  | RList items => S ((fix go (l : list rawval) : nat := match l with [] => O | x :: r => Nat.max (raw_depth x) (go r) end) items)
  end.

Definition dec_constraint (v : rawval) : constraint :=
  match v with
  | RMsg fs =>
      let rest := filter (fun kv => negb (bytes_eqb (fst kv) (bs "required"))) fs in
      match opt as_bool "required" fs with
      | Some (Some true) => C true (dec_tyc (raw_depth v) rest)
      | Some None => C false (dec_tyc (raw_depth v) rest)
      | _ => C false (Some COther)          (* required: false is not what j5 writes *)
      end
  | _ => C false (Some COther)
  end.

(* ---- (j5.ext.v1.field) ----------------------------------------------------------------- *)
Definition dec_txt_rules (sub : list (ident * rawval)) : option (option txt_rules) :=
  if negb (only_keys ["rules"]%string sub) then None else
  match get "rules" sub with
  | None => Some None
  | Some (RMsg r) =>
      if negb (only_keys ["minimum"; "maximum"; "exclusive_minimum"; "exclusive_maximum"]%string r) then None else
      match opt as_str "minimum" r, opt as_str "maximum" r, opt as_bool "exclusive_minimum" r, opt as_bool "exclusive_maximum" r with
      | Some mn, Some mx, Some xmn, Some xmx => Some (Some (TR mn mx xmn xmx))
      | _, _, _, _ => None
      end
  | Some _ => None
  end.

Definition dec_strlist (v : rawval) : option (list str) :=
  match v with
  | RList items => fold_right (fun x acc => bind (as_str x) (fun z => bind acc (fun l => Some (z :: l)))) (Some []) items
  | _ => None
  end.

Definition dec_ext (v : rawval) : j5ext :=
  match v with
  | RMsg [(k, RMsg sub)] =>
      if bytes_eqb k (bs "array") then
        (if only_keys ["single_form"]%string sub then match opt as_str "single_form" sub with Some sf => XArray sf | None => XOther end else XOther)
      else if bytes_eqb k (bs "map") then
        (if only_keys ["single_form"]%string sub then match opt as_str "single_form" sub with Some sf => XMap sf | None => XOther end else XOther)
      else if bytes_eqb k (bs "object") then
        (if only_keys ["flatten"]%string sub
         then match opt as_bool "flatten" sub with Some (Some b) => XObject b | Some None => XObject false | None => XOther end
         else XOther)
      else if bytes_eqb k (bs "enum") then (match sub with [] => XEnum | _ => XOther end)
      else if bytes_eqb k (bs "oneof") then (match sub with [] => XOneof | _ => XOther end)
      else if bytes_eqb k (bs "string") then (match sub with [] => XString | _ => XOther end)
      else if bytes_eqb k (bs "integer") then (match sub with [] => XInteger | _ => XOther end)
      else if bytes_eqb k (bs "float") then (match sub with [] => XFloat | _ => XOther end)
      else if bytes_eqb k (bs "bool") then (match sub with [] => XBool | _ => XOther end)
      else if bytes_eqb k (bs "bytes") then (match sub with [] => XBytes | _ => XOther end)
      else if bytes_eqb k (bs "timestamp") then (match sub with [] => XTimestamp | _ => XOther end)
      else if bytes_eqb k (bs "key") then
        (match sub with
         | [] => XKey None
         | [(k2, x)] =>
             if bytes_eqb k2 (bs "pattern") then match as_str x with Some p => XKey (Some (KCustom (runes p))) | None => XOther end
             else if bytes_eqb k2 (bs "format") then
               match as_enum x with
               | Some e => if bytes_eqb e (bs "FORMAT_UNSPECIFIED") then XKey (Some KInformal)
                           else if bytes_eqb e (bs "FORMAT_UUID") then XKey (Some KUuid)
                           else if bytes_eqb e (bs "FORMAT_ID62") then XKey (Some KId62)
                           else XOther
               | None => XOther
               end
             else XOther
         | _ => XOther
         end)
      else if bytes_eqb k (bs "any") then
        (if only_keys ["only_defined"; "types"]%string sub then
           match opt as_bool "only_defined" sub, opt dec_strlist "types" sub with
           | Some od, Some ts => XAny (match od with Some b => b | None => false end) (match ts with Some l => l | None => [] end)
           | _, _ => XOther
           end
         else XOther)
      else if bytes_eqb k (bs "date") then (match dec_txt_rules sub with Some r => XDate r | None => XOther end)
      else if bytes_eqb k (bs "decimal") then (match dec_txt_rules sub with Some r => XDecimal r | None => XOther end)
      else XOther
  | _ => XOther
  end.

(* ---- (j5.list.v1.field) ------------------------------------------------------------------ *)
Definition dec_lpay (sub : list (ident * rawval)) : option lpay :=
  if negb (only_keys ["filtering"; "sorting"; "searching"]%string sub) then None else
  let sec (k : string) (ks : list string) : option (list (ident * rawval)) :=
      match get k sub with
      | None => Some []
      | Some (RMsg m) => if only_keys ks m then Some m else None
      | Some _ => None
      end in
  match sec "filtering" ["filterable"; "default_filters"]%string, sec "sorting" ["sortable"; "default_sort"]%string,
        sec "searching" ["searchable"]%string with
  | Some fl, Some so, Some se =>
      match opt as_bool "filterable" fl, opt dec_strlist "default_filters" fl, opt as_bool "sortable" so,
            opt as_bool "default_sort" so, opt as_bool "searchable" se with
      | Some a, Some dfl, Some b, Some c, Some d =>
          let t o := match o with Some x => x | None => false end in
          Some (LP (t a) (t b) (t d) (t c) (match dfl with Some l => l | None => [] end))
      | _, _, _, _, _ => None
      end
  | _, _, _ => None
  end.

Definition dec_list (v : rawval) : larm * lpay :=
  let other := (LOtherArm, LP false false false false []) in
  let arm (a : larm) (sub : list (ident * rawval)) := match dec_lpay sub with Some p => (a, p) | None => other end in
  match v with
  | RMsg [(k, RMsg sub)] =>
      if bytes_eqb k (bs "double") then arm LDouble sub
      else if bytes_eqb k (bs "float") then arm LFloat sub
      else if bytes_eqb k (bs "int32") then arm LInt32 sub
      else if bytes_eqb k (bs "int64") then arm LInt64 sub
      else if bytes_eqb k (bs "uint32") then arm LUint32 sub
      else if bytes_eqb k (bs "uint64") then arm LUint64 sub
      else if bytes_eqb k (bs "bool") then arm LBool sub
      else if bytes_eqb k (bs "enum") then arm LEnum sub
      else if bytes_eqb k (bs "oneof") then arm LOneof sub
      else if bytes_eqb k (bs "timestamp") then arm LTimestamp sub
      else if bytes_eqb k (bs "date") then arm LDate sub
      else if bytes_eqb k (bs "decimal") then arm LDecimal sub
      else if bytes_eqb k (bs "any") then arm LAny sub
      else if bytes_eqb k (bs "string") then
        match sub with
        | [(k2, RMsg s2)] =>
            if bytes_eqb k2 (bs "open_text") then arm LStrOpenText s2
            else if bytes_eqb k2 (bs "foreign_key") then
              match s2 with
              | [(k3, RMsg s3)] =>
                  if bytes_eqb k3 (bs "unique_string") then arm LStrFkUnique s3
                  else if bytes_eqb k3 (bs "uuid") then arm LStrFkUuid s3
                  else if bytes_eqb k3 (bs "id62") then arm LStrFkId62 s3
                  else other
              | _ => other
              end
            else other
        | _ => other
        end
      else other
  | _ => other
  end.

(* ---- (j5.ext.v1.key) ------------------------------------------------------------------------ *)
Definition dec_key (v : rawval) : option keyext :=
  match v with
  | RMsg fs =>
      if negb (only_keys ["primary_key"; "foreign_key"; "tenant_type"]%string fs) then None else
      match opt as_bool "primary_key" fs, opt as_str "tenant_type" fs with
      | Some pk, Some tn =>
          match get "foreign_key" fs with
          | None => Some (KX (match pk with Some b => b | None => false end) None tn)
          | Some (RMsg fk) =>
              match opt as_str "package" fk, opt as_str "entity" fk with
              | Some p, Some e =>
                  let s o := match o with Some x => x | None => [] end in
                  Some (KX (match pk with Some b => b | None => false end) (Some (s p, s e)) tn)
              | _, _ => None
              end
          | Some _ => None
          end
      | _, _ => None
      end
  | _ => None
  end.

(* ---- the field ---------------------------------------------------------------------------------- *)
(* the value tree of the extension with this full name, if it occurs exactly once *)
Definition the_opt (full : list string) (opts : list dopt) : option rawval :=
  match filter (fun o => qname_eqb (o_full o) (map bs full)) opts with
  | [o] => Some (o_val o)
  | _ => None
  end.
Definition has_opt (full : list string) (opts : list dopt) : bool :=
  existsb (fun o => qname_eqb (o_full o) (map bs full)) opts.

Definition scalar_kind (k : ident) : pkind :=
  if bytes_eqb k (bs "int32") then KdInt32 else if bytes_eqb k (bs "int64") then KdInt64
  else if bytes_eqb k (bs "uint32") then KdUint32 else if bytes_eqb k (bs "uint64") then KdUint64
  else if bytes_eqb k (bs "string") then KdString else if bytes_eqb k (bs "bytes") then KdBytes
  else if bytes_eqb k (bs "bool") then KdBool else if bytes_eqb k (bs "float") then KdFloat
  else if bytes_eqb k (bs "double") then KdDouble else KdOther.

(* the fixed reference targets of a generated compile unit (package foo.v1) and the well-known types *)
Definition ref_kind (pkg path : qname) : pkind :=
  let is p q := qname_eqb pkg (map bs p) && qname_eqb path (map bs q) in
  (* whether a message is an object or a oneof is not in the field's descriptor: by name *)
  if is ["foo"; "v1"]%string ["Bar"]%string then KdMsgObject (bs "Bar")
  else if is ["foo"; "v1"]%string ["Baz"]%string then KdMsgObject (bs "Baz")
  else if is ["foo"; "v1"]%string ["Choice"]%string then KdMsgOneof (bs "Choice")
  else if is ["foo"; "v1"]%string ["Pick"]%string then KdMsgOneof (bs "Pick")
  else if is ["foo"; "v1"]%string ["Color"]%string then KdEnum
  else if is ["google"; "protobuf"]%string ["Timestamp"]%string then KdTimestamp
  else if is ["j5"; "types"; "date"; "v1"]%string ["Date"]%string then KdDate
  else if is ["j5"; "types"; "decimal"; "v1"]%string ["Decimal"]%string then KdDecimal
  else if is ["j5"; "types"; "any"; "v1"]%string ["Any"]%string then KdAny
  else KdOther.

Definition vt_kind (t : dvt) : pkind :=
  match t with DScalar k => scalar_kind k | DRef pkg path => ref_kind pkg path end.

(* the leading comment as the description the compiler stored: " line\n" per line *)
Fixpoint unframe_lines (ls : list (list N)) : list (list N) :=
  match ls with
  | [] => []
  | l :: r => (match l with 32 :: t => t | _ => l end) :: unframe_lines r
  end.
Fixpoint split_nl (s cur : list N) : list (list N) :=
  match s with
  | [] => [rev cur]
  | c :: r => if c =? 10 then rev cur :: split_nl r [] else split_nl r (c :: cur)
  end.
Fixpoint join_nl (ls : list (list N)) : list N :=
  match ls with [] => [] | [x] => x | x :: r => x ++ 10 :: join_nl r end.
Definition unframe_comment (c : list N) : list N :=
  match c with
  | [] => []
  | _ => let body := match rev c with 10 :: t => rev t | _ => c end in
         join_nl (unframe_lines (split_nl body []))
  end.

Definition view_field (f : dfield) : fout :=
  let opts := f_opts f in
  let anno {A} (full : list string) (dec : rawval -> A) (other : A) : option A :=
      if has_opt full opts then Some (match the_opt full opts with Some v => dec v | None => other end) else None in
  FO (f_json f) (f_name f) (f_num f)
     (match f_type f with DSingle t => vt_kind t | DMapT _ _ v => KdMapEntry (vt_kind v) end)
     (match f_type f with DMapT _ _ _ => true | _ => match f_label f with LRepeated => true | _ => false end end)
     (match f_label f with LOptional => true | _ => false end)
     false
     (anno ["buf"; "validate"; "field"]%string dec_constraint (C false (Some COther)))
     (anno ["j5"; "ext"; "v1"; "field"]%string dec_ext XOther)
     (anno ["j5"; "list"; "v1"; "field"]%string dec_list (LOtherArm, LP false false false false []))
     (match the_opt ["j5"; "ext"; "v1"; "key"]%string opts with Some v => dec_key v | None => None end)
     (unframe_comment (c_lead (f_cm f))).

(* ProtoPrintLit.v - literal layer of C05 ("printed .proto text re-parses to the
   same descriptor"): how option scalars are written and read back.

   Printer side = /repo/internal/j5s/protoprint/optionreflect/walk.go
     prototextString (outputASCII = true) + indexNeedEscapeInString,
     marshalSingular for bool / signed / unsigned (strconv.FormatInt/FormatUint base 10).
     Floats (fFloat, strconv.FormatFloat 'g') are NOT modelled.
   Reader side = github.com/bufbuild/protocompile@v0.14.1 parser/lexer.go
     readStringLiteral (quote = the double quote, utf8Strict = false) and decimal literals.
   Go's unicode/utf8 DecodeRuneInString / AppendRune (go1.23) are modelled exactly.

   Byte strings are [list N] with every element < 256 (possibly ill-formed UTF-8).
   Definitions only; lemmas are in proofs/ProtoPrintLitProofs.v. *)
From Coq Require Import String List NArith ZArith Bool.
From J5V.lib Require Import Radix.
Import ListNotations.
Local Open Scope bool_scope.
Local Open Scope N_scope.

(* ====================================================================== *)
(* unicode/utf8                                                           *)
(* ====================================================================== *)
Definition rune_error : N := 65533.       (* utf8.RuneError = U+FFFD *)
Definition max_rune : N := 1114111.       (* utf8.MaxRune  = U+10FFFF *)

(* locb..hicb *)
Definition is_cont (b : N) : bool := (128 <=? b) && (b <=? 191).

(* utf8.DecodeRuneInString(s) = (rune, width).  first[]/acceptRanges[] written out:
     00..7F as | 80..C1, F5..FF xx | C2..DF s1 | E0 s2 (A0..BF) | E1..EC, EE..EF s3
     | ED s4 (80..9F) | F0 s5 (90..BF) | F1..F3 s6 | F4 s7 (80..8F).
   s0&mask, <<, | are written arithmetically (equal on the accepted ranges). *)
Definition utf8_decode (s : list N) : N * nat :=
  match s with
  | [] => (rune_error, 0%nat)
  | s0 :: r =>
    if s0 <? 128 then (s0, 1%nat)
    else if (s0 <? 194) || (244 <? s0) then (rune_error, 1%nat)
    else if s0 <? 224 then
      match r with
      | s1 :: _ =>
          if is_cont s1 then ((s0 - 192) * 64 + (s1 - 128), 2%nat) else (rune_error, 1%nat)
      | _ => (rune_error, 1%nat)
      end
    else if s0 <? 240 then
      let lo := if s0 =? 224 then 160 else 128 in
      let hi := if s0 =? 237 then 159 else 191 in
      match r with
      | s1 :: s2 :: _ =>
          if (lo <=? s1) && (s1 <=? hi) && is_cont s2
          then ((s0 - 224) * 4096 + (s1 - 128) * 64 + (s2 - 128), 3%nat)
          else (rune_error, 1%nat)
      | _ => (rune_error, 1%nat)
      end
    else
      let lo := if s0 =? 240 then 144 else 128 in
      let hi := if s0 =? 244 then 143 else 191 in
      match r with
      | s1 :: s2 :: s3 :: _ =>
          if (lo <=? s1) && (s1 <=? hi) && is_cont s2 && is_cont s3
          then ((s0 - 240) * 262144 + (s1 - 128) * 4096 + (s2 - 128) * 64 + (s3 - 128), 4%nat)
          else (rune_error, 1%nat)
      | _ => (rune_error, 1%nat)
      end
  end.

(* utf8.AppendRune(nil, r) for r >= 0: surrogates and > MaxRune become U+FFFD *)
Definition utf8_encode (r : N) : list N :=
  if r <? 128 then [r]
  else if r <? 2048 then [192 + r / 64; 128 + r mod 64]
  else if (max_rune <? r) || ((55296 <=? r) && (r <=? 57343)) then [239; 191; 189]
  else if r <? 65536 then [224 + r / 4096; 128 + (r / 64) mod 64; 128 + r mod 64]
  else [240 + r / 262144; 128 + (r / 4096) mod 64; 128 + (r / 64) mod 64; 128 + r mod 64].

(* ====================================================================== *)
(* hex                                                                    *)
(* ====================================================================== *)
(* strconv.AppendUint(_, _, 16): lowercase *)
Definition hex_digit (d : N) : N := if d <? 10 then 48 + d else 87 + d.

(* exactly k hex digits of v, most significant first.
   Go writes  "00.."[1+(bits.Len32(r)-1)/4:]  followed by AppendUint(r,16); for
   r < 16^k (k = 2, 4, 8 at the three call sites) that is the k-digit zero-padded
   form: bits.Len32(0) = 0 and (0-1)/4 = 0 in Go, so r = 0 gives k-1 zeros + "0";
   otherwise AppendUint gives (Len32-1)/4 + 1 digits and the pad is the rest. *)
Fixpoint hex_be (k : nat) (v : N) : list N :=
  match k with
  | O => []
  | S k' => hex_be k' (v / 16) ++ [hex_digit (v mod 16)]
  end.

Definition hexval (c : N) : option N :=
  if (48 <=? c) && (c <=? 57) then Some (c - 48)
  else if (97 <=? c) && (c <=? 102) then Some (c - 87)
  else if (65 <=? c) && (c <=? 70) then Some (c - 55)
  else None.

(* left-to-right accumulation of hex digits; None on a non-hex byte *)
Fixpoint hexvals (acc : N) (ds : list N) : option N :=
  match ds with
  | [] => Some acc
  | d :: r => match hexval d with
              | Some v => hexvals (acc * 16 + v) r
              | None => None
              end
  end.

(* ====================================================================== *)
(* (A) prototextString                                                    *)
(* ====================================================================== *)
(* body of  case r < ' ' || r == dquote || r == '\\' || r == 0x7f  (also entered by
   fallthrough with r = rune(in[0]) for an invalid byte) *)
Definition print_rune_esc (r : N) : list N :=
  92 :: (if (r =? 34) || (r =? 92) then [r]
         else if r =? 10 then [110]
         else if r =? 13 then [114]
         else if r =? 9 then [116]
         else 120 :: hex_be 2 r).

(* body of  case r >= utf8.RuneSelf && (outputASCII || ...) *)
Definition print_rune_uni (r : N) : list N :=
  if r <=? 65535 then 92 :: 117 :: hex_be 4 r else 92 :: 85 :: hex_be 8 r.

(* one iteration of the loop on non-empty [s]: (bytes appended, bytes consumed).
   The default arm copies in[:n] here; see print_step_go below for the exact
   in[:n+i] form, which is proved equal in the proofs file. *)
Definition print_step (s : list N) : list N * nat :=
  let (r, n) := utf8_decode s in
  if (r =? rune_error) && Nat.eqb n 1 then (print_rune_esc (hd 0 s), 1%nat)
  else if (r <? 32) || (r =? 34) || (r =? 92) || (r =? 127) then (print_rune_esc r, n)
  else if 128 <=? r then (print_rune_uni r, n)
  else (firstn n s, n).

(* for len(in) > 0 { ...; in = in[n:] } - [skip] counts bytes of the current rune
   still to be dropped, so the recursion is structural (no fuel) *)
Fixpoint print_body (skip : nat) (s : list N) : list N :=
  match s with
  | [] => []
  | _ :: r =>
    match skip with
    | S k => print_body k r
    | O => let (out, n) := print_step s in out ++ print_body (pred n) r
    end
  end.

Definition print_string_lit (s : list N) : list N := 34 :: print_body 0 s ++ [34].

(* ---- the same function with Go's exact control flow ------------------- *)
Definition need_escape (c : N) : bool :=
  (c <? 32) || (c =? 34) || (c =? 39) || (c =? 92) || (127 <=? c).

(* indexNeedEscapeInString *)
Fixpoint index_need_escape (s : list N) : nat :=
  match s with
  | [] => O
  | c :: r => if need_escape c then O else S (index_need_escape r)
  end.

Definition print_step_go (s : list N) : list N * nat :=
  let (r, n) := utf8_decode s in
  if (r =? rune_error) && Nat.eqb n 1 then (print_rune_esc (hd 0 s), 1%nat)
  else if (r <? 32) || (r =? 34) || (r =? 92) || (r =? 127) then (print_rune_esc r, n)
  else if 128 <=? r then (print_rune_uni r, n)
  else let i := index_need_escape (skipn n s) in (firstn (n + i) s, (n + i)%nat).

Fixpoint print_body_go (skip : nat) (s : list N) : list N :=
  match s with
  | [] => []
  | _ :: r =>
    match skip with
    | S k => print_body_go k r
    | O => let (out, n) := print_step_go s in out ++ print_body_go (pred n) r
    end
  end.

Definition print_string_lit_go (s : list N) : list N :=
  let i := index_need_escape s in
  34 :: firstn i s ++ print_body_go 0 (skipn i s) ++ [34].

(* ====================================================================== *)
(* (B) numbers, bools                                                     *)
(* ====================================================================== *)
(* enough decimal digits: n < 2^(size n) <= 10^(size n) *)
Definition dec_fuel (n : N) : nat := S (N.to_nat (N.size n)).

(* strconv.FormatUint(n, 10) *)
Definition print_uint (n : N) : list N :=
  if n =? 0 then [48]
  else rev (map (fun d => 48 + d) (to_digits_le 10 (dec_fuel n) n)).

(* strconv.FormatInt(z, 10) *)
Definition print_int (z : Z) : list N :=
  match z with
  | Z0 => [48]
  | Zpos p => print_uint (Npos p)
  | Zneg p => 45 :: print_uint (Npos p)
  end.

Definition lit_true : list N := [116; 114; 117; 101].
Definition lit_false : list N := [102; 97; 108; 115; 101].
Definition print_bool (b : bool) : list N := if b then lit_true else lit_false.

(* ====================================================================== *)
(* (C) reading the literals back                                          *)
(* ====================================================================== *)
Definition is_oct (c : N) : bool := (48 <=? c) && (c <=? 55).

(* after the backslash; result = (decoded bytes, input bytes consumed INCLUDING
   the backslash).  Covers every escape of readStringLiteral except that
   strconv.ParseInt's optional sign is not accepted inside \x \u \U (the lexer
   reads "\x-1" as 0xff, "\u+abc" as U+0ABC); those give None here. *)
Definition lex_escape (r : list N) : option (list N * nat) :=
  match r with
  | [] => None
  | e :: r2 =>
    if (e =? 120) || (e =? 88) then                         (* \x \X : 1-2 hex digits *)
      match r2 with
      | h1 :: h2 :: _ =>
          match hexval h1 with
          | None => None
          | Some v1 => match hexval h2 with
                       | Some v2 => Some ([v1 * 16 + v2], 4%nat)
                       | None => Some ([v1], 3%nat)
                       end
          end
      | _ => None                                             (* EOF while looking ahead *)
      end
    else if is_oct e then                                     (* \o \oo \ooo *)
      match r2 with
      | [] => None
      | o2 :: r3 =>
          if is_oct o2 then
            match r3 with
            | [] => None
            | o3 :: _ =>
                if is_oct o3 then
                  let v := ((e - 48) * 8 + (o2 - 48)) * 8 + (o3 - 48) in
                  if 255 <? v then None else Some ([v], 4%nat)
                else Some ([(e - 48) * 8 + (o2 - 48)], 3%nat)
            end
          else Some ([e - 48], 2%nat)
      end
    else if e =? 117 then                                     (* \uHHHH *)
      match r2 with
      | a :: b :: c :: d :: _ =>
          match hexvals 0 [a; b; c; d] with
          | Some v => Some (utf8_encode v, 6%nat)
          | None => None
          end
      | _ => None
      end
    else if e =? 85 then                                      (* \UHHHHHHHH *)
      match r2 with
      | a :: b :: c :: d :: a' :: b' :: c' :: d' :: _ =>
          match hexvals 0 [a; b; c; d; a'; b'; c'; d'] with
          | Some v => if max_rune <? v then None else Some (utf8_encode v, 10%nat)
          | None => None
          end
      | _ => None
      end
    else if e =? 97 then Some ([7], 2%nat)                    (* \a *)
    else if e =? 98 then Some ([8], 2%nat)                    (* \b *)
    else if e =? 102 then Some ([12], 2%nat)                  (* \f *)
    else if e =? 110 then Some ([10], 2%nat)                  (* \n *)
    else if e =? 114 then Some ([13], 2%nat)                  (* \r *)
    else if e =? 116 then Some ([9], 2%nat)                   (* \t *)
    else if e =? 118 then Some ([11], 2%nat)                  (* \v *)
    else if (e =? 92) || (e =? 39) || (e =? 34) || (e =? 63) then Some ([e], 2%nat)
    else None
  end.

(* one rune of the literal body on non-empty [s] whose head is not the closing
   quote: (decoded bytes, input bytes consumed) *)
Definition lex_step (s : list N) : option (list N * nat) :=
  match s with
  | [] => None
  | c :: r =>
    if c =? 10 then None                   (* end-of-line before end of string literal *)
    else if c =? 0 then None               (* null character not allowed *)
    else if c =? 92 then lex_escape r
    else if c <? 128 then Some ([c], 1%nat)
    else let (rn, n) := utf8_decode s in Some (utf8_encode rn, n)   (* buf.WriteRune(c) *)
  end.

(* the loop of readStringLiteral after the opening quote; the closing quote must be
   the last byte of the input.  [skip] as in print_body. *)
Fixpoint parse_body (skip : nat) (s : list N) : option (list N) :=
  match s with
  | [] => None                                                (* unexpected EOF *)
  | c :: r =>
    match skip with
    | S k => parse_body k r
    | O =>
      if c =? 34 then match r with [] => Some [] | _ => None end
      else match lex_step s with
           | None => None
           | Some (out, n) =>
               match parse_body (pred n) r with
               | Some rest => Some (out ++ rest)
               | None => None
               end
           end
    end
  end.

Definition parse_string_lit (s : list N) : option (list N) :=
  match s with
  | c :: r => if c =? 34 then parse_body 0 r else None
  | [] => None
  end.

(* the same loop as a prefix lexer: stops at the closing quote and returns the
   remaining input (a literal embedded in a longer text) *)
Fixpoint lex_body (skip : nat) (s : list N) : option (list N * list N) :=
  match s with
  | [] => None
  | c :: r =>
    match skip with
    | S k => lex_body k r
    | O =>
      if c =? 34 then Some ([], r)
      else match lex_step s with
           | None => None
           | Some (out, n) =>
               match lex_body (pred n) r with
               | Some (v, rest) => Some (out ++ v, rest)
               | None => None
               end
           end
    end
  end.

Definition lex_string_lit (s : list N) : option (list N * list N) :=
  match s with
  | c :: r => if c =? 34 then lex_body 0 r else None
  | [] => None
  end.

(* decimal digits *)
Fixpoint dec_digits (s : list N) : option (list N) :=
  match s with
  | [] => Some []
  | c :: r =>
    if (48 <=? c) && (c <=? 57)
    then match dec_digits r with Some ds => Some ((c - 48) :: ds) | None => None end
    else None
  end.

Definition parse_uint (s : list N) : option N :=
  match s with
  | [] => None
  | _ => match dec_digits s with
         | Some ds => Some (of_digits_be 10 0 ds)
         | None => None
         end
  end.

Definition parse_int (s : list N) : option Z :=
  match s with
  | [] => None
  | c :: r =>
    if c =? 45
    then match parse_uint r with Some n => Some (Z.opp (Z.of_N n)) | None => None end
    else match parse_uint s with Some n => Some (Z.of_N n) | None => None end
  end.

Fixpoint bytes_eqb (a b : list N) : bool :=
  match a, b with
  | [], [] => true
  | x :: a', y :: b' => (x =? y) && bytes_eqb a' b'
  | _, _ => false
  end.

Definition parse_bool (s : list N) : option bool :=
  if bytes_eqb s lit_true then Some true
  else if bytes_eqb s lit_false then Some false
  else None.

(* ====================================================================== *)
(* (D) identifiers and dotted names                                       *)
(* ====================================================================== *)
Definition is_ident_start (c : N) : bool :=
  ((65 <=? c) && (c <=? 90)) || ((97 <=? c) && (c <=? 122)) || (c =? 95).
Definition is_ident_char (c : N) : bool :=
  is_ident_start c || ((48 <=? c) && (c <=? 57)).

(* [A-Za-z_][A-Za-z0-9_]* *)
Definition is_ident (s : list N) : bool :=
  match s with
  | [] => false
  | c :: r => is_ident_start c && forallb is_ident_char r
  end.

(* strings.Join(parts, ".") *)
Fixpoint join_dot (parts : list (list N)) : list N :=
  match parts with
  | [] => []
  | p :: rest => match rest with
                 | [] => p
                 | _ => p ++ 46 :: join_dot rest
                 end
  end.

(* strings.Split(s, "."): never empty, "" gives [""] *)
Fixpoint split_dot (s : list N) : list (list N) :=
  match s with
  | [] => [[]]
  | c :: r =>
    if c =? 46 then [] :: split_dot r
    else match split_dot r with
         | p :: ps => (c :: p) :: ps
         | [] => [[c]]
         end
  end.

(* ====================================================================== *)
(* test vectors (evaluate with Eval vm_compute; compare with the real code) *)
(* ====================================================================== *)
(* NUL TAB LF CR 0x1f dquote ' \ DEL, lone 0x80, U+00E9, U+20AC, U+1F600, a surrogate
   encoding (ED A0 80: three invalid bytes), 0xff *)
Definition tv1 := print_string_lit
  [0;9;10;13;31;34;39;92;127;128;195;169;226;130;172;240;159;152;128;237;160;128;255].
(* "abc" *)
Definition tv2 := print_string_lit [97;98;99].
(* the valid encoding of U+FFFD itself (width 3, printed �) then an overlong C0 80 *)
Definition tv3 := print_string_lit [239;191;189;192;128].
(* truncated sequences: E2 82 | F0 9F 98 | C3 *)
Definition tv4 := print_string_lit [226;130;65;240;159;152;66;195].
(* boundaries: U+007F U+0080 U+07FF U+0800 U+D7FF U+E000 U+FFFF U+10000 U+10FFFF, then F4 90 80 80 (> MaxRune) *)
Definition tv5 := print_string_lit
  [127; 194;128; 223;191; 224;160;128; 237;159;191; 238;128;128; 239;191;191;
   240;144;128;128; 244;143;191;191; 244;144;128;128].
Definition tv6 := print_string_lit [].
Definition tv_go1 := print_string_lit_go
  [0;9;10;13;31;34;39;92;127;128;195;169;226;130;172;240;159;152;128;237;160;128;255].
Definition tv_int1 := print_int (-9223372036854775808)%Z.
Definition tv_int2 := print_int 0%Z.
Definition tv_int3 := print_int 9223372036854775807%Z.
Definition tv_uint1 := print_uint 18446744073709551615.
Definition tv_uint2 := print_uint 1000.
Definition tv_bool := (print_bool true, print_bool false).
(* reader: "a\x41\x4g\101\7\u00e9\U0001F600\'\?" -> a A 0x04 g A 0x07 C3 A9 F0 9F 98 80 ' ? *)
Definition tv_parse1 := parse_string_lit
  [34; 97; 92;120;52;49; 92;120;52;103; 92;49;48;49; 92;55; 92;117;48;48;101;57;
   92;85;48;48;48;49;70;54;48;48; 92;39; 92;63; 34].
(* reader rejects: raw newline, \U00110000, unterminated, trailing bytes after the quote *)
Definition tv_parse_bad :=
  [parse_string_lit [34;10;34];
   parse_string_lit [34;92;85;48;48;49;49;48;48;48;48;34];
   parse_string_lit [34;97];
   parse_string_lit [34;34;32]].
Definition tv_round1 := parse_string_lit tv1.
Definition tv_split := split_dot [97;46;98;99;46;46;100].
Definition tv_join := join_dot [[97];[98;99];[100]].
(* prefix lexer: tv1 followed by ; and a space *)
Definition tv_lex1 := lex_string_lit (tv1 ++ [59; 32]).
(* reader on raw invalid UTF-8 (FF -> U+FFFD), \ud800 (-> U+FFFD), \377\0\12z, \X4a\a\b\f\v,
   \x4 (one digit before the quote), and the rejected \400, raw NUL, \xg, \x-1 (sign: see lex_escape) *)
Definition tv_parse2 :=
  [parse_string_lit [34;255;195;169;34];
   parse_string_lit [34;92;117;100;56;48;48;34];
   parse_string_lit [34;92;51;55;55;92;48;92;49;50;122;34];
   parse_string_lit [34;92;88;52;97;92;97;92;98;92;102;92;118;34];
   parse_string_lit [34;92;120;52;34];
   parse_string_lit [34;92;52;48;48;34];
   parse_string_lit [34;0;34];
   parse_string_lit [34;92;120;103;34];
   parse_string_lit [34;92;120;45;49;34]].

(* BclDoc.v — the position-free document a source text denotes: the declarative reading C09 compares
   input and formatter output by.  Independent of every formatter function (only the parser's data types
   and strings.Fields on runes): block headers (type, tags with marks, qualifiers, description, open flag,
   trailing comment), assignments (key, operator, the flattened value tokens as (type code, literal) with
   19/20 for the array brackets, trailing comment), descriptions as paragraphs of words, comments, closing
   braces; and the same over the nested tree ParseFile returns.  No proofs here. *)
From Coq Require Import String List NArith ZArith Bool.
From J5V.lib Require Import Text Outcome.
From J5V.model Require Import BclLexer BclParser BclFmt.
Import ListNotations.

(* ---- the position-free document of a fragment list -------------------------------------------- *)
Definition tok_doc (t : token) : N * list N := (tt_code (ty t), lit t).
Fixpoint value_doc (v : value) : list (N * list N) :=
  match v with
  | VTok t _ _ => [tok_doc t]
  | VArr vs _ _ => (19%N, []) :: flat_map value_doc vs ++ [(20%N, [])]
  end.
Definition ref_doc (r : reference) : list (list N) := map lit r.
Definition mark_code (m : mark) : N := match m with MarkNone => 0 | MarkBang => 1 | MarkQuestion => 2 end%N.
Definition tag_doc (t : tag) : N * list (N * list N) :=
  (mark_code (tmark t),
   match tbody t with TagRef r => map (fun i => (5%N, i)) (ref_doc r) | TagVal v => value_doc v end).
(* descriptions: paragraphs of words *)
Fixpoint paragraphs (lines : list (list N)) (cur : list (list N)) : list (list (list N)) :=
  match lines with
  | [] => match cur with [] => [] | _ => [cur] end
  | l :: r => match fields l with
              | [] => match cur with [] => paragraphs r [] | _ => cur :: paragraphs r [] end
              | ws => paragraphs r (cur ++ ws)
              end
  end.
Definition desc_doc (value : list N) : list (list (list N)) := paragraphs (split_on 10 value) [].
Definition comment_doc (c : option comment) : option (list N) := option_map cvalue c.

Inductive frag_doc :=
| DHeader (ty : list (list N)) (tags quals : list (N * list (N * list N))) (desc : option (list (list (list N))))
          (op : bool) (c : option (list N))
| DAssign (key : list (list N)) (app : bool) (v : list (N * list N)) (c : option (list N))
| DDesc (paras : list (list (list N)))
| DComment (t : N * list N)
| DClose.

Definition doc_of (f : fragment) : frag_doc :=
  match f with
  | FHeader h => DHeader (ref_doc (htype h)) (map tag_doc (htags h)) (map tag_doc (hquals h))
                         (option_map (fun d => desc_doc (dvalue d)) (hdesc h)) (hopen h) (comment_doc (hcomment h))
  | FAssign a => DAssign (ref_doc (akey a)) (aappend a) (value_doc (avalue a)) (comment_doc (acomment a))
  | FDesc d => DDesc (desc_doc (dvalue d))
  | FComment t => DComment (tok_doc t)
  | FClose _ => DClose
  end.

Definition accepted (data : list N) : Prop := exists body, parse_runes true data = Ok (mkP (Some body) []).
(* the same for the Go string: ParseFile(input, failFast) on bytes *)
Definition accepted_bytes (input : list N) : Prop := exists body, parse_file input true = Ok (mkP (Some body) []).

(* ---- the same over the syntax tree ParseFile returns (comments dropped by fragmentsToFile, blocks nest) *)
Inductive tdoc := TBlock (h : frag_doc) (body : list tdoc) | TLeaf (d : frag_doc).
Fixpoint stmt_doc (s : stmt) : tdoc :=
  match s with
  | SBlock h body => TBlock (doc_of (FHeader h)) (map stmt_doc body)
  | SAssign a => TLeaf (doc_of (FAssign a))
  | SDesc d => TLeaf (doc_of (FDesc d))
  end.

(* CodecEncSpec.v — the documented J5 wire format as a declarative specification
   (what C08 demands of every successful encoding), independent of how the encoder
   computes it.  The per-type JSON representation is read off README.md's "Scalar
   Types" table (gen/ReadmeGen.v) through [readme_class]; the hand-written
   [spec_class] is proved equal to it in proofs/CodecEncProofs.v.
   Also: the tables of the Go switches the model mirrors (compared with
   gen/EncSwitchGen.v there).  No proofs in this file. *)
From Coq Require Import String List NArith ZArith Bool Ascii.
From J5V.lib Require Import Outcome Json JsonPrint Base64 Civil.
From J5V.model Require Import CodecTypes CodecEnc.
From J5V.gen Require ReadmeGen EncSwitchGen.
Import ListNotations.
Local Open Scope bool_scope.

(* ------------------------------------------------------------------ README classes *)
Inductive wclass := WUnquoted | WQuoted | WString | WBool | WBase64 | WRfc3339 | WDate.

Definition wclass_eqb (a b : wclass) : bool :=
  match a, b with
  | WUnquoted, WUnquoted | WQuoted, WQuoted | WString, WString | WBool, WBool
  | WBase64, WBase64 | WRfc3339, WRfc3339 | WDate, WDate => true
  | _, _ => false
  end.

Local Open Scope string_scope.

(* the README's wording for the JSON type column *)
Definition readme_class (s : string) : option wclass :=
  if String.eqb s "unquoted literal" then Some WUnquoted
  else if String.eqb s "quoted string" then Some WQuoted
  else if String.eqb s "string" then Some WString
  else if String.eqb s "bool (true,false)" then Some WBool
  else if String.eqb s "base64 std string" then Some WBase64
  else if String.eqb s "RFC3339 string" then Some WRfc3339
  else if String.eqb s "string ""YYYY-MM-DD""" then Some WDate
  else None.

(* the README's name for each scalar kind (first column) *)
Definition readme_name (k : scalar_kind) : string :=
  match k with
  | KString => "string" | KBool => "bool"
  | KInt32 => "integer:INT32" | KInt64 => "integer:INT64"
  | KUint32 => "integer:UINT32" | KUint64 => "integer:UINT64"
  | KFloat32 => "float:FLOAT32" | KFloat64 => "float:FLOAT64"
  | KBytes => "bytes" | KTimestamp => "timestamp" | KDate => "date"
  | KDecimal => "decimal" | KKey => "key"
  end.

Fixpoint readme_lookup (rows : list (string * string * string)) (name : string) : option string :=
  match rows with
  | [] => None
  | (n, _, j) :: r => if String.eqb n name then Some j else readme_lookup r name
  end.

Definition readme_class_of (k : scalar_kind) : option wclass :=
  match readme_lookup ReadmeGen.scalar_rows (readme_name k) with
  | Some s => readme_class s
  | None => None
  end.

(* the specification's own table *)
Definition spec_class (k : scalar_kind) : wclass :=
  match k with
  | KInt32 | KUint32 | KFloat32 | KFloat64 => WUnquoted
  | KInt64 | KUint64 | KDecimal => WQuoted
  | KString | KKey => WString
  | KBool => WBool
  | KBytes => WBase64
  | KTimestamp => WRfc3339
  | KDate => WDate
  end.

(* ------------------------------------------------------------------ the Go switches, as the model reads them *)
Definition expected_encode_scalar_arms : list (string * list string * list string) := [
  ("string", ["addString"], []);                    (* KString KKey: escape s *)
  ("bool", ["addBool"], []);                        (* KBool *)
  ("int32", ["addInt32"], []);                      (* KInt32: bare digits *)
  ("int64", ["addInt64"], []);                      (* KInt64: quoted digits *)
  ("uint32", ["addUint32"], []);                    (* KUint32 *)
  ("uint64", ["addUint64"], []);                    (* KUint64 *)
  ("float32", ["addFloat"], []);                    (* KFloat32: enc_float true *)
  ("float64", ["addFloat"], []);                    (* KFloat64: enc_float false *)
  ("[]byte", ["addString"], []);                    (* KBytes: escape (b64_encode s) *)
  ("*date_j5t.Date", ["addString"], []);            (* KDate: escape (date_string ..) *)
  ("*decimal_j5t.Decimal", ["addString"], []);      (* KDecimal: escape value *)
  ("time.Time", ["addString"], []);                 (* KTimestamp: escape (format_rfc3339nano ..) *)
  ("default", [], ["fmt.Errorf"])
].

Definition expected_encoder_helpers : list (string * list string * list string) := [
  ("addString", ["add"], []);
  ("addQuoted", ["add"; "add"; "add"], []);
  ("addInt32", ["add"], ["strconv.FormatInt"]);
  ("addUint32", ["add"], ["strconv.FormatUint"]);
  ("addInt64", ["addQuoted"], ["strconv.FormatInt"]);
  ("addUint64", ["addQuoted"], ["strconv.FormatUint"]);
  ("addBool", ["add"; "add"], []);
  ("addFloat", ["addQuoted"; "addQuoted"; "addQuoted"; "add"],
               ["math.IsNaN"; "math.IsInf"; "math.IsInf"; "strconv.FormatFloat"])
].

Definition expected_go_from_reflect_arms : list (string * string * string) := [
  ("*schema_j5pb.Field_Any", "", "AnyValue(val.Interface())");
  ("*schema_j5pb.Field_Bool", "", "val.Bool()");
  ("*schema_j5pb.Field_String_", "", "val.String()");
  ("*schema_j5pb.Field_Key", "", "val.String()");
  ("*schema_j5pb.Field_Integer", "schema_j5pb.IntegerField_FORMAT_INT32", "int32(val.Int())");
  ("*schema_j5pb.Field_Integer", "schema_j5pb.IntegerField_FORMAT_INT64", "val.Int()");
  ("*schema_j5pb.Field_Integer", "schema_j5pb.IntegerField_FORMAT_UINT32", "uint32(val.Uint())");
  ("*schema_j5pb.Field_Integer", "schema_j5pb.IntegerField_FORMAT_UINT64", "val.Uint()");
  ("*schema_j5pb.Field_Integer", "default", "nil");
  ("*schema_j5pb.Field_Float", "schema_j5pb.FloatField_FORMAT_FLOAT32", "float32(val.Float())");
  ("*schema_j5pb.Field_Float", "schema_j5pb.FloatField_FORMAT_FLOAT64", "val.Float()");
  ("*schema_j5pb.Field_Float", "default", "nil");
  ("*schema_j5pb.Field_Bytes", "", "val.Bytes()");
  ("*schema_j5pb.Field_Date", "", "val");
  ("*schema_j5pb.Field_Decimal", "", "val");
  ("*schema_j5pb.Field_Timestamp", "", "t via time.Unix");
  ("default", "", "nil via fmt.Errorf")
].

(* Go type of the value scalarGoFromReflect hands to encodeScalarField *)
Definition kind_go_type (k : scalar_kind) : string :=
  match k with
  | KString | KKey => "string" | KBool => "bool"
  | KInt32 => "int32" | KInt64 => "int64" | KUint32 => "uint32" | KUint64 => "uint64"
  | KFloat32 => "float32" | KFloat64 => "float64"
  | KBytes => "[]byte" | KDate => "*date_j5t.Date" | KDecimal => "*decimal_j5t.Decimal"
  | KTimestamp => "time.Time"
  end.

(* how an arm of the generated tables writes its value: through addString (an escaped
   string), through addQuoted only (digits in quotes), or bare *)
Inductive arm_repr := RString | RQuoted | RBare | RFloat | RBoolLit | RUnknown.

Definition arm_repr_eqb (a b : arm_repr) : bool :=
  match a, b with
  | RString, RString | RQuoted, RQuoted | RBare, RBare | RFloat, RFloat | RBoolLit, RBoolLit => true
  | _, _ => false
  end.

Fixpoint assoc3 (tbl : list (string * list string * list string)) (k : string) : option (list string * list string) :=
  match tbl with
  | [] => None
  | (n, a, b) :: r => if String.eqb n k then Some (a, b) else assoc3 r k
  end.

Definition mem_str (x : string) (l : list string) : bool := existsb (String.eqb x) l.

Definition repr_from_tables (arms helpers : list (string * list string * list string)) (k : scalar_kind) : arm_repr :=
  match assoc3 arms (kind_go_type k) with
  | Some ([m], _) =>
      if String.eqb m "addString" then RString
      else if String.eqb m "addBool" then RBoolLit
      else match assoc3 helpers m with
           | Some (calls, pk) =>
               if mem_str "strconv.FormatFloat" pk then RFloat
               else if mem_str "addQuoted" calls && negb (mem_str "add" calls) then RQuoted
               else if mem_str "add" calls && negb (mem_str "addQuoted" calls) then RBare
               else RUnknown
           | None => RUnknown
           end
  | _ => RUnknown
  end.

(* what the model's enc_scalar does for the kind *)
Definition model_repr (k : scalar_kind) : arm_repr :=
  match k with
  | KInt32 | KUint32 => RBare
  | KInt64 | KUint64 => RQuoted
  | KFloat32 | KFloat64 => RFloat
  | KBool => RBoolLit
  | KString | KKey | KBytes | KDate | KDecimal | KTimestamp => RString
  end.

(* ... and which README class that representation realises *)
Definition repr_class_ok (r : arm_repr) (c : wclass) : bool :=
  match r, c with
  | RBare, WUnquoted | RFloat, WUnquoted => true
  | RQuoted, WQuoted => true
  | RBoolLit, WBool => true
  | RString, WString | RString, WQuoted | RString, WBase64 | RString, WRfc3339 | RString, WDate => true
  | _, _ => false
  end.

Local Close Scope string_scope.
Local Open Scope N_scope.

(* ------------------------------------------------------------------ the wire format *)
(* values inside the documented domain (elsewhere only well-formedness is demanded) *)
Definition date_in_range (y m d : Z) : bool :=
  ((1 <=? y) && (y <=? 9999) && (1 <=? m) && (m <=? 12) && (1 <=? d) && (d <=? 31))%Z.

Definition ts_in_range (s ns : Z) : bool :=
  ((-62135596800 <=? s) && (s <=? 253402300799) && (0 <=? ns) && (ns <=? 999999999))%Z.

Definition zfield (n : N) (m : msg) : Z := match msg_get n m with Some (VInt z) => z | _ => 0%Z end.
Definition sfield (n : N) (m : msg) : bytes :=
  match msg_get n m with Some (VStr s) => s | Some (VBytes s) => s | _ => [] end.

Section Spec.
  Variable fmt_float : bool -> N -> bytes.
  Variable env : env.

  (* the text of an in-domain scalar *)
  Definition scalar_text (k : scalar_kind) (v : pval) : option bytes :=
    match k, v with
    | KInt32, VInt z | KUint32, VInt z | KInt64, VInt z | KUint64, VInt z => Some (print_Z z)
    | KFloat32, VFloat b => if float_finite true b then Some (fmt_float true b) else None
    | KFloat64, VFloat b => if float_finite false b then Some (fmt_float false b) else None
    | KString, VStr s | KKey, VStr s => Some s
    | KBytes, VBytes s => Some (b64_encode s)
    | KDecimal, VMsg m => Some (sfield 1 m)
    | KDate, VMsg m =>
        let y := zfield 1 m in let mo := zfield 2 m in let d := zfield 3 m in
        if date_in_range y mo d then Some (date_string y mo d) else None
    | KTimestamp, VMsg m =>
        let s := zfield 1 m in let ns := zfield 2 m in
        if ts_in_range s ns then Some (format_rfc3339nano s ns) else None
    | _, _ => None
    end.

  (* README class -> JSON token *)
  Definition class_token (c : wclass) (t : bytes) : jvalue :=
    match c with
    | WUnquoted => JNum t
    | _ => JStr t
    end.

  (* a scalar is in the documented format: booleans are the bare literals; every other
     in-domain value is its text as the token the README names; outside the domain
     (non-finite floats, out-of-range dates and timestamps) any JSON value is allowed *)
  Definition wire_scalar (k : scalar_kind) (v : pval) (j : jvalue) : Prop :=
    match k, v with
    | KBool, VBool b => j = JBool b
    | _, _ => match scalar_text k v with
              | Some t => j = class_token (spec_class k) t
              | None => True
              end
    end.

  (* presence, stated on the message alone: the proto path leads through populated fields *)
  Fixpoint present (path : list N) (m : msg) : option pval :=
    match path with
    | [] => None
    | [n] => msg_get n m
    | n :: rest => match msg_get n m with Some (VMsg sub) => present rest sub | _ => None end
    end.

  Definition members_present (ps : list property) (m : msg) : list (property * pval) :=
    flat_map (fun p => match present (p_path p) m with Some v => [(p, v)] | None => [] end) ps.

  (* an exposed oneof (empty path) is present when exactly one of its members is *)
  Definition prop_present (p : property) (m : msg) : option pval :=
    match p_path p with
    | [] => match p_ty p with
            | FOneof r => match lookup env r with
                          | Some (SOneof ps) => match members_present ps m with
                                                | [_] => Some (VMsg m)
                                                | _ => None
                                                end
                          | _ => None
                          end
            | _ => None
            end
    | path => present path m
    end.

  Definition any_type_name (pb : bool) (m : msg) : bytes :=
    if pb then trim_prefix any_prefix (sfield 1 m) else sfield 1 m.

  Inductive wire_value : field_ty -> pval -> jvalue -> Prop :=
  | W_scalar k v j : wire_scalar k v j -> wire_value (FScalar k) v j
  | W_enum r pre opts n name :
      lookup env r = Some (SEnum pre opts) -> option_by_number opts n = Some name ->
      wire_value (FEnum r) (VEnum n) (JStr name)
  | W_object r ps m ms :
      lookup env r = Some (SObject ps) -> wire_members ps m ms ->
      wire_value (FObject r) (VMsg m) (JObj ms)
  | W_oneof r ps m j :
      lookup env r = Some (SOneof ps) -> wire_oneof ps m j ->
      wire_value (FOneof r) (VMsg m) j
  | W_array it l js :
      Forall2 (wire_value it) l js -> wire_value (FArray it) (VList l) (JArr js)
  | W_map it es ms :
      Forall2 (fun kv km => fst kv = fst km /\ wire_value it (snd kv) (snd km)) es ms ->
      wire_value (FMap it) (VMap es) (JObj ms)
  | W_any pb m j :
      (* the value of a j5 Any that stores JSON text is that text's JSON value (for a payload stored as
         proto bytes it is whatever the inner encoding yields: outside this specification) *)
      (forall s, pb = false -> msg_get 3 m = Some (VBytes s) -> strict_parse s = Some j) ->
      wire_value (FAny pb) (VMsg m) (JObj [(txt_type, JStr (any_type_name pb m)); (txt_value, j)])
  (* members: exactly the present properties, under their JSON names, unset ones omitted,
     flattened ones inlined (their path leads into the sub-message) *)
  with wire_members : list property -> msg -> list (bytes * jvalue) -> Prop :=
  | WM_nil m : wire_members [] m []
  | WM_unset p ps m ms :
      prop_present p m = None -> wire_members ps m ms -> wire_members (p :: ps) m ms
  | WM_set p ps m v j ms :
      prop_present p m = Some v -> wire_value (p_ty p) v j -> wire_members ps m ms ->
      wire_members (p :: ps) m ((p_json p, j) :: ms)
  (* oneof: {} when nothing is set, else "!type" naming the member plus exactly that member *)
  with wire_oneof : list property -> msg -> jvalue -> Prop :=
  | WO_empty ps m : (forall p, In p ps -> prop_present p m = None) -> wire_oneof ps m (JObj [])
  | WO_one ps m p v j :
      In p ps -> prop_present p m = Some v ->
      (forall q, In q ps -> q <> p -> prop_present q m = None) ->
      wire_value (p_ty p) v j ->
      wire_oneof ps m (JObj [(txt_type, JStr (p_json p)); (p_json p, j)]).

  Definition wire_format (root : bytes) (m : msg) (j : jvalue) : Prop :=
    match lookup env root with
    | Some (SObject ps) => exists ms, j = JObj ms /\ wire_members ps m ms
    | Some (SOneof ps) => wire_oneof ps m j
    | _ => False
    end.
End Spec.

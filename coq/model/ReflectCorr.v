(* ReflectCorr.v — correspondence cases for C18: what the real reader / reflector / codec were
   observed to do on a linked descriptor set, checked against the model by vm_compute.
   Only projected observables are compared: outcome class, the reflected schema set as a
   canonical term, the usability class of the codec on every reflected type. *)
From Coq Require Import String List NArith ZArith Bool.
From J5V.lib Require Import Outcome Corr.
From J5V.model Require Import ReflectDesc ReflectSchema Reflect ReflectOwn ReflectSpec ReflectNames.
Import ListNotations.
Local Open Scope bool_scope.

(* ---- decidable equality of schema terms (transparent: evaluated by vm_compute) *)
Definition str_dec : forall a b : str, {a = b} + {a <> b} := list_eq_dec N.eq_dec.
Definition optb_dec : forall a b : option bool, {a = b} + {a <> b}.
Proof. decide equality; apply bool_dec. Defined.
Definition optN_dec : forall a b : option N, {a = b} + {a <> b}.
Proof. decide equality; apply N.eq_dec. Defined.
Definition optZ_dec : forall a b : option Z, {a = b} + {a <> b}.
Proof. decide equality; apply Z.eq_dec. Defined.
Definition optstr_dec : forall a b : option str, {a = b} + {a <> b}.
Proof. decide equality; apply str_dec. Defined.
Definition ref_dec : forall a b : ref, {a = b} + {a <> b}.
Proof. decide equality; apply str_dec. Defined.
Definition kind_dec : forall a b : kind, {a = b} + {a <> b}.
Proof. decide equality. Defined.
Definition strbounds_dec : forall a b : strbounds, {a = b} + {a <> b}.
Proof. decide equality; try apply optb_dec; apply optstr_dec. Defined.
Definition zbounds_dec : forall a b : zbounds, {a = b} + {a <> b}.
Proof. decide equality; try apply optb_dec; apply optZ_dec. Defined.
Definition zz_dec : forall a b : Z * Z, {a = b} + {a <> b}.
Proof. decide equality; apply Z.eq_dec. Defined.
Definition optzz_dec : forall a b : option (Z * Z), {a = b} + {a <> b}.
Proof. decide equality; apply zz_dec. Defined.
Definition tsbounds_dec : forall a b : tsbounds, {a = b} + {a <> b}.
Proof. decide equality; try apply optb_dec; apply optzz_dec. Defined.
Definition strlen_dec : forall a b : strlen, {a = b} + {a <> b}.
Proof. decide equality; try apply optN_dec; apply optstr_dec. Defined.
Definition keyformat_dec : forall a b : keyformat, {a = b} + {a <> b}.
Proof. decide equality; apply str_dec. Defined.
Definition entitykey_dec : forall a b : entitykey, {a = b} + {a <> b}.
Proof. decide equality; apply N.eq_dec. Defined.
Definition entityk_dec : forall a b : entityk, {a = b} + {a <> b}.
Proof. decide equality; [apply optstr_dec|apply entitykey_dec]. Defined.
Definition opt_dec {A} (d : forall a b : A, {a = b} + {a <> b}) : forall a b : option A, {a = b} + {a <> b}.
Proof. decide equality. Defined.
Definition pair_dec {A B} (da : forall a b : A, {a = b} + {a <> b}) (db : forall a b : B, {a = b} + {a <> b}) :
  forall a b : A * B, {a = b} + {a <> b}.
Proof. decide equality. Defined.

Definition sproto_dec : forall a b : sproto, {a = b} + {a <> b}.
Proof.
  decide equality;
    try apply optN_dec; try apply N.eq_dec; try apply optstr_dec;
    try (apply opt_dec; first [apply optb_dec | apply zbounds_dec | apply strlen_dec | apply keyformat_dec
                              | apply entityk_dec | apply tsbounds_dec | apply strbounds_dec
                              | apply (pair_dec optN_dec optN_dec)]).
Defined.

Definition fschema_dec : forall a b : fschema, {a = b} + {a <> b}.
Proof.
  decide equality;
    try apply bool_dec; try apply optN_dec; try apply ref_dec; try apply sproto_dec;
    try apply (list_eq_dec str_dec);
    try (apply opt_dec; first [apply (pair_dec kind_dec str_dec)
                              | apply (pair_dec (list_eq_dec str_dec) (list_eq_dec str_dec))
                              | apply (pair_dec optN_dec optN_dec)
                              | apply (pair_dec (pair_dec optN_dec optN_dec) optb_dec)
                              | apply optstr_dec]).
Defined.

Definition prop_dec : forall a b : prop, {a = b} + {a <> b}.
Proof.
  decide equality; try apply bool_dec; try apply str_dec; try apply fschema_dec; apply (list_eq_dec N.eq_dec).
Defined.
Definition info_dec : forall a b : option (list (str * str)), {a = b} + {a <> b} :=
  opt_dec (list_eq_dec (pair_dec str_dec str_dec)).
Definition enumoption_dec : forall a b : enumoption, {a = b} + {a <> b}.
Proof. decide equality; try apply str_dec; try apply Z.eq_dec; apply info_dec. Defined.
Definition root_dec : forall a b : root, {a = b} + {a <> b}.
Proof.
  decide equality; try apply str_dec; try apply (list_eq_dec prop_dec); try apply (list_eq_dec str_dec);
    try apply (list_eq_dec enumoption_dec);
    try apply (opt_dec (pair_dec str_dec N.eq_dec));
    apply (list_eq_dec (pair_dec (pair_dec str_dec str_dec) str_dec)).
Defined.
Definition root_eqb (a b : root) : bool := if root_dec a b then true else false.

Definition client_paths_dec : forall a b : list (str * list N), {a = b} + {a <> b} :=
  list_eq_dec (pair_dec str_dec (list_eq_dec N.eq_dec)).

(* The codec observation sets one client property at a time. A singular enum field with implicit
   presence whose enum has a single value (number 0) cannot be given a value the codec sees as set, and
   an enum with no_default and a single value has no legal value at all: such properties are never
   exercised on the real side, so they are left out on the model side as well. *)
Definition settable (D : desc) (f : field) : bool :=
  match f_kind f with
  | KEnum =>
      match find_enum D (value_full f) with
      | Some (Enum _ _ _ [_] eo _) =>
          match eo with
          | Some (EnumOpt true _) => false
          | _ => match f_card f with CSingle => false | _ => true end
          end
      | _ => true
      end
  | _ => true
  end.
Definition obs_codec_classes (D : desc) (st : sset) (m : msgd) (r : root) : N * N :=
  match new_prop_set D st r m with
  | Ok pfs =>
      (0%N, fold_right (fun pf acc =>
                          let q := last_named pfs pf in
                          worst acc (match q with
                                     | (_, Some f) => if settable D f then prop_class D st m q else 0%N
                                     | _ => prop_class D st m q
                                     end)) 0%N pfs)
  | o => (cls o, cls o)
  end.

(* ---- observations *)
Inductive c18obs :=
| OSet (file : str) (class : N) (consistent : bool) (set : list (ref * option root))  (* SchemaSetFromFiles including one file *)
| OMsg (full : str) (class : N) (consistent : bool) (r : option root)                 (* SchemaCache.Schema on a fresh cache *)
| OClient (full : str) (class : N) (dup : bool) (unresolved : bool) (paths : list (str * list N))
    (* ClientProperties of the reflected object: flags, and (JSON name, proto field path) of every client property in order *)
| OCodec (full : str) (class_empty class_fields : N)               (* codec: encode empty; worst over single-field messages *)
| OHist (l : list (str * N * bool)).   (* one shared cache, in call order: class, and whether an Ok answer is the very schema a fresh cache answers *)
Inductive c18case := C18Case (d : desc) (obs : list c18obs).

(* classes as the harness numbers them: 0 ok, 1 err, 2 panic, 3 process death / timeout *)
Definition entry_matches (st : sset) (ke : ref * option root) : bool :=
  match lookup st (fst ke), snd ke with
  | Some (Linked r), Some r' => root_eqb r r'
  | Some Placeholder, None => true
  | _, _ => false
  end.

(* The model the real code is compared with is the reader WITH the ownership of schema names
   (ReflectOwn.v: the code since fix 0e6056c); the schema set is the first component of its state. *)
Definition reflect_c (D : desc) (fs : list filed) : outcome sset := omap fst (ReflectNames.o_reflect_checked D fs).
Definition cache_c (D : desc) (s : ost) (m : msgd) : ost * outcome root := ReflectNames.o_cache_schema_checked D (size D) s m.
Definition fresh_c (D : desc) (m : msgd) : sset * outcome root :=
  let '(s, o) := cache_c D ([], []) m in (fst s, o).

Definition check_obs (D : desc) (o : c18obs) : bool :=
  match o with
  | OSet file class consistent set =>
      match find_file D file with
      | None => false
      | Some f =>
          match reflect_c D [f] with
          | Ok st => N.eqb class 0 && Nat.eqb (length st) (length set) && forallb (entry_matches st) set
                     && Bool.eqb consistent (set_consistent D st)
          | other => N.eqb class (cls other)
          end
      end
  | OMsg full class consistent r =>
      match find_msg D full with
      | None => false
      | Some m =>
          match fresh_c D m, r with
          | (st, Ok r1), Some r2 =>
              N.eqb class 0 && root_eqb r1 r2
              && Bool.eqb consistent (entry_consistent D st (msg_key m) (Linked r1))
          | (_, Ok _), None => false
          | (_, other), _ => N.eqb class (cls other)
          end
      end
  | OClient full class dup unresolved paths =>
      match find_msg D full with
      | None => false
      | Some m =>
          match fresh_c D m with
          | (st, Ok r) =>
              match client_props_of st r with
              | Ok ps => N.eqb class 0 && Bool.eqb dup (negb (names_unique_b ps))
                         && Bool.eqb unresolved (negb (props_resolve D st m ps))
                         && (if client_paths_dec (map (fun p => (p_json p, p_path p)) ps) paths then true else false)
              | other => N.eqb class (cls other)
              end
          | _ => false
          end
      end
  | OCodec full ce cf =>
      match find_msg D full with
      | None => false
      | Some m =>
          match fresh_c D m with
          | (st, Ok r) => let '(e, f) := obs_codec_classes D st m r in N.eqb ce e && N.eqb cf f
          | _ => false
          end
      end
  | OHist l =>
      (fix go (st : ost) (l : list (str * N * bool)) : bool :=
         match l with
         | [] => true
         | (full, class, same) :: rest =>
             match find_msg D full with
             | None => false
             | Some m => let '(st1, o) := cache_c D st m in
                         (* a Go panic unwinds through Schema without the roll-back: what the cache holds
                            afterwards is not modelled, the comparison stops there *)
                         N.eqb class (cls o) &&
                         (* cache transparency of values, observed: the answer of the shared cache against
                            the answer of a fresh one (true when either does not answer) *)
                         (match o with
                          | Ok r => match snd (fresh_c D m) with
                                    | Ok r' => Bool.eqb same (root_eqb r r')
                                    | _ => same
                                    end
                          | _ => same
                          end) &&
                         (if N.eqb (cls o) 2 then true else go st1 rest)
             end
         end) ([], []) l
  end.

Definition c18_check (c : c18case) : bool :=
  match c with C18Case D obs => forallb (check_obs D) obs end.

(* what the model computes for an observation (for diagnosis) *)
Definition obs_model (D : desc) (o : c18obs) : list N :=
  match o with
  | OSet file _ _ _ =>
      match find_file D file with
      | None => [99%N]
      | Some f => match reflect_c D [f] with
                  | Ok st => [0%N; N.of_nat (length st); if set_consistent D st then 1%N else 0%N]
                  | other => [cls other]
                  end
      end
  | OMsg full _ _ _ =>
      match find_msg D full with
      | None => [99%N]
      | Some m => match fresh_c D m with
                  | (st, Ok r1) => [0%N; if entry_consistent D st (msg_key m) (Linked r1) then 1%N else 0%N]
                  | (_, other) => [cls other]
                  end
      end
  | OClient full _ _ _ paths =>
      match find_msg D full with
      | None => [99%N]
      | Some m => match fresh_c D m with
                  | (st, Ok r) => match client_props_of st r with
                                  | Ok ps => [0%N; if names_unique_b ps then 0%N else 1%N; if props_resolve D st m ps then 0%N else 1%N;
                                              if client_paths_dec (map (fun p => (p_json p, p_path p)) ps) paths then 0%N else 1%N]
                                  | other => [cls other]
                                  end
                  | _ => [98%N]
                  end
      end
  | OCodec full _ _ =>
      match find_msg D full with
      | None => [99%N]
      | Some m => match fresh_c D m with
                  | (st, Ok r) => let '(e, f) := obs_codec_classes D st m r in [e; f]
                  | _ => [98%N]
                  end
      end
  | OHist l =>
      (fix go (st : ost) (l : list (str * N * bool)) : list N :=
         match l with
         | [] => []
         | (full, _, _) :: rest =>
             match find_msg D full with
             | None => [99%N]
             | Some m => let '(st1, o) := cache_c D st m in cls o :: go st1 rest
             end
         end) ([], []) l
  end.
Definition c18_model (c : c18case) : list (list N) :=
  match c with C18Case D obs => map (obs_model D) obs end.

(* positions of the failing observations of a case (for diagnosis) *)
Definition c18_failing (c : c18case) : list N :=
  match c with C18Case D obs => failing (check_obs D) obs end.

(* RulesSpecDec.v — boolean decision procedures for the declarative specification
   model/RulesSpec.v. Definitions only; that each decides its Prop is proved in
   proofs/RulesProofs.v (int_rule_ok_spec, within_spec, uuid_regex_spec,
   id62_ok_spec, distinct_spec, enum_ok_spec, ty_ok_spec, rule_semb_spec, ...).
   The correspondence evaluates [rule_semb] on every generated value and compares
   it with the Go oracle's reading of the declaration. *)
From Coq Require Import String List NArith ZArith Bool.
From J5V.model Require Import RulesDecl RulesWrite RulesSpec Validate.
Import ListNotations.
Local Open Scope Z_scope.

Definition int_rule_ok (r : int_rules) (z : Z) : bool :=
  match ir_min r with
  | None => true
  | Some m => if is_true (ir_xmin r) then m <? z else m <=? z
  end &&
  match ir_max r with
  | None => true
  | Some m => if is_true (ir_xmax r) then z <? m else z <=? m
  end.

Definition within_b (lo hi : option N) (n : N) : bool := opt_leN lo n && opt_geN hi n.

Definition alnum_b (c : N) : bool :=
  ((48 <=? c) && (c <=? 57) || (65 <=? c) && (c <=? 90) || (97 <=? c) && (c <=? 122))%N.

Definition id62_ok (s : str) : bool := Nat.eqb (length s) 22 && forallb alnum_b s.

Fixpoint distinct (vs : list value) : bool :=
  match vs with
  | [] => true
  | v :: r => negb (existsb (value_eqb v) r) && distinct r
  end.

Definition is_float_value (v : value) : bool := match v with VFloat _ => true | _ => false end.

Definition arr_rule_ok (r : arr_rules) (vs : list value) : bool :=
  within_b (ar_min r) (ar_max r) (count vs) && (if is_true (ar_uniq r) then distinct vs else true).

(* full name of the option with number n (n >= 1), of the explicit zero option (n = 0) *)
Definition option_name (env : enum_env) (n : Z) : option str :=
  if n =? 0 then match ee_zero env with Some z => Some (with_prefix env z) | None => None end
  else
  if (1 <=? n) && (n <=? Z.of_nat (length (ee_options env)))
  then match nth_error (ee_options env) (Z.to_nat (n - 1)) with
       | Some o => Some (with_prefix env o)
       | None => None
       end
  else None.

Definition names_full (env : enum_env) (l : list str) : list str := map (with_prefix env) l.

Definition enum_rule_ok (env : enum_env) (r : enum_rules) (n : Z) : bool :=
  match er_in r with
  | [] => true
  | l => match option_name env n with Some nm => mem_str nm (names_full env l) | None => false end
  end &&
  match option_name env n with Some nm => negb (mem_str nm (names_full env (er_notin r))) | None => true end.

Definition enum_ok (env : enum_env) (r : option enum_rules) (n : Z) : bool :=
  memZ n (defined_numbers env) && match r with Some r => enum_rule_ok env r n | None => true end.

Section Decide.
Variable re_match : str -> str -> bool.

Definition str_rule_ok (r : str_rules) (s : str) : bool :=
  within_b (sr_min r) (sr_max r) (len s) &&
  match sr_pat r with Some p => re_match p s | None => true end.

Definition len_rule_ok (r : len_rules) (b : str) : bool := within_b (lr_min r) (lr_max r) (len b).

Definition key_ok (f : kfmt) (s : str) : bool :=
  match f with
  | KInformal => true
  | KCustom p => re_match p s
  | KUuid => uuid_regex s
  | KId62 => id62_ok s
  end.

Definition ty_ok (env : enum_env) (t : fty) (v : value) : bool :=
  match t, v with
  | TInt _ (Some r) _, VInt z => int_rule_ok r z
  | TStr _ (Some r) _, VStr s => str_rule_ok r s
  | TBytes (Some r), VBytes b => len_rule_ok r b
  | TBool (Some (Some c)) _, VBool b => Bool.eqb b c
  | TEnum r _, VEnum n => enum_ok env r n
  | TKey (Some f) _ _, VStr s => key_ok f s
  | _, _ => true
  end.

Definition must_b (d : prop) : bool :=
  p_req d || match p_ty d with PSingle t => is_primary_ty t | _ => false end.

Definition nonempty {A} (l : list A) : bool := match l with [] => false | _ => true end.

Definition rule_semb (env : enum_env) (d : prop) (fv : fvalue) : bool :=
  match p_ty d, fv with
  | PSingle t, FAbsent => negb (must_b d)
  | PSingle t, FOne v =>
      (if must_b d then (p_opt d || is_msg_ty t) || negb (is_zero v) else true) && ty_ok env t v
  | PArray r _ t, FMany vs =>
      (if must_b d then nonempty vs else true)
      && match r with Some r => arr_rule_ok r vs | None => true end
      && forallb (ty_ok env t) vs
  | PMap r t, FMap kvs =>
      (if must_b d then nonempty kvs else true)
      && match r with Some r => within_b (mr_min r) (mr_max r) (count kvs) | None => true end
      && forallb (fun kv => ty_ok env t (snd kv)) kvs
  | _, _ => true
  end.

Fixpoint rule_objb (env : enum_env) (ds : list prop) (fvs : list fvalue) : bool :=
  match ds, fvs with
  | [], [] => true
  | d :: r, v :: s => rule_semb env d v && rule_objb env r s
  | _, _ => false
  end.

End Decide.

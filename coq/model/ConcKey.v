(* ConcKey.v — the machine of Conc.v with DESCRIPTORS and CACHE KEYS kept apart.

   lib/j5schema keys SchemaCache by (package, splitDescriptorName): the path of the
   descriptor inside its file joined with "_".  That function is not injective:
   the nested message  Col.Inner  and the top-level message  Col_Inner  of one package
   get the key  Col_Inner.  A call Schema(d) looks up key(d); on a hit it answers with
   whatever schema was built under that key (from whichever descriptor came first), on
   a miss it builds from d's own fields.  The same in refTo for the type of a field.

   In this file a node of the type universe (Conc.graph) is a DESCRIPTOR (a name of
   Conc.v is used as descriptor identity); [key : name -> name] gives the cache key
   of a descriptor.  Every map operation goes through [key]; what is built comes from
   the descriptor ([refs g d]); a cell remembers the descriptor it was registered for
   ([c_name]); the names a caller sees in a schema are keys (Go: RefSchema.FullName()),
   so result trees are renamed by [key].  With an injective [key] this is the machine
   of Conc.v up to that renaming (ConcKeyProofs.krun_injective), so everything proved
   there is about the keyed machine on collision-free type sets.

   Not modelled: an enum and a message under one key (/repo 32db692, d286176: an error
   of the build), an exposed oneof M.x and a message M_x (error "placeholder already
   exists").

   No proofs in this file. *)
From Coq Require Import List NArith Bool Arith.
From J5V.model Require Import Conc.
Import ListNotations.

(* key table as data: descriptor -> key, identity where not listed *)
Definition keymap := list (name * name).

Fixpoint key_of (km : keymap) (d : name) : name :=
  match km with
  | [] => d
  | (x, k) :: r => if N.eqb x d then k else key_of r d
  end.

(* what a lookup does when the cell it finds was registered for ANOTHER descriptor of the same key:
   HitServe  — answer with it (lib/j5schema up to d286176: the caller gets the schema of the other descriptor);
   HitCheck  — an error "schema name .. is used by both .. and .." (RefSchema remembers the descriptor
               that claimed the name; a hit of another descriptor fails the call / the enclosing build) *)
Inductive hitpol := HitServe | HitCheck.

(* the names a caller sees are keys (RefSchema.FullName(), ObjectSchema.FullName()) *)
Fixpoint tmap (f : name -> name) (t : utree) : utree :=
  match t with
  | UNode n kids => UNode (f n) (map (tmap f) kids)
  | UCut n => UCut (f n)
  | UUnlinked n => UUnlinked (f n)
  | UBad => UBad
  end.

(* the descriptor a cell was registered for *)
Definition cell_src (sh : shared) (c : cellid) (dflt : name) : name :=
  match nth_error (heap sh) c with
  | Some cl => c_name cl
  | None => dflt
  end.

Section Keyed.
Variable pol : hitpol.
Variable key : name -> name.

(* Schemas[key d] = &RefSchema{...}: the cell remembers its descriptor, the map and
   SchemaCache.registered hold the key *)
Definition kalloc (sh : shared) (d : name) : shared * cellid :=
  let c := length (heap sh) in
  (mkShared (heap sh ++ [mkCell d None]) ((key d, c) :: cmap sh) (reg sh ++ [key d]) (failed sh), c).

(* is the cell found under key d acceptable for descriptor d *)
Definition hit_ok (sh : shared) (c : cellid) (d : name) : bool :=
  match pol with
  | HitServe => true
  | HitCheck => N.eqb (cell_src sh c d) d
  end.

(* one step of a thread inside Schema(d) *)
Definition klstep (k : nat) (g : graph) (d : name) (sh : shared) (p : pc) : shared * (pc + result) :=
  match p with
  | PLookup =>
      match lookup (cmap sh) (key d) with
      | Some c =>
          if hit_ok sh c d then
            match cell_to sh c with
            | Some _ => (sh, inr (ROk (tmap key (unfold k (heap sh) c))))
            | None => (sh, inr (if existsb (Nat.eqb c) (failed sh) then RNil else RUnlinked))
            end
          else (sh, inr RErr)
      | None => (sh, inl PInsert)
      end
  | PInsert =>
      let (sh1, c) := kalloc sh d in
      let (sh2, p') := advance sh1 [mkFrame c (refs g d) []] in
      (sh2, inl p')
  | PRefLookup (f :: rest) =>
      match f_todo f with
      | m :: todo' =>
          match lookup (cmap sh) (key m) with
          | Some c =>
              if hit_ok sh c m then
                let (sh2, p') := advance sh (mkFrame (f_cell f) todo' (c :: f_done f) :: rest) in
                (sh2, inl p')
              else
                (* the field's build returns the error, and so does the build of the enclosing schema *)
                (fail_to sh (f_cell f), inl (match rest with [] => PFailRoot | _ :: _ => PFail rest end))
          | None => (sh, inl (PRefInsert (f :: rest)))
          end
      | [] => (sh, inl p)
      end
  | PRefInsert (f :: rest) =>
      match f_todo f with
      | m :: todo' =>
          let (sh1, c) := kalloc sh m in
          let (sh2, p') :=
            advance sh1 (mkFrame c (refs g m) [] :: mkFrame (f_cell f) todo' (c :: f_done f) :: rest) in
          (sh2, inl p')
      | [] => (sh, inl p)
      end
  | PReturn c => (sh, inr (ROk (tmap key (unfold k (heap sh) c))))
  | _ => lstep k g d sh p      (* PLinked, PFail, PFailRoot: no map operation, no result tree *)
  end.

Definition kgstep (d : disc) (k : nat) (g : graph) (t : tid) (st : state) : state :=
  match nth_error (s_thr st) t with
  | None => st
  | Some th =>
      match t_calls th with
      | [] => st
      | n :: _ =>
          match t_pc th with
          | PWait =>
              match d, s_lock st with
              | Guarded, None =>
                  mkState (reset_reg (s_sh st)) (Some t) (remove_tid t (s_waitq st))
                          (set_nth (s_thr st) t (with_pc th PLookup))
              | _, _ => st
              end
          | PEnter =>
              match d with
              | Unguarded => mkState (reset_reg (s_sh st)) (s_lock st) (s_waitq st) (set_nth (s_thr st) t (with_pc th PLookup))
              | Guarded =>
                  match s_lock st with
                  | None => mkState (reset_reg (s_sh st)) (Some t) (s_waitq st) (set_nth (s_thr st) t (with_pc th PLookup))
                  | Some _ => mkState (s_sh st) (s_lock st) (s_waitq st ++ [t]) (set_nth (s_thr st) t (with_pc th PWait))
                  end
              end
          | p =>
              let (sh', o) := klstep k g n (s_sh st) p in
              match o with
              | inl p' => mkState sh' (s_lock st) (s_waitq st) (set_nth (s_thr st) t (with_pc th p'))
              | inr res =>
                  let st' := mkState (finish_shared res sh') (s_lock st) (s_waitq st) (set_nth (s_thr st) t (finish_thread th res)) in
                  match d with
                  | Unguarded => st'
                  | Guarded => release st'
                  end
              end
          end
      end
  end.

Definition krun_from (d : disc) (k : nat) (g : graph) (sched : list tid) (st : state) : state :=
  fold_left (fun s t => kgstep d k g t s) sched st.

Definition krun (d : disc) (k : nat) (g : graph) (calls : list (list name)) (sched : list tid) : state :=
  krun_from d k g sched (init calls).

(* hand-off mutex (see Conc.hsched) *)
Definition khsched (gr : grant_policy) (d : disc) (k : nat) (g : graph) (t : tid) (st : state) : list tid :=
  let st' := kgstep d k g t st in
  if released_by t st st' then match gr st' with Some w => [t; w] | None => [t] end else [t].

Definition khstep (gr : grant_policy) (d : disc) (k : nat) (g : graph) (t : tid) (st : state) : state :=
  krun_from d k g (khsched gr d k g t st) st.

Fixpoint kexpand (gr : grant_policy) (d : disc) (k : nat) (g : graph) (sched : list tid) (st : state) : list tid :=
  match sched with
  | [] => []
  | t :: r => khsched gr d k g t st ++ kexpand gr d k g r (khstep gr d k g t st)
  end.

Fixpoint khrun_trace_from (gr : grant_policy) (d : disc) (k : nat) (g : graph) (sched : list tid) (st : state) : state * list N :=
  match sched with
  | [] => (st, [])
  | t :: r =>
      let st' := khstep gr d k g t st in
      let (st'', tr) := khrun_trace_from gr d k g r st' in
      (st'', label_of st' t :: tr)
  end.

Definition khrun_trace gr d k g calls sched := khrun_trace_from gr d k g sched (init calls).

(* which cell a returning call hands out *)
Definition kresult_cell (n : name) (sh : shared) (p : pc) : option cellid :=
  match p with
  | PLookup => lookup (cmap sh) (key n)
  | PReturn c => Some c
  | _ => None
  end.

Definition kgstep_ret (k : nat) (g : graph) (t : tid) (st : state) : option (tid * name * cellid) :=
  match nth_error (s_thr st) t with
  | None => None
  | Some th =>
      match t_calls th with
      | [] => None
      | n :: _ =>
          match t_pc th with
          | PEnter | PWait => None
          | p =>
              match snd (klstep k g n (s_sh st) p) with
              | inr (ROk _) =>
                  match kresult_cell n (s_sh st) p with
                  | Some c => Some (t, n, c)
                  | None => None
                  end
              | _ => None
              end
          end
      end
  end.

Fixpoint krets_from (d : disc) (k : nat) (g : graph) (sched : list tid) (st : state) : list (tid * name * cellid) :=
  match sched with
  | [] => []
  | t :: r =>
      match kgstep_ret k g t st with Some x => [x] | None => [] end ++ krets_from d k g r (kgstep d k g t st)
  end.

Definition krets d k g calls sched := krets_from d k g sched (init calls).

(* what Schema(d) returns when it is the only call ever made on a fresh cache *)
Definition kresult_solo (k : nat) (g : graph) (n : name) : result :=
  match results (krun Guarded k g [[n]] (repeat 0 (fuel_bound g [[n]]))) with
  | [r] :: _ => r
  | _ => RErr
  end.

End Keyed.

(* ---- the statement of C10 about results, over universes WITH key collisions ------------- *)
(* "each call returns the same result it returns when run alone", every schedule: *)
Definition C10_keyed_results (pol : hitpol) (d : disc) (key : name -> name) (k : nat) (g : graph) (calls : list (list name)) : Prop :=
  forall sched t, exists j,
    nth t (results (krun pol key d k g calls sched)) [] = map (kresult_solo pol key k g) (firstn j (nth t calls [])).

(* no two descriptors share a key *)
Definition key_injective (key : name -> name) : Prop := forall a b, key a = key b -> a = b.

(* the results clause of the property over ALL key functions — what /repo has to satisfy, since
   splitDescriptorName is a key function with collisions on valid protobuf files *)
Definition C10_keyed_statement (pol : hitpol) (d : disc) : Prop :=
  forall key k g calls, calls_ok calls -> C10_keyed_results pol d key k g calls.

(* renaming of results: what the caller sees carries keys *)
Definition rmap (f : name -> name) (r : result) : result :=
  match r with
  | ROk t => ROk (tmap f t)
  | other => other
  end.

(* ---- the keyed machine at an injective key is the machine of Conc.v, renamed ---------------- *)
(* the state of the machine of Conc.v as the keyed machine holds it: the map and
   SchemaCache.registered carry keys, the results handed to callers carry keys; heap (cells remember
   their descriptor), lock, queue, program counters and outstanding calls are the same *)
Section Rename.
Variable key : name -> name.
Definition kcmap (m : list (name * cellid)) : list (name * cellid) := map (fun e => (key (fst e), snd e)) m.
Definition kmapS (sh : shared) : shared := mkShared (heap sh) (kcmap (cmap sh)) (map key (reg sh)) (failed sh).
Definition kmapT (th : thread) : thread := mkThread (t_pc th) (t_calls th) (map (rmap key) (t_results th)).
Definition kmapSt (st : state) : state := mkState (kmapS (s_sh st)) (s_lock st) (s_waitq st) (map kmapT (s_thr st)).

End Rename.

(* ---- which descriptor a handed-out object was registered for ---------------------------------- *)
(* the cell c of heap h was registered for descriptor d (RefSchema.source) *)
Definition src_is (h : list cell) (c : cellid) (d : name) : Prop :=
  exists cl, nth_error h c = Some cl /\ c_name cl = d.

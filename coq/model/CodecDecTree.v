(* CodecDecTree.v — the decoder read as a function on JSON trees.
   The Go code (and model/CodecDec.v) is a recursive descent over tokens; the
   property C03 speaks about members of a document at positions.  This file
   states what the decoder does to a tree (same checks, same order, same message
   operations as CodecDec.v, with the token plumbing removed);
   proofs/CodecDecTreeProofs.v shows that CodecDec on [tokens_of j] computes
   exactly this, so theorems about positions proved here hold for the token
   level model that is tied to the code.  No proofs in this file. *)
From Coq Require Import String List NArith ZArith Bool.
From J5V.lib Require Import Outcome Json.
From J5V.model Require Import CodecTypes CodecDecScalar CodecDec.
Import ListNotations.
Local Open Scope N_scope.
Local Open Scope bool_scope.

(* the Go value of a scalar leaf (delimiters excluded by the caller) *)
Definition goval_of_json (j : jvalue) : goval :=
  match j with
  | JBool b => GBool b
  | JNum l => GNum l
  | JStr s => GStr s
  | _ => GNil
  end.

Definition is_container (j : jvalue) : bool :=
  match j with JArr _ | JObj _ => true | _ => false end.

(* nesting depth as the scanner counts it: a scalar 0, [] and {} 1 *)
Fixpoint jdepth (j : jvalue) : N :=
  match j with
  | JArr items => 1 + fold_right (fun v a => N.max (jdepth v) a) 0 items
  | JObj ms => 1 + fold_right (fun kv a => N.max (jdepth (snd kv)) a) 0 ms
  | _ => 0
  end.

(* number of nodes, members counted: an upper bound on the fuel the tree functions need *)
Fixpoint jsize (j : jvalue) : nat :=
  match j with
  | JArr items => S (fold_right (fun v a => (jsize v + a)%nat) 0%nat items)
  | JObj ms => S (fold_right (fun kv a => (S (jsize (snd kv)) + a)%nat) 0%nat ms)
  | _ => 1%nat
  end.

Section Tree.
  Variable orc : oracles.
  Variable e : env.

  (* decodeAny's object body on a member list *)
  Fixpoint tr_any_body (ms : list (bytes * jvalue)) (value : option jvalue) (ty : option bytes)
    : outcome (option jvalue * option bytes) :=
    match ms with
    | [] => Ok (value, ty)
    | (key, v) :: r =>
      if bytes_eqb key type_key then
        match v with
        | JStr s => tr_any_body r value (Some s)
        | _ => Err "unexpected token, expected string"
        end
      else
        match value with
        | Some _ => Err "multiple keys found in Any"
        | None =>
          if max_scan_depth <? jdepth v then Err "exceeded max depth"
          else tr_any_body r (Some v) ty
        end
    end.

  (* CreateField and what precedes it in decodeValue, on a member value *)
  Definition tr_member (d : N) (dp : jvalue -> msg -> outcome msg) (p : property) (v : jvalue) (m : msg)
             (seen : list bytes) : outcome (msg * list bytes) :=
    if max_nesting_depth <? d + 1 then Err "exceeded max depth" else
    match v with
    | JNull => Ok (m, seen)
    | _ =>
      if mem_bytes (p_json p) seen then Err "field is already set"
      else if oneof_conflict p m then Err "conflicts with another member of the same proto oneof"
      else obind (dp v m) (fun m' => Ok (m', p_json p :: seen))
    end.

  Fixpoint tr_present (fuel : nat) (d : N) (p : property) (j : jvalue) (m : msg) {struct fuel} : outcome msg :=
    match fuel with
    | O => OutOfFuel
    | S f =>
      match p_ty p with
      | FScalar k =>
        if is_container j then Err "unexpected token, expected scalar"
        else
          obind (scalar_from_go orc k (goval_of_json j)) (fun v =>
            omap fst (with_holder (p_path p) m (fun n h =>
              match v with
              | None => Ok (msg_del n h, tt)
              | Some x => Ok (msg_set (p_explicit p) (p_siblings p) n x h, tt)
              end)))
      | FEnum ref =>
        match j with
        | JStr s =>
          match lookup e ref with
          | Some (SEnum prefix opts) =>
            match option_by_name prefix opts s with
            | Some z =>
              omap fst (with_holder (p_path p) m (fun n h =>
                Ok (msg_set (p_explicit p) (p_siblings p) n (VEnum z) h, tt)))
            | None => Err "enum value not found"
            end
          | _ => Err "schema"
          end
        | _ => Err "unexpected token, expected string"
        end
      | FObject ref =>
        match j with
        | JObj ms =>
          match lookup e ref with
          | Some (SObject props) =>
            omap fst (with_holder (p_path p) m (fun n h =>
              let '(sub, h1) := msg_mutable (p_siblings p) n h in
              obind (tr_object f d props ms sub []) (fun sub' => Ok (msg_put n (VMsg sub') h1, tt))))
          | _ => Err "schema"
          end
        | _ => Err "unexpected token"
        end
      | FOneof ref =>
        match j with
        | JObj ms =>
          match lookup e ref with
          | Some (SOneof props) =>
            match p_path p with
            | [] => tr_oneof f d props ms m [] [] None
            | path =>
              omap fst (with_holder path m (fun n h =>
                let '(sub, h1) := msg_mutable (p_siblings p) n h in
                obind (tr_oneof f d props ms sub [] [] None) (fun sub' => Ok (msg_put n (VMsg sub') h1, tt))))
            end
          | _ => Err "schema"
          end
        | _ => Err "unexpected token"
        end
      | FArray item =>
        match j with
        | JArr items =>
          match item with
          | FScalar _ | FEnum _ | FObject _ | FOneof _ =>
            omap fst (with_holder (p_path p) m (fun n h =>
              let existing := match msg_get n h with Some (VList l) => l | _ => [] end in
              obind (tr_array f d item items existing) (fun l =>
                Ok (msg_set true (p_siblings p) n (VList l) h, tt))))
          | _ => Err "unsupported array item schema"
          end
        | _ => Err "unexpected token"
        end
      | FMap item =>
        match j with
        | JObj ms =>
          match item with
          | FScalar _ | FEnum _ | FObject _ | FOneof _ =>
            omap fst (with_holder (p_path p) m (fun n h =>
              let existing := match msg_get n h with Some (VMap l) => l | _ => [] end in
              obind (tr_map f d item ms existing) (fun l =>
                Ok (msg_set true (p_siblings p) n (VMap l) h, tt))))
          | _ => Err "unsupported map item schema"
          end
        | _ => Err "unexpected token"
        end
      | FAny pb =>
        match j with
        | JObj ms =>
          omap fst (with_holder (p_path p) m (fun n h =>
            let '(sub, h1) := msg_mutable (p_siblings p) n h in
            obind (tr_any_body ms None None) (fun vr =>
              match snd vr, fst vr with
              | None, _ => Err "no type found in Any"
              | _, None => Err "no value found in Any"
              | Some tn, Some v =>
                if pb then Err "proto is required for PB Any"
                else
                  let sub1 := msg_set false [] 1 (VStr tn) sub in
                  let sub2 := msg_set false [] 3 (VBytes (canon_json (tokens_of v))) sub1 in
                  Ok (msg_put n (VMsg sub2) h1, tt)
              end)))
        | _ => Err "unexpected token"
        end
      end
    end

  with tr_object (fuel : nat) (d : N) (props : list property) (ms : list (bytes * jvalue)) (m : msg)
                 (seen : list bytes) {struct fuel} : outcome msg :=
    match fuel with
    | O => OutOfFuel
    | S f =>
      match ms with
      | [] => Ok m
      | (key, v) :: r =>
        match find_prop props key with
        | None => Err "no such field"
        | Some p =>
          obind (tr_member d (tr_present f (d + 1) p) p v m seen) (fun ms' =>
            tr_object f d props r (fst ms') (snd ms'))
        end
      end
    end

  with tr_oneof (fuel : nat) (d : N) (props : list property) (ms : list (bytes * jvalue)) (m : msg)
                (seen : list bytes) (found : list bytes) (constrain : option bytes) {struct fuel}
    : outcome msg :=
    match fuel with
    | O => OutOfFuel
    | S f =>
      match ms with
      | [] => oneof_post props m found constrain
      | (key, v) :: r =>
        if bytes_eqb key type_key then
          match v with
          | JStr s => tr_oneof f d props r m seen found (Some s)
          | _ => Err "unexpected token, expected string"
          end
        else
          match find_prop props key with
          | None => Err "no such key"
          | Some p =>
            obind (tr_member d (tr_present f (d + 1) p) p v m seen) (fun ms' =>
              tr_oneof f d props r (fst ms') (snd ms') (found ++ [key]) constrain)
          end
      end
    end

  with tr_array (fuel : nat) (d : N) (item : field_ty) (js : list jvalue) (acc : list pval) {struct fuel}
    : outcome (list pval) :=
    match fuel with
    | O => OutOfFuel
    | S f =>
      match js with
      | [] => Ok acc
      | v :: r =>
        match item with
        | FScalar k =>
          if is_container v then Err "unexpected token, expected scalar"
          else
            obind (scalar_from_go orc k (goval_of_json v)) (fun x =>
              match x with
              | None => Err "cannot append nil value"
              | Some _ => obind (list_append x acc) (fun acc' => tr_array f d item r acc')
              end)
        | FEnum ref =>
          if is_container v then Err "unexpected token, expected scalar"
          else
          match v with
          | JStr s =>
            match lookup e ref with
            | Some (SEnum prefix opts) =>
              match option_by_name prefix opts s with
              | Some z => tr_array f d item r (acc ++ [VEnum z])
              | None => Err "enum value not found"
              end
            | _ => Err "schema"
            end
          | _ => Err "cannot set enum value"
          end
        | FObject ref =>
          match lookup e ref with
          | Some (SObject props) =>
            match v with
            | JObj ms => obind (tr_object f d props ms [] []) (fun sub => tr_array f d item r (acc ++ [VMsg sub]))
            | _ => Err "unexpected token"
            end
          | _ => Err "schema"
          end
        | FOneof ref =>
          match lookup e ref with
          | Some (SOneof props) =>
            match v with
            | JObj ms => obind (tr_oneof f d props ms [] [] [] None) (fun sub => tr_array f d item r (acc ++ [VMsg sub]))
            | _ => Err "unexpected token"
            end
          | _ => Err "schema"
          end
        | _ => Err "unknown array schema type"
        end
      end
    end

  with tr_map (fuel : nat) (d : N) (item : field_ty) (ms : list (bytes * jvalue)) (acc : list (bytes * pval))
              {struct fuel} : outcome (list (bytes * pval)) :=
    match fuel with
    | O => OutOfFuel
    | S f =>
      match ms with
      | [] => Ok acc
      | (key, v) :: r =>
        match item with
        | FScalar k =>
          match map_get key acc with
          | Some _ => Err "key already exists in map"
          | None =>
            if is_container v then Err "unexpected token, expected scalar"
            else
              obind (scalar_from_go orc k (goval_of_json v)) (fun x =>
                match x with
                | None => Err "cannot set nil value"
                | Some _ => obind (map_set_value key x acc) (fun acc' => tr_map f d item r acc')
                end)
          end
        | FEnum ref =>
          match map_get key acc with
          | Some _ => Err "key already exists in map"
          | None =>
            match v with
            | JStr s =>
              match lookup e ref with
              | Some (SEnum prefix opts) =>
                match option_by_name prefix opts s with
                | Some z => tr_map f d item r (map_set key (VEnum z) acc)
                | None => Err "enum value not found"
                end
              | _ => Err "schema"
              end
            | _ => Err "unexpected token, expected string"
            end
          end
        | FObject ref =>
          match map_get key acc with
          | Some _ => Err "key already exists in map"
          | None =>
            match lookup e ref with
            | Some (SObject props) =>
              match v with
              | JObj ms' => obind (tr_object f d props ms' [] []) (fun sub => tr_map f d item r (map_set key (VMsg sub) acc))
              | _ => Err "unexpected token"
              end
            | _ => Err "schema"
            end
          end
        | FOneof ref =>
          match map_get key acc with
          | Some _ => Err "key already exists in map"
          | None =>
            match lookup e ref with
            | Some (SOneof props) =>
              match v with
              | JObj ms' => obind (tr_oneof f d props ms' [] [] [] None) (fun sub => tr_map f d item r (map_set key (VMsg sub) acc))
              | _ => Err "unexpected token"
              end
            | _ => Err "schema"
            end
          end
        | _ => Err "unknown map schema type"
        end
      end
    end.

  (* Codec.decodeRoot on a document tree *)
  Definition tr_decode (fuel : nat) (root : bytes) (j : jvalue) : outcome msg :=
    match lookup e root, j with
    | Some (SObject props), JObj ms => tr_object fuel 0 props ms [] []
    | Some (SOneof props), JObj ms => tr_oneof fuel 0 props ms [] [] [] None
    | Some (SObject _), _ | Some (SOneof _), _ => Err "unexpected token"
    | _, _ => Err "unsupported root schema type"
    end.
End Tree.

(* ------------------------------------------------------------ schema condition of the exactness theorems
   (proofs/CodecDecStored.v: props_separate), as a computable check that the correspondence runs on every
   environment dumped from the real reflector *)
Fixpoint indep_b (p q : list N) (sib : list N) : bool :=
  match p, q with
  | x :: p', [y] => negb (x =? y) && negb (existsb (N.eqb x) sib)
  | x :: p', y :: q' => negb (x =? y) || indep_b p' q' sib
  | _, _ => false
  end.

Definition indep_prop_b (e : env) (p : list N) (q : property) : bool :=
  match p_path q with
  | [] =>
    match p_ty q with
    | FOneof ref =>
      match lookup e ref with
      | Some (SOneof ps) =>
          forallb (fun q' => match p_path q' with [] => false | path => indep_b p path (p_siblings q') end) ps
      | _ => true
      end
    | _ => true
    end
  | path => indep_b p path []
  end.

Definition props_separate_b (e : env) (props : list property) : bool :=
  forallb (fun q1 =>
    forallb (fun q2 =>
      bytes_eqb (p_json q1) (p_json q2) ||
      match p_path q1 with [] => true | path1 => indep_prop_b e path1 q2 end) props) props.

Definition env_separate (e : env) : bool :=
  forallb (fun ns => match snd ns with
                     | SObject props | SOneof props => props_separate_b e props
                     | SEnum _ _ => true
                     end) e.

(* ------------------------------------------------------------ schema condition of the member-reordering
   theorem (proofs/CodecDecReorder.v: props_commute), as a computable check: any two properties of
   an object have proto paths that part into different fields, neither of which is a oneof sibling of
   the other where its path ends *)
Definition path_support (path sibs : list N) : list N :=
  match path with
  | [] => []
  | [n] => n :: sibs
  | n :: _ => [n]
  end.

Definition disjoint_b (s t : list N) : bool := forallb (fun n => negb (existsb (N.eqb n) t)) s.

Fixpoint compat_b (pa sa pb sb : list N) : bool :=
  match pa, pb with
  | a :: ((_ :: _) as ra), b :: ((_ :: _) as rb) => if a =? b then compat_b ra sa rb sb else true
  | _ :: _, _ :: _ => disjoint_b (path_support pa sa) (path_support pb sb)
  | _, _ => false
  end.

Definition props_commute_b (props : list property) : bool :=
  forallb (fun p =>
    forallb (fun q =>
      bytes_eqb (p_json p) (p_json q) || compat_b (p_path p) (p_siblings p) (p_path q) (p_siblings q)) props) props.

(* CmpbEntity.v — the entity part of C07 by composition with the `ent` family's model of
   sourcewalk/entity.go (model/Entity.v, property C17): an entity declaration expands ([Entity.expand],
   total by C17) into components — messages of the main / service / topic files, enums, services —
   which the converter visits with the same visitors as hand-written declarations.  This file maps each
   component onto the converter model's declarations (model/CmpbDecls.v) so that the C07 theorems about
   files apply to entity expansions.  No proofs here.

   The map is an ABSTRACTION (what CmpbFields.v keeps of a property): a scalar becomes the field type of its
   j5 kind without rules, a key keeps its primary / foreign / tenant qualifiers, a reference becomes the
   outcome of resolving it among everything the expansion defines plus the implicit imports, `repeated`
   becomes an array, a map type a map, a filterable field has list rules.  Entity.v does not carry `query.listRequest`
   (Entity.v now has q_list_settings for it; this map leaves it out: see CmpbDecls for list requests). *)
From Coq Require Import String List NArith Bool Arith.
From J5V.lib Require Import Outcome.
From J5V.model Require Import Entity CmpbFields CmpbDecls.
Import ListNotations.
Local Open Scope bool_scope.

Definition is_some {A} (o : option A) : bool := match o with Some _ => true | None => false end.

Section Defs.
  Variable defs : list (bool * Entity.bytes).     (* Entity.defined: (is_enum, name) of everything the expansion defines *)

  (* resolveType for a reference written (pkg, name), wanted as an enum or as a message *)
  Definition ref_of (want_enum : bool) (pkg name : Entity.bytes) : ref_out :=
    let local (is_enum : bool) := existsb (fun d => Bool.eqb (fst d) is_enum && bytes_eqb (snd d) name) defs in
    match pkg with
    | [] => if local want_enum then RFound (if want_enum then KEnum else KMsg) FSame
            else if local (negb want_enum) then RFound (if want_enum then KMsg else KEnum) FSame
            else RNotFound
    | _ => if existsb (fun d => bytes_eqb (fst d) pkg && bytes_eqb (snd d) name) implicit_imports
           then RFound KMsg FOther else RNotFound
    end.

  Definition scalar_fty (ptype : N) (kind : Entity.bytes) (lr : bool) : fty :=
    if bytes_eqb kind (bs "bool") then TBool false lr
    else if bytes_eqb kind (bs "bytes") then TBytes false
    else if bytes_eqb kind (bs "date") then TDate false lr
    else if bytes_eqb kind (bs "decimal") then TDecimal false lr
    else if bytes_eqb kind (bs "timestamp") then TTimestamp false lr
    else if bytes_eqb kind (bs "any") then TAny lr
    else if bytes_eqb kind (bs "float") then TFloat (if N.eqb ptype 2 then F32 else F64) false lr
    else if bytes_eqb kind (bs "integer")
         then TInteger (if N.eqb ptype 5 then I32 else if N.eqb ptype 13 then U32 else if N.eqb ptype 4 then U64 else I64) None lr
    else TString false lr.

  (* the converter's field type for a (non-map) type of the expansion; the qualifiers come from the field *)
  Definition abs_ty (f : ofield) (t : otype) : fty :=
    let lr := is_some (f_filter f) in
    match t with
    | Entity.TScalar pt k =>
        if bytes_eqb k (bs "key")
        then TKey (if f_primary f then EPrimary true else if is_some (f_foreign f) then EForeign else ENone)
                  (is_some (f_tenant f)) KNone lr
        else scalar_fty pt k lr
    | Entity.TExt _ k => scalar_fty 11 k lr      (* timestamp / date / decimal / any: a message of an imported package *)
    | Entity.TObject p n => CmpbFields.TObject (ref_of false p n) (f_flatten f) false
    | Entity.TOneof p n => CmpbFields.TOneof (ref_of false p n) false lr
    | Entity.TEnum p n => CmpbFields.TEnum (ref_of true p n) None lr
    | Entity.TMap _ => TOther                     (* a map of maps is not expressible *)
    | Entity.TNested _ k =>                       (* a type defined inline, nested in the containing message *)
        if N.eqb k 0 then CmpbFields.TObject RInlineObject (f_flatten f) false
        else if N.eqb k 1 then CmpbFields.TOneof RInlineOneof false lr
        else CmpbFields.TEnum RInlineEnum None lr
    end.

  Definition abs_prop (f : ofield) : prop :=
    mkProp false
           (match f_type f with
            | Entity.TMap v => Map (Some (abs_ty f v)) false
            | t => if f_repeated f then Array (Some (abs_ty f t)) None false else Plain (abs_ty f t)
            end)
           (f_required f) (f_optional f).

  Definition file_target (file : N) : target :=
    if N.eqb file 1 then FService else if N.eqb file 2 then FTopic else FMain.

  Definition verb_http (v : N) : http :=
    if N.eqb v 1 then HGet else if N.eqb v 2 then HPost else if N.eqb v 3 then HPut
    else if N.eqb v 4 then HDelete else if N.eqb v 5 then HPatch else HUnspecified.

  (* params_ok: every ":name" part of every method path is a request field (Entity.query_params_ok &&
     Entity.command_params_ok, decided on the declaration) *)
  Variable params_ok : bool.

  Definition abs_method (m : omethod) : CmpbDecls.method :=
    mkMethod true (verb_http (mt_verb m)) (bytes_eqb (mt_out m) (bs ".google.api.HttpBody")) params_ok
             (negb (N.eqb (mt_sq m) 0)) false.

  (* the object / oneof an inline field defines is visited like a nested declaration (an inline enum sets
     nothing); an inline schema whose fields are again inline schemas / arrays / maps (Entity.il_tree,
     Entity.tfield) contributes one declaration per inline object / oneof at every depth *)
  Definition inl_decl (t : target) (k : N) (ps : list prop) : list (target * decl) :=
    if N.eqb k 2 then [] else [(t, if N.eqb k 1 then DOneof ps else DObject false ps)].
  Definition tprops (fs : list tfield) : list prop := map (fun x => abs_prop (of_tfield x)) fs.
  Fixpoint tree_decls (t : target) (tf : tfield) : list (target * decl) :=
    match tf with
    | TF _ k _ _ _ =>
        match k with
        | TKInline ik _ fs _ => inl_decl t ik (tprops fs) ++ flat_map (tree_decls t) fs
        | _ => []
        end
    end.
  Definition inline_decls (t : target) (fs : list ofield) : list (target * decl) :=
    flat_map (fun f => match f_inline f with
      | Some il =>
          match il_tree il with
          | [] => inl_decl t (il_kind il) (map (fun sf => abs_prop (of_sfield sf)) (il_fields il))
          | tfs => inl_decl t (il_kind il) (tprops tfs) ++ flat_map (tree_decls t) tfs
          end
      | None => []
      end) fs.

  (* one component = the declarations the converter visits for it, each with its output file *)
  Definition comp_decls (c : component) : list (target * decl) :=
    match c with
    | CMsg file m =>
        let t := file_target file in
        (t, if m_oneof m then DOneof (map abs_prop (m_fields m))
            else DObject (is_some (m_psm m)) (map abs_prop (m_fields m)))
        :: map (fun n => (t, DObject false (map abs_prop (snd n)))) (m_nested m)
        ++ inline_decls t (m_fields m ++ flat_map snd (m_nested m))
    | CEnum _ values => [(FMain, DEnum (mkEnum false (map (fun _ => false) values)))]
    | CSvc file s =>
        match Entity.sv_ann s with
        | STopic _ _ _ => [(FTopic, DTopic (TPublish 0))]
        | _ => [(FService, DService (mkService (map abs_method (Entity.sv_methods s)) true))]
        end
    end.
End Defs.

(* the state of one output file after visiting the declarations routed to it *)
Definition tstate (t : target) (tds : list (target * decl)) : dstate :=
  fold_left (fun s td => if target_eqb (fst td) t then merge s (decl_state (snd td)) else s) tds d0.

Definition entity_decls (params_ok : bool) (cs : list component) : list (target * decl) :=
  flat_map (comp_decls (defined cs) params_ok) cs.

Definition entity_verdict (params_ok : bool) (cs : list component) : verdict :=
  let tds := entity_decls params_ok cs in
  let m := tstate FMain tds in let s := tstate FService tds in let t := tstate FTopic tds in
  if d_panic m || d_panic s || d_panic t then VPanic
  else if Nat.ltb 0 (d_nerr m + d_nerr s + d_nerr t) then VConvErr
  else if links_d m && links_d s && links_d t then VOk else VLinkErr.

(* the whole entity declaration through the expansion and the converter *)
Definition compile_entity (e : entity) : outcome verdict :=
  match expand e with
  | Ok cs => Ok (entity_verdict (query_params_ok e && command_params_ok e) cs)
  | Err c => Err c              (* the walker's own errors: unknown default status, duplicate summary *)
  | Panic s => Panic s
  | OutOfFuel => OutOfFuel
  end.

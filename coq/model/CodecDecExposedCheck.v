(* CodecDecExposedCheck.v — schema condition of the exposed-oneof exactness theorem
   (proofs/CodecDecExposedStored.v: exposed_ok), as a computable check that the correspondence evaluates on
   every environment dumped from the real reflector (CEnv).  No proofs in this file. *)
From Coq Require Import String List NArith ZArith Bool.
From J5V.lib Require Import Outcome Json.
From J5V.model Require Import CodecTypes CodecDecScalar CodecDec CodecDecTree.
Import ListNotations.
Local Open Scope N_scope.
Local Open Scope bool_scope.

(* the arms of every exposed oneof of a property set write to places no other property of the set touches *)
Definition exposed_ok_b (e : env) (props : list property) : bool :=
  forallb (fun p =>
    forallb (fun q2 =>
      bytes_eqb (p_json p) (p_json q2) ||
      match p_path p, p_ty p with
      | [], FOneof ref =>
        match lookup e ref with
        | Some (SOneof ps) =>
            forallb (fun q => match p_path q with [] => true | path => indep_prop_b e path q2 end) ps
        | _ => true
        end
      | _, _ => true
      end) props) props.

Definition env_exposed_ok (e : env) : bool :=
  forallb (fun ns => match snd ns with
                     | SObject props | SOneof props => exposed_ok_b e props
                     | SEnum _ _ => true
                     end) e.

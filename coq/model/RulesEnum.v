(* RulesEnum.v — enums as root schemas: model of the writer
   (internal/j5s/j5convert/conversion.go visitEnumNode + enum.go addValue) and of
   the reader (lib/j5schema/schema_from_proto.go buildEnum + EnumSchema.ToJ5Root).
   Value names are byte strings; the effective prefix (declared, or
   ToScreamingSnake(name) + "_") is part of the declaration. No proofs here. *)
From Coq Require Import String List NArith ZArith Bool.
From J5V.lib Require Import Outcome.
From J5V.model Require Import RulesDecl RulesWrite RulesRead.
Import ListNotations.

(* option info: the map<string, string> of an option, as (key, value) pairs sorted by key;
   info fields of the enum: (name, label, description) *)
Definition oinfo := list (str * str).
Definition infofield := (str * str * str)%type.

(* declared: description, effective prefix, options (name short or prefixed, description, info), info fields *)
Record enum_decl := ED { ed_desc : str; ed_prefix : str; ed_options : list (str * str * oinfo); ed_info : list infofield }.
(* compiled: leading comment of the enum; values (name, number, leading comment,
   (j5.ext.v1.enum_value).info); (j5.ext.v1.enum).info_fields *)
Record enum_out := EO { eo_desc : str; eo_values : list (str * Z * str * oinfo); eo_info : list infofield }.
(* reflected (schema_j5pb.Enum): description, prefix, options (name, number, description, info), info fields *)
Record renum := RE { re_desc : str; re_prefix : str; re_options : list (str * Z * str * oinfo); re_info : list infofield }.

Definition has_suffix (suf s : str) : bool := has_prefix (rev suf) (rev s).

Definition pfx (p n : str) : str := if has_prefix p n then n else (p ++ n)%list.

Fixpoint number_from (p : str) (i : Z) (os : list (str * str * oinfo)) : list (str * Z * str * oinfo) :=
  match os with
  | [] => []
  | (n, d, inf) :: r => (pfx p n, i, d, inf) :: number_from p (i + 1)%Z r
  end.

(* isExplicitZero (since /repo a65e1f2): the first option spells the zero value,
   UNSPECIFIED or <prefix>UNSPECIFIED — enumValueName(prefix, name) == prefix+"UNSPECIFIED" *)
Definition is_zero_opt (p n : str) : bool := str_eqb (pfx p n) (p ++ unspecified)%list.

(* visitEnumNode: <prefix>UNSPECIFIED = 0 is always there; an explicit first
   option spelling it replaces it (to carry a description / info); the others count
   from 1; addValue copies the option's info; the info fields go to (j5.ext.v1.enum) *)
Definition write_enum (e : enum_decl) : enum_out :=
  let p := ed_prefix e in
  EO (ed_desc e)
     (match ed_options e with
      | (n, d, inf) :: r =>
          if is_zero_opt p n
          then (pfx p n, 0%Z, d, inf) :: number_from p 1%Z r
          else ((p ++ unspecified)%list, 0%Z, [], []) :: number_from p 1%Z (ed_options e)
      | [] => [((p ++ unspecified)%list, 0%Z, [], [])]
      end)
     (ed_info e).

(* strings.TrimSuffix *)
Definition trim_suffix (suf s : str) : str :=
  if has_suffix suf s then rev (strip_prefix (rev suf) (rev s)) else s.

(* buildEnum *)
Definition read_enum (o : enum_out) : outcome renum :=
  match eo_values o with
  | [] => Panic "sourceValues.Get(0) on an enum without values"
  | (first, _, _, _) :: _ =>
      if negb (has_suffix unspecified first)
      then Err "enum does not have an unspecified value ending in UNSPECIFIED"
      else
        let tp := trim_suffix unspecified first in
        Ok (RE (clean_desc (eo_desc o)) tp
               (map (fun v => match v with (n, i, d, inf) => (trim_prefix tp n, i, clean_desc d, inf) end) (eo_values o))
               (eo_info o))
  end.

(* the enum schema a declaration denotes — from the declaration alone (README,
   "Enums"): value 0 is UNSPECIFIED; it may be written explicitly as the first
   option, named UNSPECIFIED (with or without the prefix), to give it a
   description; the other options are numbered 1, 2, ... in declaration order;
   reflected option names are without the prefix. Descriptions, option info and
   info fields as declared. *)
Definition names_unspecified (p n : str) : bool :=
  str_eqb n unspecified || str_eqb n (p ++ unspecified)%list.

Fixpoint number_options (p : str) (i : Z) (os : list (str * str * oinfo)) : list (str * Z * str * oinfo) :=
  match os with
  | [] => []
  | (n, d, inf) :: r => (trim_prefix p n, i, d, inf) :: number_options p (i + 1)%Z r
  end.

Definition norm_enum (e : enum_decl) : renum :=
  let p := ed_prefix e in
  RE (ed_desc e) p
     (match ed_options e with
      | (n, d, inf) :: r =>
          if names_unspecified p n
          then (unspecified, 0%Z, d, inf) :: number_options p 1%Z r
          else (unspecified, 0%Z, [], []) :: number_options p 1%Z (ed_options e)
      | [] => [(unspecified, 0%Z, [], [])]
      end)
     (ed_info e).

(* the fragment: every description survives commentDescription unchanged, and the
   compiler and the declared meaning agree on whether the first option is the zero
   value (they differ only when the first option is UNSPECIFIED and the prefix is
   itself a non-empty prefix of "UNSPECIFIED", e.g. prefix "UN") *)
Definition unspec_ok (e : enum_decl) : bool :=
  match ed_options e with
  | (n, _, _) :: _ => Bool.eqb (names_unspecified (ed_prefix e) n) (is_zero_opt (ed_prefix e) n)
  | [] => true
  end.
Definition enum_rt (e : enum_decl) : bool :=
  unspec_ok e && desc_plain (ed_desc e) && forallb (fun o => desc_plain (snd (fst o))) (ed_options e).

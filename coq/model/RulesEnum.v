(* RulesEnum.v — enums as root schemas: model of the writer
   (internal/j5s/j5convert/conversion.go visitEnumNode + enum.go addValue) and of
   the reader (lib/j5schema/schema_from_proto.go buildEnum + EnumSchema.ToJ5Root).
   Value names are byte strings; the effective prefix (declared, or
   ToScreamingSnake(name) + "_") is part of the declaration. No proofs here. *)
From Coq Require Import String List NArith ZArith Bool.
From J5V.lib Require Import Outcome.
From J5V.model Require Import RulesDecl RulesWrite RulesRead.
Import ListNotations.

(* declared: description, effective prefix, options (name short or prefixed, description) *)
Record enum_decl := ED { ed_desc : str; ed_prefix : str; ed_options : list (str * str) }.
(* compiled: leading comment of the enum; values (name, number, leading comment) *)
Record enum_out := EO { eo_desc : str; eo_values : list (str * Z * str) }.
(* reflected (schema_j5pb.Enum): description, prefix, options (name, number, description) *)
Record renum := RE { re_desc : str; re_prefix : str; re_options : list (str * Z * str) }.

Definition has_suffix (suf s : str) : bool := has_prefix (rev suf) (rev s).

Definition pfx (p n : str) : str := if has_prefix p n then n else (p ++ n)%list.

Fixpoint number_from (p : str) (i : Z) (os : list (str * str)) : list (str * Z * str) :=
  match os with
  | [] => []
  | (n, d) :: r => (pfx p n, i, d) :: number_from p (i + 1)%Z r
  end.

(* visitEnumNode: <prefix>UNSPECIFIED = 0 is always there; an explicit first
   option ending in UNSPECIFIED replaces it; the others count from 1 *)
Definition write_enum (e : enum_decl) : enum_out :=
  let p := ed_prefix e in
  EO (ed_desc e)
     (match ed_options e with
      | (n, d) :: r =>
          if has_suffix unspecified n
          then (pfx p n, 0%Z, d) :: number_from p 1%Z r
          else ((p ++ unspecified)%list, 0%Z, []) :: number_from p 1%Z (ed_options e)
      | [] => [((p ++ unspecified)%list, 0%Z, [])]
      end).

(* strings.TrimSuffix *)
Definition trim_suffix (suf s : str) : str :=
  if has_suffix suf s then rev (strip_prefix (rev suf) (rev s)) else s.

(* buildEnum *)
Definition read_enum (o : enum_out) : outcome renum :=
  match eo_values o with
  | [] => Panic "sourceValues.Get(0) on an enum without values"
  | (first, _, _) :: _ =>
      if negb (has_suffix unspecified first)
      then Err "enum does not have an unspecified value ending in UNSPECIFIED"
      else
        let tp := trim_suffix unspecified first in
        Ok (RE (clean_desc (eo_desc o)) tp
               (map (fun v => match v with (n, i, d) => (trim_prefix tp n, i, clean_desc d) end) (eo_values o)))
  end.

(* the enum schema a declaration denotes *)
Definition norm_enum (e : enum_decl) : renum :=
  let p := ed_prefix e in
  let sh := fun v => match v with (n, i, d) => (trim_prefix p n, i, clean_desc d) end in
  RE (clean_desc (ed_desc e)) p (map sh (eo_values (write_enum e))).

(* RulesEnum.v — enums as root schemas: model of the writer
   (internal/j5s/j5convert/conversion.go visitEnumNode + enum.go addValue) and of
   the reader (lib/j5schema/schema_from_proto.go buildEnum + EnumSchema.ToJ5Root).
   Value names are byte strings; the effective prefix (declared, or
   ToScreamingSnake(name) + "_") is part of the declaration. No proofs here. *)
From Coq Require Import String List NArith ZArith Bool.
From J5V.lib Require Import Outcome.
From J5V.model Require Import RulesDecl RulesWrite RulesRead.
Import ListNotations.

(* declared: description, effective prefix, options (name short or prefixed, description) *)
Record enum_decl := ED { ed_desc : str; ed_prefix : str; ed_options : list (str * str) }.
(* compiled: leading comment of the enum; values (name, number, leading comment) *)
Record enum_out := EO { eo_desc : str; eo_values : list (str * Z * str) }.
(* reflected (schema_j5pb.Enum): description, prefix, options (name, number, description) *)
Record renum := RE { re_desc : str; re_prefix : str; re_options : list (str * Z * str) }.

Definition has_suffix (suf s : str) : bool := has_prefix (rev suf) (rev s).

Definition pfx (p n : str) : str := if has_prefix p n then n else (p ++ n)%list.

Fixpoint number_from (p : str) (i : Z) (os : list (str * str)) : list (str * Z * str) :=
  match os with
  | [] => []
  | (n, d) :: r => (pfx p n, i, d) :: number_from p (i + 1)%Z r
  end.

(* visitEnumNode: <prefix>UNSPECIFIED = 0 is always there; an explicit first
   option ending in UNSPECIFIED replaces it; the others count from 1 *)
Definition write_enum (e : enum_decl) : enum_out :=
  let p := ed_prefix e in
  EO (ed_desc e)
     (match ed_options e with
      | (n, d) :: r =>
          if has_suffix unspecified n
          then (pfx p n, 0%Z, d) :: number_from p 1%Z r
          else ((p ++ unspecified)%list, 0%Z, []) :: number_from p 1%Z (ed_options e)
      | [] => [((p ++ unspecified)%list, 0%Z, [])]
      end).

(* strings.TrimSuffix *)
Definition trim_suffix (suf s : str) : str :=
  if has_suffix suf s then rev (strip_prefix (rev suf) (rev s)) else s.

(* buildEnum *)
Definition read_enum (o : enum_out) : outcome renum :=
  match eo_values o with
  | [] => Panic "sourceValues.Get(0) on an enum without values"
  | (first, _, _) :: _ =>
      if negb (has_suffix unspecified first)
      then Err "enum does not have an unspecified value ending in UNSPECIFIED"
      else
        let tp := trim_suffix unspecified first in
        Ok (RE (clean_desc (eo_desc o)) tp
               (map (fun v => match v with (n, i, d) => (trim_prefix tp n, i, clean_desc d) end) (eo_values o)))
  end.

(* the enum schema a declaration denotes — from the declaration alone (README,
   "Enums"): value 0 is UNSPECIFIED; it may be written explicitly as the first
   option, named UNSPECIFIED (with or without the prefix), to give it a
   description; the other options are numbered 1, 2, ... in declaration order;
   reflected option names are without the prefix. Descriptions as declared. *)
Definition names_unspecified (p n : str) : bool :=
  str_eqb n unspecified || str_eqb n (p ++ unspecified)%list.

Fixpoint number_options (p : str) (i : Z) (os : list (str * str)) : list (str * Z * str) :=
  match os with
  | [] => []
  | (n, d) :: r => (trim_prefix p n, i, d) :: number_options p (i + 1)%Z r
  end.

Definition norm_enum (e : enum_decl) : renum :=
  let p := ed_prefix e in
  RE (ed_desc e) p
     (match ed_options e with
      | (n, d) :: r =>
          if names_unspecified p n
          then (unspecified, 0%Z, d) :: number_options p 1%Z r
          else (unspecified, 0%Z, []) :: number_options p 1%Z (ed_options e)
      | [] => [(unspecified, 0%Z, [])]
      end).

(* the fragment: every description survives commentDescription unchanged, and an
   explicit first option ending in UNSPECIFIED is spelled UNSPECIFIED or
   <prefix>UNSPECIFIED (and the prefix is not itself a prefix of "UNSPECIFIED") *)
Definition unspec_ok (e : enum_decl) : bool :=
  match ed_options e with
  | (n, _) :: _ =>
      if has_suffix unspecified n
      then str_eqb n (ed_prefix e ++ unspecified)%list
           || (str_eqb n unspecified && negb (has_prefix (ed_prefix e) unspecified))
      else true
  | [] => true
  end.
Definition enum_rt (e : enum_decl) : bool :=
  unspec_ok e && desc_plain (ed_desc e) && forallb (fun o => desc_plain (snd o)) (ed_options e).

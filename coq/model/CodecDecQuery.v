(* CodecDecQuery.v — model of internal/codec/query.go: Codec.QueryToProto.
   url.Values is a Go map: the iteration order of the keys is not defined, so
   the model takes the (key, values) pairs as a list in the order in which the
   loop visits them; theorems quantify over every list.

   State kept between keys: the message, and for every property set reached so
   far which of its properties "have a value" (property.hasValue) — a tree that
   mirrors the containers created on the way ([qtree]).
   No proofs in this file. *)
From Coq Require Import String List NArith ZArith Bool.
From J5V.lib Require Import Outcome Json Strcase.
From J5V.model Require Import CodecTypes CodecDecScalar CodecDec.
Import ListNotations.
Local Open Scope N_scope.
Local Open Scope bool_scope.

(* hasValue flags of one property set and of the container fields created below it *)
Inductive qtree := QT (seen : list bytes) (kids : list (bytes * qtree)).

Definition qt_seen (t : qtree) : list bytes := match t with QT s _ => s end.
Definition qt_kids (t : qtree) : list (bytes * qtree) := match t with QT _ k => k end.

Fixpoint kid_get (k : bytes) (ks : list (bytes * qtree)) : option qtree :=
  match ks with
  | [] => None
  | (k', t) :: r => if bytes_eqb k' k then Some t else kid_get k r
  end.
Fixpoint kid_set (k : bytes) (t : qtree) (ks : list (bytes * qtree)) : list (bytes * qtree) :=
  match ks with
  | [] => [(k, t)]
  | (k', t') :: r => if bytes_eqb k' k then (k, t) :: r else (k', t') :: kid_set k t r
  end.

(* the flags a successful JSON decode of [j] into a property set leaves behind:
   every non-null member went through CreateField; object / oneof members carry
   the flags of their own body *)
Fixpoint qtree_of_json (fuel : nat) (e : env) (props : list property) (j : jvalue) : qtree :=
  match fuel with
  | O => QT [] []
  | S f =>
    match j with
    | JObj ms =>
      let live := filter (fun kv => negb (bytes_eqb (fst kv) type_key) &&
                                    match snd kv with JNull => false | _ => true end) ms in
      QT (map fst live)
         (flat_map (fun kv =>
            match find_prop props (fst kv) with
            | Some p =>
              match p_ty p with
              | FObject ref =>
                match lookup e ref with
                | Some (SObject ps) => [(fst kv, qtree_of_json f e ps (snd kv))]
                | _ => []
                end
              | FOneof ref =>
                match lookup e ref with
                | Some (SOneof ps) => [(fst kv, qtree_of_json f e ps (snd kv))]
                | _ => []
                end
              | _ => []
              end
            | None => []
            end) live)
    | _ => QT [] []
    end
  end.

(* queryGoValue: "true" / "false" become Go bools for a bool schema *)
Definition str_true : bytes := [116; 114; 117; 101].
Definition str_false : bytes := [102; 97; 108; 115; 101].
Definition query_go_value (is_bool : bool) (v : bytes) : goval :=
  if is_bool then
    if bytes_eqb v str_true then GBool true
    else if bytes_eqb v str_false then GBool false
    else GStr v
  else GStr v.

Definition props_of (e : env) (t : field_ty) : option (list property * bool) :=
  match t with
  | FObject ref => match lookup e ref with Some (SObject ps) => Some (ps, false) | _ => None end
  | FOneof ref => match lookup e ref with Some (SOneof ps) => Some (ps, true) | _ => None end
  | _ => None
  end.

Section Query.
  Variable orc : oracles.
  Variable e : env.

  (* property.CreateField on a property of the set whose flags are [seen] *)
  Definition create_check (p : property) (m : msg) (seen : list bytes) : outcome unit :=
    if mem_bytes (p_json p) seen then Err "field is already set"
    else if oneof_conflict p m then Err "conflicts with another member of the same proto oneof"
    else Ok tt.

  (* the last path component: CreateField, then the three arms of decodeQuery *)
  Definition query_final (props : list property) (name : bytes) (vals : list bytes) (m : msg) (st : qtree)
    : outcome (msg * qtree) :=
    match find_prop props name with
    | None => Err "unknown property"
    | Some p =>
      obind (create_check p m (qt_seen st)) (fun _ =>
        let st1 := QT (p_json p :: qt_seen st) (qt_kids st) in
        match p_ty p with
        | FScalar k =>
          match vals with
          | [v] =>
            obind (scalar_from_go orc k (query_go_value (scalar_kind_eqb k KBool) v)) (fun r =>
              obind (with_holder (p_path p) m (fun n h =>
                       match r with
                       | None => Ok (msg_del n h, tt)
                       | Some x => Ok (msg_set (p_explicit p) (p_siblings p) n x h, tt)
                       end))
                    (fun mr => Ok (fst mr, st1)))
          | [] => Err "no value"          (* unreachable: empty value slices are skipped *)
          | _ => Err "multiple values provided for non-repeated field"
          end
        | FEnum ref =>
          (* enumField.AsScalar: SetGoValue(string) -> SetFromString *)
          match vals with
          | [v] =>
            match lookup e ref with
            | Some (SEnum prefix opts) =>
              match option_by_name prefix opts v with
              | Some z =>
                obind (with_holder (p_path p) m (fun n h =>
                         Ok (msg_set (p_explicit p) (p_siblings p) n (VEnum z) h, tt)))
                      (fun mr => Ok (fst mr, st1))
              | None => Err "enum value not found"
              end
            | _ => Err "schema"
            end
          | [] => Err "no value"
          | _ => Err "multiple values provided for non-repeated field"
          end
        | FArray (FScalar k) =>
          obind (with_holder (p_path p) m (fun n h =>
                   let existing := match msg_get n h with Some (VList l) => l | _ => [] end in
                   obind ((fix go (vs : list bytes) (acc : list pval) : outcome (list pval) :=
                             match vs with
                             | [] => Ok acc
                             | v :: r =>
                               obind (scalar_from_go orc k (query_go_value (scalar_kind_eqb k KBool) v)) (fun x =>
                                 match x with
                                 | None => Err "cannot append nil value"
                                 | Some _ => obind (list_append x acc) (go r)
                                 end)
                             end) vals existing)
                         (fun l => Ok (msg_set true (p_siblings p) n (VList l) h, tt))))
                (fun mr => Ok (fst mr, st1))
        | FArray (FEnum ref) =>
          match lookup e ref with
          | Some (SEnum prefix opts) =>
            obind (with_holder (p_path p) m (fun n h =>
                     let existing := match msg_get n h with Some (VList l) => l | _ => [] end in
                     obind ((fix go (vs : list bytes) (acc : list pval) : outcome (list pval) :=
                               match vs with
                               | [] => Ok acc
                               | v :: r =>
                                 match option_by_name prefix opts v with
                                 | Some z => go r (acc ++ [VEnum z])
                                 | None => Err "enum value not found"
                                 end
                               end) vals existing)
                           (fun l => Ok (msg_set true (p_siblings p) n (VList l) h, tt))))
                  (fun mr => Ok (fst mr, st1))
          | _ => Err "schema"
          end
        | FObject _ | FOneof _ =>
          match props_of e (p_ty p), vals with
          | Some (ps, is_oneof), [v] =>
            let v' := trim_space v in
            if match v' with c :: _ => c =? 123 | [] => false end then     (* strings.HasPrefix(val, "{") *)
              let '(ts, more_at_end) := lex v' in
              let fuel := S (length ts) in
              let body (sub : msg) : outcome (msg * list token) :=
                obind (expect TOpenObj ts) (fun r =>
                  obind (if is_oneof then oneof_body orc e more_at_end fuel 0 ps r sub [] [] None
                         else object_body orc e more_at_end fuel 0 ps r sub [])
                        (fun sr => obind (expect TCloseObj (snd sr)) (fun r2 =>
                           (* decodeRoot's end-of-input check on the parameter's text *)
                           obind (end_of_input r2 (lex_at_eof v')) (fun _ => Ok (fst sr, r2))))) in
              let kid := match parse_value (S (length ts)) ts with
                         | Some (j, _) => qtree_of_json (S (length ts)) e ps j
                         | None => QT [] []
                         end in
              let st2 := QT (qt_seen st1) (kid_set (p_json p) kid (qt_kids st1)) in
              match p_path p with
              | [] => obind (body m) (fun sr => Ok (fst sr, st2))
              | path =>
                obind (with_holder path m (fun n h =>
                         let '(sub, h1) := msg_mutable (p_siblings p) n h in
                         obind (body sub) (fun sr => Ok (msg_put n (VMsg (fst sr)) h1, tt))))
                      (fun mr => Ok (fst mr, st2))
              end
            else Err "invalid value for container"
          | Some _, [] => Err "no value"
          | Some _, _ => Err "multiple values provided for non-repeated field"
          | None, _ => Err "schema"
          end
        | _ => Err "field is not supported for query"
        end)
    end.

  (* propertyAtPath: walk / create the containers named by all but the last component *)
  Fixpoint query_at (props : list property) (parts : list bytes) (vals : list bytes) (m : msg) (st : qtree)
    {struct parts} : outcome (msg * qtree) :=
    match parts with
    | [] => Err "empty path"
    | [tail] => query_final props (to_lower_camel tail) vals m st
    | part :: rest =>
      let name := to_lower_camel part in
      match find_prop props name with
      | None => Err "unknown property"
      | Some p =>
        match props_of e (p_ty p) with
        | None => Err "property is not a container"
        | Some (ps, _) =>
          if mem_bytes (p_json p) (qt_seen st) then
            (* prop.IsSet(): the cached field and its property set *)
            let kid := match kid_get (p_json p) (qt_kids st) with Some t => t | None => QT [] [] end in
            match p_path p with
            | [] =>
              obind (query_at ps rest vals m kid) (fun r =>
                Ok (fst r, QT (qt_seen st) (kid_set (p_json p) (snd r) (qt_kids st))))
            | path =>
              obind (with_holder path m (fun n h =>
                       let '(sub, h1) := msg_mutable (p_siblings p) n h in
                       obind (query_at ps rest vals sub kid) (fun r =>
                         Ok (msg_put n (VMsg (fst r)) h1, snd r))))
                    (fun mr => Ok (fst mr, QT (qt_seen st) (kid_set (p_json p) (snd mr) (qt_kids st))))
            end
          else
            obind (create_check p m (qt_seen st)) (fun _ =>
              let seen' := p_json p :: qt_seen st in
              match p_path p with
              | [] =>
                obind (query_at ps rest vals m (QT [] [])) (fun r =>
                  Ok (fst r, QT seen' (kid_set (p_json p) (snd r) (qt_kids st))))
              | path =>
                obind (with_holder path m (fun n h =>
                         let '(sub, h1) := msg_mutable (p_siblings p) n h in
                         obind (query_at ps rest vals sub (QT [] [])) (fun r =>
                           Ok (msg_put n (VMsg (fst r)) h1, snd r))))
                      (fun mr => Ok (fst mr, QT seen' (kid_set (p_json p) (snd mr) (qt_kids st))))
              end)
        end
      end
    end.

  (* the loop of decodeQuery over the keys in visiting order *)
  Fixpoint query_loop (props : list property) (kvs : list (bytes * list bytes)) (m : msg) (st : qtree)
    : outcome msg :=
    match kvs with
    | [] => Ok m
    | (key, vals) :: r =>
      match vals with
      | [] => query_loop props r m st              (* a key without values supplies nothing *)
      | _ =>
        obind (query_at props (split_on 46 key []) vals m st) (fun ms =>
          query_loop props r (fst ms) (snd ms))
      end
    end.

  (* Codec.QueryToProto on a fresh message of the root type *)
  Definition decode_query (root : bytes) (kvs : list (bytes * list bytes)) : outcome msg :=
    match lookup e root with
    | Some (SObject props) | Some (SOneof props) => query_loop props kvs [] (QT [] [])
    | _ => Err "unsupported root schema type"
    end.
End Query.

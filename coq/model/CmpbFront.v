(* CmpbFront.v — the C07 front end as a composition: source bytes -> BCL lexer + parser (C11's model,
   model/BclParser.v parse_file) -> the schema-driven walker (internal/bcl/parse.go ParseAST,
   internal/bcl/internal/walker/...: NOT modelled, a function parameter [walk] with an explicit
   outcome and a stated contract) -> sourcewalk's SourceNode / GetPos plumbing (sourcewalk.go child,
   GetPos) -> the converter (model/CmpbDecls.v) with the errors it records through
   conversionVisitor.addError, each with the position addError attaches.  No proofs here.

   What the walker hands on: the bcl.j5.v1.SourceLocation tree ([loc]) and the declarations of the
   file as the converter model sees them, each with the PATH of the sourcewalk.SourceNode the
   converter reports its errors on ([ldecl]).  The paths are the ones sourcewalk builds with
   SourceNode.child (file.go, schema.go, property.go, service.go). *)
From Coq Require Import Ascii String List NArith ZArith Bool Arith.
From J5V.lib Require Import Text Outcome Corr.
From J5V.model Require Import BclLexer BclParser CmpbFields CmpbDecls.
Import ListNotations.
Local Open Scope string_scope.
Local Open Scope bool_scope.
Local Open Scope list_scope.

(* ------------------------------------------------------------------ source locations *)
Definition span : Type := (pos * pos)%type.           (* start, end: 0-based (line, column) *)
Definition span0 : span := (pos0, pos0).

(* bcl.j5.v1.SourceLocation: a span and named children (a Go map; keys are unique) *)
Inductive loc := Loc (sp : span) (children : list (string * loc)).
Definition loc_span (t : loc) : span := match t with Loc sp _ => sp end.
Definition loc_children (t : loc) : list (string * loc) := match t with Loc _ cs => cs end.

Fixpoint find_child (k : string) (cs : list (string * loc)) : option loc :=
  match cs with
  | [] => None
  | (k', c) :: r => if String.eqb k k' then Some c else find_child k r
  end.

Definition path := list string.

(* sourcewalk.SourceNode.child(path...) followed by GetPos(): descend while the location tree has the
   child; the first missing part (or the virtual part "-") yields a node WITHOUT children that copies
   the span of the node it was asked on, so every later part is missing too. *)
Fixpoint child_span (p : path) (t : loc) : span :=
  match p with
  | [] => loc_span t
  | k :: r =>
      if String.eqb k "-" then loc_span t
      else match find_child k (loc_children t) with
           | Some c => child_span r c
           | None => loc_span t
           end
  end.

(* every span stored in the tree *)
Fixpoint spans (t : loc) : list span :=
  match t with
  | Loc sp cs => sp :: (fix go (cs : list (string * loc)) : list span :=
                          match cs with
                          | [] => []
                          | (_, c) :: r => spans c ++ go r
                          end) cs
  end.

(* ------------------------------------------------------------------ located declarations *)
(* a property with the path of its PropertyNode and of the RefNode of its (item) type *)
Record lprop := mkLP { lp_prop : prop; lp_path : path; lp_ref : path }.

Inductive ldecl :=
| LObject (p : path) (entity : bool) (props : list lprop)
| LOneof (p : path) (props : list lprop)
| LEnum (p : path) (e : enum_decl)
| LService (p : path) (options : bool) (methods : list (method * path))
| LTopic (p : path) (t : topic).

Definition ldecl_path (d : ldecl) : path :=
  match d with LObject p _ _ | LOneof p _ | LEnum p _ | LService p _ _ | LTopic p _ => p end.

(* forgetting the locations gives the converter model's declaration *)
Definition erase (d : ldecl) : decl :=
  match d with
  | LObject _ entity props => DObject entity (map lp_prop props)
  | LOneof _ props => DOneof (map lp_prop props)
  | LEnum _ e => DEnum e
  | LService _ o ms => DService (mkService (map fst ms) o)
  | LTopic _ t => DTopic t
  end.

Fixpoint is_prefix (a b : path) : bool :=
  match a, b with
  | [], _ => true
  | x :: r, y :: s => String.eqb x y && is_prefix r s
  | _ :: _, [] => false
  end.

(* SourceNode.child only extends a path: a property's node lies below its declaration's node, its
   type reference below the property *)
Definition lprop_wf (dp : path) (lp : lprop) : bool :=
  is_prefix dp (lp_path lp) && is_prefix (lp_path lp) (lp_ref lp).
Definition ldecl_wf (d : ldecl) : bool :=
  match d with
  | LObject p _ props | LOneof p props => forallb (lprop_wf p) props
  | LService p _ ms => forallb (fun mp => is_prefix p (snd mp)) ms
  | _ => true
  end.

(* ------------------------------------------------------------------ the errors the converter records *)
Definition item_of (sh : shape) : option fty :=
  match sh with
  | Plain t | Array (Some t) _ _ | Map (Some t) _ => Some t
  | _ => None
  end.
(* resolveType: when resolveTypeNoImport fails the error gets the position of ref.Source
   (conversion.go:95-98) before addError sees it; AddPosition keeps a position already there *)
Definition fails_at_ref (p : prop) : bool :=
  negb (p_schema_nil p) &&
  match item_of (p_shape p) with
  | Some (TObject RNotFound _ _) | Some (TOneof RNotFound _ _) | Some (TEnum RNotFound _ _) => true
  | _ => false
  end.

(* visitObjectNode / visitOneofNode: `if err != nil { ww.addError(node.Source, err) }` per property *)
Definition prop_errors (lp : lprop) : list path :=
  match o_verdict (compile_iso (lp_prop lp)) with
  | VConvErr => repeat (if fails_at_ref (lp_prop lp) then lp_ref lp else lp_path lp) (iso_nerr (lp_prop lp))
  | _ => []
  end.

(* visitServiceMethodNode: addErrorf(node.Source, ...) on the method's node *)
Definition method_errcount (m : method) : nat := d_nerr (visit_method d0 m).

Definition decl_errors (d : ldecl) : list path :=
  match d with
  | LObject _ _ props | LOneof _ props => flat_map prop_errors props
  | LService _ _ ms => flat_map (fun mp => repeat (snd mp) (method_errcount (fst mp))) ms
  | LEnum _ _ | LTopic _ _ => []
  end.

(* rootContext.errors, in visiting order *)
Definition file_errors (lf : list ldecl) : list path := flat_map decl_errors lf.

(* addError: loc := node.GetPos(); errpos.AddPosition(err, *loc) *)
Definition conv_errors (t : loc) (lf : list ldecl) : list (path * span) :=
  map (fun p => (p, child_span p t)) (file_errors lf).

(* ------------------------------------------------------------------ the walk step (abstract) *)
Inductive walk_out :=
| WalkErrs (es : list span)                 (* walker / protovalidate errors (errpos.Errors), each with its position *)
| WalkFile (t : loc) (lf : list ldecl).     (* SourceFile + SourceLocations *)

(* the points of the syntax tree: both ends of every node, and the origin (the root location) *)
Definition node_points (body : list stmt) : list pos :=
  pos0 :: flat_map (fun n : pnode => [snd (fst n); snd n]) (flat_map stmt_nodes body).

Definition pos_eqb (a b : pos) : bool := Z.eqb (fst a) (fst b) && Z.eqb (snd a) (snd b).
Definition point_from (body : list stmt) (p : pos) : bool := existsb (pos_eqb p) (node_points body).
Definition span_from (body : list stmt) (sp : span) : bool := point_from body (fst sp) && point_from body (snd sp).

(* for reported errors the origin is not free: an error that only got the zero Position errpos.AddFilename
   makes up (file:1:1) has no position of its own.  Real nodes only (the block brackets 13 / 14 of the
   node dump carry no position) *)
Definition real_node (n : pnode) : bool := negb (N.eqb (fst (fst n)) 13 || N.eqb (fst (fst n)) 14).
Definition node_points_strict (body : list stmt) : list pos :=
  flat_map (fun n : pnode => [snd (fst n); snd n]) (filter real_node (flat_map stmt_nodes body)).
(* where a reported span can end: at the end of a node, or (the mark of a tag, parser.NewBoolValue(true,
   gotTag.Start)) at the start of a tag.  The origin is the START of the first statement but the end of
   nothing, so the made-up zero Position does not pass *)
Definition node_ends (body : list stmt) : list pos :=
  flat_map (fun n : pnode => if N.eqb (fst (fst n)) 8 then [snd (fst n); snd n] else [snd n])
           (filter real_node (flat_map stmt_nodes body)).
(* protovalidate violations are reported on a child location that sourceSet.field (internal/bcl/parse.go)
   creates with the parent's start and NO end: a real start with the end left at the origin *)
Definition err_span_from (body : list stmt) (sp : span) : bool :=
  existsb (pos_eqb (fst sp)) (node_points_strict body)
  && (existsb (pos_eqb (snd sp)) (node_ends body) || (pos_eqb (snd sp) pos0 && negb (pos_eqb (fst sp) pos0))).

(* the contract of the walker, as far as positions go: whatever it reports or records was copied from
   a node of the tree it was given (ident.Start/End, val.Position(), decl.Position(), spans between two
   nodes), and an error list is not empty *)
Definition walk_out_ok (body : list stmt) (w : walk_out) : bool :=
  match w with
  | WalkErrs es => negb (match es with [] => true | _ => false end) && forallb (err_span_from body) es
  | WalkFile t lf => forallb (span_from body) (spans t) && forallb ldecl_wf lf
  end.

(* ------------------------------------------------------------------ one file through the front end *)
Inductive stage := SParse | SWalk | SConvert.

Inductive fe_out :=
| FEErrors (st : stage) (es : list span)          (* errors, each with a position *)
| FEConverted (v : verdict) (lf : list ldecl).    (* descriptors built (v = VOk) or the link step's verdict *)

Definition diag_span (d : diag) : span := (dstart d, dend d).

Section FrontEnd.
  Variable walk : list stmt -> outcome walk_out.

  Definition front_end (ff : bool) (input : list N) : outcome fe_out :=
    match parse_file input ff with
    | Ok p =>
        match pdiags p with
        | d :: ds => Ok (FEErrors SParse (map diag_span (d :: ds)))       (* bcl.Parser.ParseFile: HadErrors *)
        | [] =>
            match ptree p with
            | None => Panic "ParseAST: nil tree"                            (* tree.Body on a nil *File *)
            | Some body =>
                match walk body with
                | Ok (WalkErrs es) => Ok (FEErrors SWalk es)
                | Ok (WalkFile t lf) =>
                    if file_panics (map erase lf) then Panic "converter: proto.SetExtension"
                    else match conv_errors t lf with
                         | [] => Ok (FEConverted (file_verdict (map erase lf)) lf)
                         | es => Ok (FEErrors SConvert (map snd es))
                         end
                | Err c => Err c
                | Panic s => Panic s
                | OutOfFuel => OutOfFuel
                end
            end
        end
    | Err c => Err c
    | Panic s => Panic s
    | OutOfFuel => OutOfFuel
    end.
End FrontEnd.

(* ------------------------------------------------------------------ a small concrete walker (non-vacuity) *)
(* every top-level block becomes an object without properties located at its header; a block whose type
   is written `bad` becomes an object with one property whose schema is missing.  It is NOT the j5s
   walker; it shows that the contract is satisfiable and lets the composition compute. *)
Definition lit_is (r : reference) (s : list N) : bool :=
  match r with
  | [t] => nlist_eqb (lit t) s
  | _ => false
  end.

Fixpoint nat_string (n : nat) : string :=
  match n with O => "" | S k => String "i"%char (nat_string k) end.

Fixpoint demo_decls (i : nat) (body : list stmt) : list (string * loc) * list ldecl :=
  match body with
  | [] => ([], [])
  | SBlock h _ :: r =>
      let '(cs, ds) := demo_decls (S i) r in
      let k := nat_string i in
      let p := ["elements"; k] in
      let bad := lit_is (htype h) [98; 97; 100]%N in
      ((k, Loc (hstart h, hend h) []) :: cs,
       LObject p false (if bad then [mkLP (mkProp true (Plain TOther) false false) (p ++ ["properties"; "0"]) (p ++ ["properties"; "0"; "ref"])] else []) :: ds)
  | _ :: r => demo_decls (S i) r
  end.

Definition demo_walk (body : list stmt) : outcome walk_out :=
  let '(cs, ds) := demo_decls 0 body in
  Ok (WalkFile (Loc span0 [("elements", Loc span0 cs)]) ds).

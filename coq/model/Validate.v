(* Validate.v — two independent meanings.
   [rule_sem]: what a j5s property declaration says about a value of the
   compiled field (schema.proto comments + README): bounds inclusive unless
   exclusive* = true, lengths in characters / bytes, item counts, uniqueness,
   enum membership by option name, key formats, required presence.
   [validate_sem]: what bufbuild/protovalidate-go v0.9.2 decides for the subset
   of (buf.validate.field) j5 emits, read off field.go (required / ignore-empty
   / zero value handling) and the CEL expressions attached to the rule fields
   of validate.proto (int*.lt/lte/gt/gte incl. the combined and the inverted
   "exclusive range" forms, string.min_len/max_len/pattern/uuid, bytes lengths,
   bool.const, enum.in/not_in + defined_only, the repeated rules).
   Regular expressions are a Section variable. No proofs here. *)
From Coq Require Import String List NArith ZArith Bool.
From J5V.lib Require Import Outcome.
From J5V.model Require Import RulesDecl RulesWrite Id62.
From J5V.gen Require Id62Gen.
Import ListNotations.
Local Open Scope Z_scope.

Definition len (s : str) : N := N.of_nat (length s).

Definition opt_leN (lo : option N) (n : N) : bool := match lo with Some m => (m <=? n)%N | None => true end.
Definition opt_geN (hi : option N) (n : N) : bool := match hi with Some m => (n <=? m)%N | None => true end.

(* ---- value helpers -------------------------------------------------------- *)
Definition is_zero (v : value) : bool :=
  match v with
  | VInt z => z =? 0
  | VStr s => match s with [] => true | _ => false end
  | VBytes b => match b with [] => true | _ => false end
  | VBool b => negb b
  | VEnum n => n =? 0
  | VMsg => false
  end.

Definition value_eqb (a b : value) : bool :=
  match a, b with
  | VInt x, VInt y => x =? y
  | VStr x, VStr y => str_eqb x y
  | VBytes x, VBytes y => str_eqb x y
  | VBool x, VBool y => Bool.eqb x y
  | VEnum x, VEnum y => x =? y
  | _, _ => false
  end.

Definition memZ (z : Z) (l : list Z) : bool := existsb (Z.eqb z) l.
Definition mem_str (s : str) (l : list str) : bool := existsb (str_eqb s) l.

(* ---- the id62 shape and the uuid shape ------------------------------------ *)
(* the published id62 pattern, decided by C20's matcher *)
Definition id62_shape (s : str) : bool :=
  match parse_pattern Id62Gen.pattern_string with
  | Some p => matches p s
  | None => false
  end.

Definition is_hex (c : N) : bool :=
  ((48 <=? c) && (c <=? 57) || (97 <=? c) && (c <=? 102) || (65 <=? c) && (c <=? 70))%N.

(* declared meaning of key:uuid: the canonical textual form 8-4-4-4-12 *)
Fixpoint uuid_at (pos : nat) (s : str) : bool :=
  match s with
  | [] => Nat.eqb pos 36
  | c :: r =>
      (if Nat.eqb pos 8 || Nat.eqb pos 13 || Nat.eqb pos 18 || Nat.eqb pos 23
       then N.eqb c 45 else is_hex c) && uuid_at (S pos) r
  end.
Definition is_uuid (s : str) : bool := uuid_at 0 s.

(* protovalidate's string.uuid: the regex
   ^[0-9a-fA-F]{8}-[0-9a-fA-F]{4}-[0-9a-fA-F]{4}-[0-9a-fA-F]{4}-[0-9a-fA-F]{12}$
   as a segment matcher, plus string.uuid_empty *)
Fixpoint take_hex (n : nat) (s : str) : option str :=
  match n with
  | O => Some s
  | S k => match s with
           | c :: r => if is_hex c then take_hex k r else None
           | [] => None
           end
  end.
Definition take_dash (s : str) : option str :=
  match s with c :: r => if N.eqb c 45 then Some r else None | [] => None end.
Definition obnd {A B} (o : option A) (f : A -> option B) : option B :=
  match o with Some a => f a | None => None end.
Definition uuid_regex (s : str) : bool :=
  match obnd (take_hex 8 s) (fun s => obnd (take_dash s) (fun s =>
        obnd (take_hex 4 s) (fun s => obnd (take_dash s) (fun s =>
        obnd (take_hex 4 s) (fun s => obnd (take_dash s) (fun s =>
        obnd (take_hex 4 s) (fun s => obnd (take_dash s) (fun s =>
        take_hex 12 s)))))))) with
  | Some [] => true
  | _ => false
  end.

(* ---- uniqueness, two formulations ----------------------------------------- *)
(* declared: the items are pairwise different *)
Fixpoint distinct (vs : list value) : bool :=
  match vs with
  | [] => true
  | v :: r => negb (existsb (value_eqb v) r) && distinct r
  end.
(* protovalidate's unique(): scan, remembering what was seen *)
Fixpoint unique_scan (seen : list value) (vs : list value) : bool :=
  match vs with
  | [] => true
  | v :: r => if existsb (value_eqb v) seen then false else unique_scan (v :: seen) r
  end.

(* ---- enum environment ------------------------------------------------------ *)
(* numbers the compiled enum defines: 0 (UNSPECIFIED) and 1..n *)
Definition defined_numbers (env : enum_env) : list Z :=
  0 :: map (fun i => Z.of_nat i) (seq 1 (length (ee_options env))).
(* full name of the option with number n (n >= 1) *)
Definition option_name (env : enum_env) (n : Z) : option str :=
  if (1 <=? n) && (n <=? Z.of_nat (length (ee_options env)))
  then match nth_error (ee_options env) (Z.to_nat (n - 1)) with
       | Some o => Some (with_prefix env o)
       | None => None
       end
  else None.
Definition names_full (env : enum_env) (l : list str) : list str := map (with_prefix env) l.

Section Sem.
(* [re_match p s]: the regular expression [p] (RE2 syntax, as Go regexp / CEL
   matches) finds a match in [s] *)
Variable re_match : str -> str -> bool.

(* ======================= declared meaning ================================== *)
Definition int_rule_ok (r : int_rules) (z : Z) : bool :=
  match ir_min r with
  | None => true
  | Some m => if is_true (ir_xmin r) then m <? z else m <=? z
  end &&
  match ir_max r with
  | None => true
  | Some m => if is_true (ir_xmax r) then z <? m else z <=? m
  end.

Definition str_rule_ok (r : str_rules) (s : str) : bool :=
  opt_leN (sr_min r) (len s) && opt_geN (sr_max r) (len s) &&
  match sr_pat r with Some p => re_match p s | None => true end.

Definition len_rule_ok (r : len_rules) (b : str) : bool :=
  opt_leN (lr_min r) (len b) && opt_geN (lr_max r) (len b).

Definition enum_rule_ok (env : enum_env) (r : enum_rules) (n : Z) : bool :=
  match er_in r with
  | [] => true
  | l => match option_name env n with Some nm => mem_str nm (names_full env l) | None => false end
  end &&
  match option_name env n with Some nm => negb (mem_str nm (names_full env (er_notin r))) | None => true end.

Definition key_ok (f : kfmt) (s : str) : bool :=
  match f with
  | KInformal => true
  | KCustom p => re_match p s
  | KUuid => is_uuid s
  | KId62 => id62_shape s
  end.

(* a value satisfies the declared rules of its field type *)
Definition ty_ok (env : enum_env) (t : fty) (v : value) : bool :=
  match t, v with
  | TInt _ (Some r) _, VInt z => int_rule_ok r z
  | TStr _ (Some r) _, VStr s => str_rule_ok r s
  | TBytes (Some r), VBytes b => len_rule_ok r b
  | TBool (Some (Some c)) _, VBool b => Bool.eqb b c
  | TEnum r _, VEnum n =>
      memZ n (defined_numbers env) &&
      match r with Some r => enum_rule_ok env r n | None => true end
  | TKey (Some f) _ _, VStr s => key_ok f s
  | _, _ => true
  end.

Definition is_primary (t : pty) : bool :=
  match t with
  | PSingle (TKey _ (Some e) _) | PArray _ _ (TKey _ (Some e) _) =>
      match ek_type e with Some (EPrimary true) => true | _ => false end
  | _ => false
  end.

Definition is_msg_ty (t : fty) : bool :=
  match t with
  | TDate _ _ | TDecimal _ _ | TTimestamp _ | TAny _ _ _ | TObject _ | TOneof _ => true
  | _ => false
  end.

Definition arr_rule_ok (r : arr_rules) (vs : list value) : bool :=
  opt_leN (ar_min r) (N.of_nat (length vs)) && opt_geN (ar_max r) (N.of_nat (length vs))
  && (if is_true (ar_uniq r) then distinct vs else true).

(* the declared meaning of one property for the value of its compiled field *)
Definition rule_sem (env : enum_env) (d : prop) (fv : fvalue) : bool :=
  let req := p_req d || is_primary (p_ty d) in
  match p_ty d, fv with
  | PSingle t, FAbsent => negb req
  | PSingle t, FOne v =>
      (* a required field must be populated: for an implicit-presence scalar
         that means a non-zero value *)
      (if req && negb (p_opt d || is_msg_ty t) then negb (is_zero v) else true)
      && ty_ok env t v
  | PArray r _ t, FMany vs =>
      (if req then negb (match vs with [] => true | _ => false end) else true)
      && match r with Some r => arr_rule_ok r vs | None => true end
      && forallb (ty_ok env t) vs
  | PMap r t, FMap kvs =>
      (* the map field itself carries no key annotation: only an explicit required counts *)
      (if p_req d then negb (match kvs with [] => true | _ => false end) else true)
      && match r with
         | Some r => opt_leN (mr_min r) (N.of_nat (length kvs)) && opt_geN (mr_max r) (N.of_nat (length kvs))
         | None => true
         end
      && forallb (fun kv => ty_ok env t (snd kv)) kvs
  | _, _ => true
  end.

(* ======================= protovalidate ===================================== *)
Definition int_ok (ub : ubound) (lb : lbound) (z : Z) : bool :=
  match ub, lb with
  | NoUb, NoLb => true
  | Lt a, NoLb => z <? a
  | Lte a, NoLb => z <=? a
  | NoUb, Gt b => b <? z
  | NoUb, Gte b => b <=? z
  (* both: "and" when lt >= gt, otherwise the value must lie outside *)
  | Lt a, Gt b => if b <=? a then negb ((a <=? z) || (z <=? b)) else negb ((a <=? z) && (z <=? b))
  | Lte a, Gt b => if b <=? a then negb ((a <? z) || (z <=? b)) else negb ((a <? z) && (z <=? b))
  | Lt a, Gte b => if b <=? a then negb ((a <=? z) || (z <? b)) else negb ((a <=? z) && (z <? b))
  | Lte a, Gte b => if b <=? a then negb ((a <? z) || (z <? b)) else negb ((a <? z) && (z <? b))
  end.

Definition str_ok (mn mx : option N) (pat : option str) (uuid : bool) (s : str) : bool :=
  opt_leN mn (len s) && opt_geN mx (len s)
  && match pat with Some p => re_match p s | None => true end
  && (if uuid
      then (match s with [] => true | _ => uuid_regex s end)         (* string.uuid *)
           && negb (match s with [] => true | _ => false end)        (* string.uuid_empty *)
      else true).

(* constraints on one (non-repeated) value; [defined]: numbers of the enum type *)
Definition eval_scalar (defined : list Z) (t : tyc) (v : value) : bool :=
  match t, v with
  | CInt _ ub lb, VInt z => int_ok ub lb z
  | CStr mn mx pat uuid, VStr s => str_ok mn mx pat uuid s
  | CBytes mn mx, VBytes b => opt_leN mn (len b) && opt_geN mx (len b)
  | CBool (Some c), VBool b => Bool.eqb b c
  | CBool None, VBool _ => true
  | CEnum d cin cnotin, VEnum n =>
      (if d then memZ n defined else true)
      && (match cin with [] => true | _ => memZ n cin end)
      && negb (memZ n cnotin)
  | CTimestamp, VMsg => true
  | _, _ => true
  end.

Definition eval_tyc (defined : list Z) (t : tyc) (fv : fvalue) : bool :=
  match t, fv with
  | CRep mn mx uq items, FMany vs =>
      opt_leN mn (N.of_nat (length vs)) && opt_geN mx (N.of_nat (length vs))
      && (if is_true uq then unique_scan [] vs else true)
      && match items with
         | Some it => forallb (eval_scalar defined it) vs
         | None => true
         end
  | CMap mn mx values, FMap kvs =>
      opt_leN mn (N.of_nat (length kvs)) && opt_geN mx (N.of_nat (length kvs))
      && match values with
         | Some vt => forallb (fun kv => eval_scalar defined vt (snd kv)) kvs
         | None => true
         end
  | _, FOne v => eval_scalar defined t v
  | _, _ => true
  end.

(* FieldDescriptor.HasPresence, as observed on the linked descriptor *)
Definition has_presence (o : fout) : bool := fo_pres o.

(* Message.Has(field) *)
Definition populated (o : fout) (fv : fvalue) : bool :=
  match fv with
  | FAbsent => false
  | FOne v => if has_presence o then true else negb (is_zero v)
  | FMany vs => match vs with [] => false | _ => true end
  | FMap kvs => match kvs with [] => false | _ => true end
  end.

(* Message.Get(field) of an unpopulated field without presence: the zero value *)
Definition zero_value (k : pkind) : value :=
  match k with
  | KdInt32 | KdInt64 | KdUint32 | KdUint64 => VInt 0
  | KdString => VStr []
  | KdBytes => VBytes []
  | KdBool => VBool false
  | KdEnum => VEnum 0
  | _ => VMsg
  end.
Definition got (o : fout) (fv : fvalue) : fvalue :=
  match fv with
  | FAbsent => if has_presence o then FAbsent else FOne (zero_value (fo_kind o))
  | _ => fv
  end.

(* field.EvaluateMessage *)
Definition validate_sem (defined : list Z) (o : fout) (fv0 : fvalue) : bool :=
  match fo_val o with
  | None => true
  | Some c =>
      let fv := got o fv0 in
      let has := populated o fv in
      if c_req c && negb has then false
      else if has_presence o && negb has then true
      else match c_ty c with
           | Some t => eval_tyc defined t fv
           | None => true
           end
  end.

(* a message: every field is validated on its own (j5 emits no message-level,
   oneof-level or cross-field constraint) *)
Fixpoint validate_obj (defined : list Z) (os : list fout) (fvs : list fvalue) : bool :=
  match os, fvs with
  | [], [] => true
  | o :: r, v :: s => validate_sem defined o v && validate_obj defined r s
  | _, _ => false
  end.
Fixpoint rule_obj (env : enum_env) (ds : list prop) (fvs : list fvalue) : bool :=
  match ds, fvs with
  | [], [] => true
  | d :: r, v :: s => rule_sem env d v && rule_obj env r s
  | _, _ => false
  end.

End Sem.

(* ---- typing of values against a declaration ------------------------------- *)
Definition value_typed (t : fty) (v : value) : bool :=
  match t, v with
  | TInt _ _ _, VInt _ | TStr _ _ _, VStr _ | TBytes _, VBytes _ | TBool _ _, VBool _
  | TEnum _ _, VEnum _ | TKey _ _ _, VStr _ => true
  | TFloat _ _, _ => false
  | t, VMsg => is_msg_ty t
  | _, _ => false
  end.

Definition fvalue_typed (d : prop) (fv : fvalue) : bool :=
  match p_ty d, fv with
  | PSingle t, FAbsent => p_opt d || is_msg_ty t
  | PSingle t, FOne v => value_typed t v
  | PArray _ _ t, FMany vs => forallb (value_typed t) vs
  | PMap _ t, FMap kvs => forallb (fun kv => value_typed t (snd kv)) kvs
  | _, _ => false
  end.

(* the regular expressions of the correspondence stream: ^[ranges]{n}$ *)
Definition re_class_count (p s : str) : bool :=
  match parse_pattern p with
  | Some pp => matches pp s
  | None => false
  end.

(* Validate.v — [validate_sem]: what bufbuild/protovalidate-go v0.9.2 returns for
   the subset of (buf.validate.field) j5 emits, read off field.go (required /
   ignore-empty / zero value handling), message.go + error_utils.go (a
   compilation error of any constraint of the message type is returned for every
   message; a runtime error aborts the evaluation and replaces all violations)
   and the CEL expressions attached to the rule fields of validate.proto
   (int*.lt/lte/gt/gte incl. the combined and the inverted "exclusive range"
   forms, string.min_len/max_len (this.size(): code points of the UTF-8 text)
   /pattern/uuid, bytes lengths, bool.const, enum.in/not_in + defined_only, the
   repeated rules incl. unique(), which has no overload for lists of messages).
   The verdict is three-valued: accept / reject / error (RulesDecl.verdict).
   The declared meaning is NOT here: model/RulesSpec.v.
   The regular expression engine is a pair of Section variables ([re_ok]: the
   pattern compiles; [re_match]: it finds a match). No proofs here. *)
From Coq Require Import String List NArith ZArith Bool.
From J5V.lib Require Import Outcome.
From J5V.model Require Import RulesDecl RulesWrite Id62.
From J5V.gen Require Id62Gen.
Import ListNotations.
Local Open Scope Z_scope.

Definition len (s : str) : N := N.of_nat (length s).

(* ---- strings on the wire: UTF-8 --------------------------------------------- *)
Local Open Scope N_scope.
Definition utf8_enc1 (c : N) : list N :=
  if c <? 128 then [c]
  else if c <? 2048 then [192 + c / 64; 128 + c mod 64]
  else if c <? 65536 then [224 + c / 4096; 128 + (c / 64) mod 64; 128 + c mod 64]
  else [240 + c / 262144; 128 + (c / 4096) mod 64; 128 + (c / 64) mod 64; 128 + c mod 64].
Definition utf8_enc (s : str) : list N := flat_map utf8_enc1 s.
(* utf8.RuneCountInString of valid UTF-8: the bytes that are not continuation bytes *)
Definition is_cont (b : N) : bool := (128 <=? b) && (b <? 192).
Definition rune_count (bs : list N) : N := N.of_nat (length (filter (fun b => negb (is_cont b)) bs)).
(* CEL this.size() of a string value *)
Definition cel_size (s : str) : N := rune_count (utf8_enc s).
(* a Unicode scalar value *)
Definition is_scalar (c : N) : bool := (c <? 55296) || ((57344 <=? c) && (c <? 1114112)).

(* ---- floats (binary64 bit patterns) ----------------------------------------- *)
Definition f_abs (x : N) : N := x mod 9223372036854775808.
Definition f_nan (x : N) : bool := 9218868437227405312 <? f_abs x.
(* Go ==, which is what a map[ref.Val] key comparison of types.Double uses *)
Definition f_eq (x y : N) : bool :=
  negb (f_nan x) && negb (f_nan y) && ((x =? y) || ((f_abs x =? 0) && (f_abs y =? 0))).
Local Close Scope N_scope.

Definition opt_leN (lo : option N) (n : N) : bool := match lo with Some m => (m <=? n)%N | None => true end.
Definition opt_geN (hi : option N) (n : N) : bool := match hi with Some m => (n <=? m)%N | None => true end.

(* ---- value helpers -------------------------------------------------------- *)
Definition is_zero (v : value) : bool :=
  match v with
  | VInt z => z =? 0
  | VStr s => match s with [] => true | _ => false end
  | VBytes b => match b with [] => true | _ => false end
  | VBool b => negb b
  | VEnum n => n =? 0
  | VFloat x => (x =? 0)%N         (* protoreflect isSet: v != 0 || Signbit(v): -0 is set *)
  | VMsg _ => false
  end.

Definition value_eqb (a b : value) : bool :=
  match a, b with
  | VInt x, VInt y => x =? y
  | VStr x, VStr y => str_eqb x y
  | VBytes x, VBytes y => str_eqb x y
  | VBool x, VBool y => Bool.eqb x y
  | VEnum x, VEnum y => x =? y
  | VFloat x, VFloat y => f_eq x y
  | VMsg x, VMsg y => (x =? y)%N
  | _, _ => false
  end.
Definition is_msg_value (v : value) : bool := match v with VMsg _ => true | _ => false end.

Definition memZ (z : Z) (l : list Z) : bool := existsb (Z.eqb z) l.
Definition mem_str (s : str) (l : list str) : bool := existsb (str_eqb s) l.

(* ---- string.uuid -------------------------------------------------------------- *)
Definition is_hex (c : N) : bool :=
  ((48 <=? c) && (c <=? 57) || (97 <=? c) && (c <=? 102) || (65 <=? c) && (c <=? 70))%N.

(* protovalidate's string.uuid: the regex
   ^[0-9a-fA-F]{8}-[0-9a-fA-F]{4}-[0-9a-fA-F]{4}-[0-9a-fA-F]{4}-[0-9a-fA-F]{12}$
   as a segment matcher, plus string.uuid_empty *)
Fixpoint take_hex (n : nat) (s : str) : option str :=
  match n with
  | O => Some s
  | S k => match s with
           | c :: r => if is_hex c then take_hex k r else None
           | [] => None
           end
  end.
Definition take_dash (s : str) : option str :=
  match s with c :: r => if N.eqb c 45 then Some r else None | [] => None end.
Definition obnd {A B} (o : option A) (f : A -> option B) : option B :=
  match o with Some a => f a | None => None end.
Definition uuid_regex (s : str) : bool :=
  match obnd (take_hex 8 s) (fun s => obnd (take_dash s) (fun s =>
        obnd (take_hex 4 s) (fun s => obnd (take_dash s) (fun s =>
        obnd (take_hex 4 s) (fun s => obnd (take_dash s) (fun s =>
        obnd (take_hex 4 s) (fun s => obnd (take_dash s) (fun s =>
        take_hex 12 s)))))))) with
  | Some [] => true
  | _ => false
  end.

(* ---- repeated.unique: scan, remembering what was seen (uniqueScalar / uniqueBytes) --- *)
Fixpoint unique_scan (seen : list value) (vs : list value) : bool :=
  match vs with
  | [] => true
  | v :: r => if existsb (value_eqb v) seen then false else unique_scan (v :: seen) r
  end.

(* ---- enum environment ------------------------------------------------------ *)
(* numbers the compiled enum defines: 0 (UNSPECIFIED) and 1..n *)
Definition defined_numbers (env : enum_env) : list Z :=
  0 :: map (fun i => Z.of_nat i) (seq 1 (length (ee_options env))).

Definition of_bool (b : bool) : verdict := if b then VAccept else VReject.

(* errors win over violations (mergeViolations returns a non-validation error
   as it is), and the compilation error of the message evaluator is checked
   before anything is evaluated *)
Definition vworst (a b : verdict) : verdict :=
  match a, b with
  | VError ECompile, _ | _, VError ECompile => VError ECompile
  | VError ERuntime, _ | _, VError ERuntime => VError ERuntime
  | VReject, _ | _, VReject => VReject
  | VAccept, VAccept => VAccept
  end.

Section Sem.
(* the regular expression engine (Go regexp, which CEL's matches() uses):
   [re_ok p]: p compiles; [re_match p s]: p finds a match in s (meaningful when re_ok p) *)
Variable re_ok : str -> bool.
Variable re_match : str -> str -> bool.

(* ======================= protovalidate ===================================== *)
Definition int_ok (ub : ubound) (lb : lbound) (z : Z) : bool :=
  match ub, lb with
  | NoUb, NoLb => true
  | Lt a, NoLb => z <? a
  | Lte a, NoLb => z <=? a
  | NoUb, Gt b => b <? z
  | NoUb, Gte b => b <=? z
  (* both: "and" when lt >= gt, otherwise the value must lie outside *)
  | Lt a, Gt b => if b <=? a then negb ((a <=? z) || (z <=? b)) else negb ((a <=? z) && (z <=? b))
  | Lte a, Gt b => if b <=? a then negb ((a <? z) || (z <=? b)) else negb ((a <? z) && (z <=? b))
  | Lt a, Gte b => if b <=? a then negb ((a <=? z) || (z <? b)) else negb ((a <=? z) && (z <? b))
  | Lte a, Gte b => if b <=? a then negb ((a <? z) || (z <? b)) else negb ((a <? z) && (z <? b))
  end.

Definition str_ok (mn mx : option N) (pat : option str) (uuid : bool) (s : str) : bool :=
  opt_leN mn (cel_size s) && opt_geN mx (cel_size s)
  && match pat with Some p => re_match p s | None => true end
  && (if uuid
      then (match s with [] => true | _ => uuid_regex s end)         (* string.uuid *)
           && negb (match s with [] => true | _ => false end)        (* string.uuid_empty *)
      else true).

(* constraints on one (non-repeated) value; [defined]: numbers of the enum type *)
Definition eval_scalar (defined : list Z) (t : tyc) (v : value) : bool :=
  match t, v with
  | CInt _ ub lb, VInt z => int_ok ub lb z
  | CStr mn mx pat uuid, VStr s => str_ok mn mx pat uuid s
  | CBytes mn mx, VBytes b => opt_leN mn (len b) && opt_geN mx (len b)
  | CBool (Some c), VBool b => Bool.eqb b c
  | CBool None, VBool _ => true
  | CEnum d cin cnotin, VEnum n =>
      (if d then memZ n defined else true)
      && (match cin with [] => true | _ => memZ n cin end)
      && negb (memZ n cnotin)
  | CTimestamp _ _, VMsg _ => true     (* j5 emits no bound; bounds are not modelled *)
  | _, _ => true
  end.

(* does every pattern in the constraint compile? (the programs of a message type
   are compiled when its evaluator is built) *)
Fixpoint tyc_compiles (t : tyc) : bool :=
  match t with
  | CStr _ _ (Some p) _ => re_ok p
  | CRep _ _ _ (Some it) => tyc_compiles it
  | CMap _ _ (Some vt) => tyc_compiles vt
  | _ => true
  end.

Definition eval_tyc (defined : list Z) (t : tyc) (fv : fvalue) : verdict :=
  match t, fv with
  | CRep mn mx uq items, FMany vs =>
      (* unique() has overloads for lists of bool / int / uint / double / string /
         bytes only: on a non-empty list of messages the program fails *)
      if is_true uq && existsb is_msg_value vs then VError ERuntime
      else of_bool
        (opt_leN mn (N.of_nat (length vs)) && opt_geN mx (N.of_nat (length vs))
         && (if is_true uq then unique_scan [] vs else true)
         && match items with
            | Some it => forallb (eval_scalar defined it) vs
            | None => true
            end)
  | CMap mn mx values, FMap kvs =>
      of_bool
        (opt_leN mn (N.of_nat (length kvs)) && opt_geN mx (N.of_nat (length kvs))
         && match values with
            | Some vt => forallb (fun kv => eval_scalar defined vt (snd kv)) kvs
            | None => true
            end)
  | _, FOne v => of_bool (eval_scalar defined t v)
  | _, _ => VAccept
  end.

(* FieldDescriptor.HasPresence, as observed on the linked descriptor *)
Definition has_presence (o : fout) : bool := fo_pres o.

(* Message.Has(field) *)
Definition populated (o : fout) (fv : fvalue) : bool :=
  match fv with
  | FAbsent => false
  | FOne v => if has_presence o then true else negb (is_zero v)
  | FMany vs => match vs with [] => false | _ => true end
  | FMap kvs => match kvs with [] => false | _ => true end
  end.

(* Message.Get(field) of an unpopulated field without presence: the zero value *)
Definition zero_value (k : pkind) : value :=
  match k with
  | KdInt32 | KdInt64 | KdUint32 | KdUint64 => VInt 0
  | KdString => VStr []
  | KdBytes => VBytes []
  | KdBool => VBool false
  | KdEnum => VEnum 0
  | KdFloat | KdDouble => VFloat 0
  | _ => VMsg 0
  end.
Definition got (o : fout) (fv : fvalue) : fvalue :=
  match fv with
  | FAbsent => if has_presence o then FAbsent else FOne (zero_value (fo_kind o))
  | _ => fv
  end.

Definition field_compiles (o : fout) : bool :=
  match fo_val o with
  | Some c => match c_ty c with Some t => tyc_compiles t | None => true end
  | None => true
  end.

(* field.EvaluateMessage, behind message.EvaluateMessage's m.Err check *)
Definition validate_sem (defined : list Z) (o : fout) (fv0 : fvalue) : verdict :=
  if negb (field_compiles o) then VError ECompile
  else
  match fo_val o with
  | None => VAccept
  | Some c =>
      let fv := got o fv0 in
      let has := populated o fv in
      if c_req c && negb has then VReject
      else if has_presence o && negb has then VAccept
      else match c_ty c with
           | Some t => eval_tyc defined t fv
           | None => VAccept
           end
  end.

(* a message: every field is validated on its own (j5 emits no message-level,
   oneof-level or cross-field constraint); the worst result wins *)
Fixpoint validate_obj (defined : list Z) (os : list fout) (fvs : list fvalue) : verdict :=
  match os, fvs with
  | [], [] => VAccept
  | o :: r, v :: s => vworst (validate_sem defined o v) (validate_obj defined r s)
  | _, _ => VReject
  end.

End Sem.

(* ---- typing of values against a declaration ------------------------------- *)
Definition is_msg_ty (t : fty) : bool :=
  match t with
  | TDate _ _ | TDecimal _ _ | TTimestamp _ _ | TAny _ _ _ | TObject _ _ _ | TOneof _ _ _ => true
  | _ => false
  end.

Definition value_typed (t : fty) (v : value) : bool :=
  match t, v with
  | TInt _ _ _, VInt _ | TBytes _, VBytes _ | TBool _ _, VBool _
  | TEnum _ _, VEnum _ | TFloat _ _ _, VFloat _ => true
  | TStr _ _ _, VStr s | TKey _ _ _, VStr s => forallb is_scalar s    (* proto3 strings are valid UTF-8 *)
  | t, VMsg _ => is_msg_ty t
  | _, _ => false
  end.

Definition fvalue_typed (d : prop) (fv : fvalue) : bool :=
  match p_ty d, fv with
  | PSingle t, FAbsent => p_opt d || is_msg_ty t
  | PSingle t, FOne v => value_typed t v
  | PArray _ _ t, FMany vs => forallb (value_typed t) vs
  | PMap _ t, FMap kvs => forallb (fun kv => value_typed t (snd kv)) kvs
  | _, _ => false
  end.

(* one value per property of a message *)
Fixpoint typed_obj (ds : list prop) (fvs : list fvalue) : bool :=
  match ds, fvs with
  | [], [] => true
  | d :: r, v :: s => fvalue_typed d v && typed_obj r s
  | _, _ => false
  end.

(* ---- the engine of the correspondence stream --------------------------------- *)
(* patterns of the form ^[ranges]{n}$ (C20's matcher); anything else does not
   compile — the stream generates only patterns of that form and patterns Go's
   regexp rejects *)
Definition re_class_count (p s : str) : bool :=
  match parse_pattern p with
  | Some pp => matches pp s
  | None => false
  end.
Definition re_class_ok (p : str) : bool :=
  match parse_pattern p with Some _ => true | None => false end.

(* BclFmtCorr.v — correspondence cases for C19 and C09: Fmt output bytes, the
   FmtDiffs edit list (or its error / panic), the LSP mapping, and direct ties of
   tokenSource and reformatDescription. *)
From Coq Require Import String List NArith ZArith Bool.
From J5V.lib Require Import Text Outcome Corr.
From J5V.model Require Import BclLexer BclParser BclFmt BclCli BclFmtAligned.
Import ListNotations.
Local Open Scope bool_scope.

Definition oedit : Type := (Z * Z * list N)%type.
Definition edit_obs (e : edit) : oedit := (e_from e, e_to e, e_text e).
Definition ote : Type := (Z * Z * Z * Z * list N)%type.
Definition te_obs (t : text_edit) : ote :=
  (lp_line (te_start t), lp_char (te_start t), lp_line (te_end t), lp_char (te_end t), te_text t).
Definition ote_eqb (a b : ote) : bool :=
  let '(a1, a2, a3, a4, a5) := a in let '(b1, b2, b3, b4, b5) := b in
  Z.eqb a1 b1 && Z.eqb a2 b2 && Z.eqb a3 b3 && Z.eqb a4 b4 && list_N_eqb a5 b5.
Definition oedit_eqb (a b : oedit) : bool :=
  let '(f1, t1, x1) := a in let '(f2, t2, x2) := b in Z.eqb f1 f2 && Z.eqb t1 t2 && list_N_eqb x1 x2.


Inductive fmtcase :=
(* Fmt(input): accepted with this output, or rejected *)
| CFmt (input : list N) (ok : bool) (out : list N)
(* FmtDiffs(input): 0 = edits, 1 = error, 2 = panic; and the TextEdits genlsp's Format returns for the same
   input (start line, start character, end line, end character, text), empty when there are no edits *)
| CDiffs (input : list N) (kind : N) (edits : list oedit) (lsp : list ote)
(* tokenSource(Token{Type, Lit}) *)
| CTokSrc (code : N) (lit : list N) (out : list N)
(* reformatDescription(input, maxWidth) *)
| CReflow (input : list N) (maxw : Z) (out : list (list N))
(* `j5 j5s fmt` (runJ5sFmt) on a file tree: target 0 = --dir, 1 = --file fpath, 2 = both; the files before and
   after (same order), and whether the command returned an error *)
| CCli (target : N) (fpath : path) (write : bool) (before after : tree) (failed : bool)
(* FmtDiffs(y) for a text y the real formatter returned (y = Fmt(x)): the edits observed (normally none); the model
   must compute the same list AND the second run's diffs must satisfy extent_ok, the hypothesis of
   C19_formatted_no_edits_partial / C09_formatted_no_edits_partial *)
| CFormatted (y : list N) (edits : list oedit).

Definition entry_eqb (a b : path * list N) : bool := path_eqb (fst a) (fst b) && list_N_eqb (snd a) (snd b).

Definition fmt_check (c : fmtcase) : bool :=
  match c with
  | CFmt input ok out =>
    match fmt_bytes input with
    | Ok o => ok && list_N_eqb o out
    | Err _ => negb ok
    | _ => false
    end
  | CDiffs input kind edits lsp =>
    (* lsp_format input = omap (map to_text_edit) (fmt_diffs input): FmtDiffs is evaluated once *)
    match fmt_diffs input with
    | Ok es => N.eqb kind 0 && list_eqb oedit_eqb (map edit_obs es) edits
               && list_eqb ote_eqb (map te_obs (map to_text_edit es)) lsp
    | Err _ => N.eqb kind 1
    | Panic _ => N.eqb kind 2
    | OutOfFuel => false
    end
  | CTokSrc code l out => list_N_eqb (token_source (mkTok (ttype_of_code code) l pos0 pos0)) out
  | CReflow input maxw out => list_eqb list_N_eqb (reformat_description input maxw) out
  | CCli target fpath write before after failed_obs =>
    let out := run_fmt (if N.eqb target 0 then TDir else if N.eqb target 1 then TFile fpath else TBoth fpath) write before in
    list_eqb entry_eqb (fs_after out) after &&
    Bool.eqb (match failed out with Some _ => true | None => false end) failed_obs
  | CFormatted y edits =>
    match fmt_diffs y with
    | Ok es => list_eqb oedit_eqb (map edit_obs es) edits && extent_ok_of y
    | _ => false
    end
  end.

(* Entity.v — model of internal/j5s/sourcewalk/entity.go (entityNode.run and the
   accept* functions), of the parts of sourcewalk/{service,topic,schema}.go it drives
   (method request/response objects, path.Join of base path, topic message + service,
   mapProperties numbering) and of the j5convert steps that decide the observable
   descriptor shape (visitObjectNode psm option, visitEnumNode numbering,
   visitServiceMethodNode path parameters, buildProperty: proto name = ToSnake,
   primary key => required, resolveType => "type not found").
   From an abstract entity declaration to the ORDERED list of emitted components.
   Names are byte strings computed with lib/Strcase.v.  No proofs in this file. *)
From Coq Require Import String Ascii List NArith Bool.
From J5V.lib Require Import Outcome Strcase.
Import ListNotations.
Local Open Scope bool_scope.
Local Open Scope N_scope.

Definition bytes := list N.
Definition bs (s : string) : bytes := map N_of_ascii (list_ascii_of_string s).

Fixpoint bytes_eqb (a b : bytes) : bool :=
  match a, b with
  | [], [] => true
  | x :: r, y :: s => (x =? y) && bytes_eqb r s
  | _, _ => false
  end.

Fixpoint join (sep : bytes) (l : list bytes) : bytes :=
  match l with
  | [] => []
  | [x] => x
  | x :: r => x ++ sep ++ join sep r
  end.

Fixpoint has_suffix_rev (rsuf rs : bytes) : bool :=
  match rsuf, rs with
  | [], _ => true
  | x :: r, y :: s => (x =? y) && has_suffix_rev r s
  | _ :: _, [] => false
  end.
Definition has_suffix (suf s : bytes) : bool := has_suffix_rev (rev suf) (rev s).
Fixpoint has_prefix (pre s : bytes) : bool :=
  match pre, s with
  | [], _ => true
  | x :: r, y :: t => (x =? y) && has_prefix r t
  | _ :: _, [] => false
  end.

(* ---- the declaration ------------------------------------------------------ *)
(* a user-declared field.  Only what entity.go / buildProperty look at is explicit;
   any other scalar type is carried through as its proto type number + j5 kind name *)
(* the item type of an array / the value type of a map *)
Inductive ikind :=
| IScalar (ptype : N) (j5kind : bytes)
| IExt (type_name : bytes) (j5kind : bytes)
| IObject (name : bytes)
| IOneof (name : bytes)
| IEnum (name : bytes).

(* a field of an inline (anonymous) object / an option of an inline oneof: simple types only *)
Record sfield := mkSF5 { sf_name : bytes; sf_kind : ikind; sf_required : bool; sf_optional : bool;
                         sf_desc : bytes }.      (* the field's `description` ("" = none) *)
Notation mkSF n k r o := (mkSF5 n k r o []) (only parsing).

(* a field of an inline schema AT ANY DEPTH (`field a object { field b object { .. } field c array:string }`):
   simple types, arrays / maps of them, and again inline schemas (k: 0 object 1 oneof 2 enum; c: the
   container as in uf_container).  Used by [KInlineTree]; the flat [sfield] form stays for inline schemas
   with simple fields only (the acceptance theorems cover the flat form) *)
Inductive tfield :=
| TF (name : bytes) (kind : tkind) (required optional : bool) (desc : bytes)
with tkind :=
| TK (i : ikind)
| TKArray (i : ikind)
| TKMap (i : ikind)
| TKInline (k : N) (c : N) (fields : list tfield) (options : list bytes).
Definition tf_name (t : tfield) : bytes := match t with TF n _ _ _ _ => n end.

Inductive fkind :=
| KScalar (ptype : N) (j5kind : bytes)
| KObject (name : bytes)                  (* object:<Name>, a reference to a schema of this package *)
| KOneof (name : bytes)                   (* oneof:<Name> *)
| KEnum (name : bytes)                    (* enum:<Name> *)
| KKey (primary : bool) (foreign : option (bytes * bytes)) (tenant : option bytes)
  (* schema.key {entity{primaryKey | foreignKey{package,entity}, tenantKey}} *)
| KExt (type_name : bytes) (j5kind : bytes)
  (* a message of another (always imported) package: timestamp -> google.protobuf.Timestamp,
     date -> j5.types.date.v1.Date, decimal -> j5.types.decimal.v1.Decimal, any -> j5.types.any.v1.Any *)
| KArray (item : ikind)                   (* array:<item>: a repeated field *)
| KMap (value : ikind)                    (* map:<value>: a repeated field of a nested <Name>Entry message *)
(* inline (anonymous) schemas: `field x object { ... }` / `oneof { ... }` / `enum { ... }` define a type
   nested in the containing message, named ToCamel(field name) *)
| KInlineObject (fields : list sfield)
| KInlineOneof (options : list sfield)
| KInlineEnum (options : list bytes)
(* an inline object (k = 0) / oneof (k = 1) whose fields are not all simple *)
| KInlineTree (k : N) (fields : list tfield).

(* uf_desc: the field's `description` ("" = none): a leading comment of the proto field;
   uf_keyfmt: the format of a key-typed field (`key` 0, `key:id62` 1, `key:uuid` 2): written into
   (j5.ext.v1.field).key.format since fix cf354a5; meaningless for other kinds *)
(* uf_container: for the INLINE kinds only, `array:object { .. }` (1) / `map:object { .. }` (2) instead
   of a singular field (0): a repeated field (of the entry message, for a map) whose item type is the
   nested type; arrays / maps of the other kinds are KArray / KMap *)
Record ufield := mkU7 { uf_name : bytes; uf_kind : fkind; uf_required : bool; uf_optional : bool;
                        uf_desc : bytes; uf_keyfmt : N; uf_container : N }.
Notation mkU6 n k r o d kf := (mkU7 n k r o d kf 0) (only parsing).
Notation mkU n k r o := (mkU7 n k r o [] 0 0) (only parsing).
(* a schema declared inside the entity block (entity.Schemas: object / oneof / enum) *)
Inductive eschema :=
| SObject (name : bytes) (fields : list ufield)
| SOneof (name : bytes) (options : list ufield)
| SEnum (name : bytes) (options : list bytes).
Definition schema_fields (s : eschema) : list ufield :=
  match s with SObject _ fs => fs | SOneof _ fs => fs | SEnum _ _ => [] end.

Record ekey := mkK { k_def : ufield; k_shard : bool }.
Record event := mkEv { ev_name : bytes; ev_fields : list ufield }.
Record method := mkM {
  md_name : bytes; md_verb : N;               (* client_j5pb.HTTPMethod: 1 GET 2 POST 3 PUT 4 DELETE 5 PATCH *)
  md_path : bytes;                            (* http_path, relative *)
  md_request : list ufield;
  md_response : option (list ufield) }.       (* None: raw response, google.api.HttpBody *)
Record command := mkC { c_name : option bytes; c_base : option bytes; c_methods : list method }.
Record summary := mkS { s_name : bytes; s_fields : list ufield }.
(* q_list_settings: the query block carries listRequest / eventsListRequest settings *)
Record query := mkQ { q_events_in_get : bool; q_default_status : list bytes; q_list_settings : bool }.
(* descriptions of the elements that are not fields, by position (a missing entry = none): of the
   events (leading comment of the nested message <X>EventType.<Event>), of the statuses (comment of
   the enum value), of the schemas of the block (comment of the message / enum) and of the options of
   the block's enums.  The `description` of the entity itself, of a command, of a method and of a
   summary is accepted by the parser and appears nowhere in the output (the generator writes them; the
   model ignores them; the compared output has no comment for them) *)
Record enotes := mkN {
  n_event_desc : list bytes; n_status_desc : list bytes;
  n_schema_desc : list bytes; n_option_desc : list (list bytes) }.
Definition no_notes : enotes := mkN [] [] [] [].

Record entity := mkE13 {
  e_pkg : bytes;                              (* dotted package name *)
  e_name : bytes;
  e_base_url : bytes;                         (* "" = default *)
  e_keys : list ekey;
  e_data : list ufield;
  e_status : list bytes;
  e_events : list event;
  e_commands : list command;
  e_summaries : list summary;
  e_query : option query;
  e_schemas : list eschema;
  e_status_num : list N;                     (* the `number` a status declares, in order; 0 / missing = none *)
  e_notes : enotes }.
Notation mkE12 p n b k d s ev c su q sc sn := (mkE13 p n b k d s ev c su q sc sn no_notes) (only parsing).
(* a declaration whose statuses declare no numbers *)
Notation mkE p n b k d s ev c su q sc := (mkE13 p n b k d s ev c su q sc [] no_notes) (only parsing).

(* ---- what is emitted ------------------------------------------------------- *)
Inductive otype :=
| TScalar (ptype : N) (j5kind : bytes)
| TObject (pkg name : bytes)        (* schema_j5pb.Ref as written: pkg "" = this package *)
| TOneof (pkg name : bytes)
| TEnum (pkg name : bytes)
| TExt (type_name : bytes) (j5kind : bytes)   (* a message type given by its full name *)
| TMap (value : otype)              (* map<string, value>: the field refers to its own entry message *)
| TNested (name : bytes) (kind : N). (* a type nested in the containing message: 0 object 1 oneof 2 enum *)

(* a property; its field number is its 1-based position (mapProperties) *)
(* the definition an inline field carries: kind (as TNested), fields / options, enum options *)
(* il_tree: the fields of an inline schema given as a tree ([] for the flat form, whose fields are il_fields) *)
Record inline_def := mkInl4 { il_kind : N; il_fields : list sfield; il_options : list bytes; il_tree : list tfield }.
Notation mkInl k f o := (mkInl4 k f o []) (only parsing).

Record ofield := mkF13 {
  f_json : bytes; f_type : otype; f_repeated : bool; f_required : bool; f_flatten : bool;
  f_primary : bool; f_tenant : option bytes;
  f_filter : option (list bytes);     (* list filtering: Some defaults = filterable *)
  f_foreign : option (bytes * bytes); (* (j5.ext.v1.key).foreign_key {package, entity} *)
  f_optional : bool;                  (* proto3_optional *)
  f_inline : option inline_def;       (* Some: the field's type is defined inline, nested in the message *)
  f_desc : bytes;                     (* the description, as declared *)
  f_keyfmt : N }.                     (* (j5.ext.v1.field).key.format: 0 none, 1 FORMAT_ID62, 2 FORMAT_UUID *)
Notation mkF11 j t r q fl p te fi fo o il := (mkF13 j t r q fl p te fi fo o il [] 0) (only parsing).
Notation mkF10 j t r q fl p te fi fo o := (mkF13 j t r q fl p te fi fo o None [] 0) (only parsing).
(* the fields entity.go itself creates have no foreign key and are never optional *)
Definition mkF j t r q fl p te fi : ofield := mkF10 j t r q fl p te fi None false.

Record omsg := mkMsg {
  m_name : bytes;
  m_psm : option (bytes * N);         (* (entity_name, EntityPart) *)
  m_oneof : bool;
  m_fields : list ofield;
  m_nested : list (bytes * list ofield) }.

Inductive sann :=
| SQuery (entity_name : bytes)
| SCommand (entity_name : bytes)
| STopic (topic_name : bytes) (role : N) (entity_name : bytes).   (* role 3 upsert, 4 event *)

Record omethod := mkMt {
  mt_name : bytes; mt_in : bytes; mt_out : bytes;   (* in/out: names inside the file's package *)
  mt_verb : N; mt_path : bytes;                    (* verb 0 = no http rule (topics) *)
  mt_sq : N }.                                     (* state_query: 0 none 1 get 2 list 3 list_events *)
Record osvc := mkSvc { sv_name : bytes; sv_ann : sann; sv_methods : list omethod }.

(* file: 0 = <pkg>, 1 = <pkg>.service, 2 = <pkg>.topic *)
Inductive component :=
| CMsg (file : N) (m : omsg)
| CEnum (name : bytes) (values : list (bytes * N))
| CSvc (file : N) (s : osvc).

(* ---- names (entity.go:24-31, file.go) ---------------------------------------- *)
Definition camel_name (e : entity) : bytes := to_camel (e_name e).
Definition snake_name (e : entity) : bytes := to_snake (e_name e).            (* ent.name *)
Definition component_name (e : entity) (suffix : bytes) : bytes :=
  to_camel (e_name e) ++ to_camel suffix.
Definition query_prefix (e : entity) : bytes := to_camel (snake_name e).      (* ToCamel(ent.name) *)
Definition full_name (e : entity) : bytes := e_pkg e ++ [46] ++ camel_name e.
Definition status_prefix (e : entity) : bytes :=
  to_screaming_snake (e_name e) ++ bs "_STATUS_".
Definition base_url (e : entity) : bytes :=
  match e_base_url e with
  | [] => map (fun c => if c =? 46 then 47 else c) (e_pkg e) ++ [47] ++ snake_name e
  | p => p
  end.

Definition local_obj (e : entity) (suffix : string) : otype := TObject [] (component_name e (bs suffix)).

(* ---- user fields -> properties (buildProperty) ---------------------------------- *)
Definition otype_of_item (i : ikind) : otype :=
  match i with
  | IScalar pt k => TScalar pt k
  | IExt tn k => TExt tn k
  | IObject n => TObject [] n
  | IOneof n => TOneof [] n
  | IEnum n => TEnum [] n
  end.

Definition of_sfield (s : sfield) : ofield :=
  mkF13 (sf_name s) (otype_of_item (sf_kind s)) false (sf_required s) false false None None None (sf_optional s)
        None (sf_desc s) 0.

(* the type / label / presence of a field whose type is defined inline, by its container *)
Definition inline_type (c : N) (n : bytes) (k : N) : otype :=
  if c =? 2 then TMap (TNested n k) else TNested n k.
(* a field of an inline schema of the tree form; the tree below it is carried along in il_tree *)
Definition of_tfield (t : tfield) : ofield :=
  match t with
  | TF n (TK i) r o d =>
      mkF13 n (otype_of_item i) false r false false None None None o None d 0
  | TF n (TKArray i) r o d =>
      mkF13 n (otype_of_item i) true r false false None None None false None d 0
  | TF n (TKMap i) r o d =>
      mkF13 n (TMap (otype_of_item i)) true r false false None None None false None d 0
  | TF n (TKInline k c fs os) r o d =>
      mkF13 n (inline_type c (to_camel n) k) (negb (c =? 0)) r false false None None None (o && (c =? 0))
            (Some (mkInl4 k [] os fs)) d 0
  end.
Definition of_ufield (u : ufield) : ofield :=
  let d := uf_desc u in
  let c := uf_container u in
  match uf_kind u with
  | KInlineObject fs =>
      mkF13 (uf_name u) (inline_type c (to_camel (uf_name u)) 0) (negb (c =? 0)) (uf_required u) false false None None None
            (uf_optional u && (c =? 0)) (Some (mkInl 0 fs [])) d 0
  | KInlineOneof fs =>
      mkF13 (uf_name u) (inline_type c (to_camel (uf_name u)) 1) (negb (c =? 0)) (uf_required u) false false None None None
            (uf_optional u && (c =? 0)) (Some (mkInl 1 fs [])) d 0
  | KInlineEnum os =>
      mkF13 (uf_name u) (inline_type c (to_camel (uf_name u)) 2) (negb (c =? 0)) (uf_required u) false false None None None
            (uf_optional u && (c =? 0)) (Some (mkInl 2 [] os)) d 0
  | KExt tn k =>
      mkF13 (uf_name u) (TExt tn k) false (uf_required u) false false None None None (uf_optional u) None d 0
  (* an explicitly optional array / map is NOT proto3_optional (fix d536c9b, buildProperty: a repeated
     field cannot be the member of a synthetic oneof); the optional+required clash is still checked *)
  | KArray i =>
      mkF13 (uf_name u) (otype_of_item i) true (uf_required u) false false None None None false None d 0
  | KMap v =>
      (* for a map of keys, f_keyfmt is the format of the VALUE field of the entry message *)
      mkF13 (uf_name u) (TMap (otype_of_item v)) true (uf_required u) false false None None None false None d
            (uf_keyfmt u)
  | KScalar pt k =>
      (* a key-typed scalar that is not an entity key declaration (`data x key:id62`) carries its format too *)
      mkF13 (uf_name u) (TScalar pt k) false (uf_required u) false false None None None (uf_optional u) None d
            (uf_keyfmt u)
  | KObject n =>
      mkF13 (uf_name u) (TObject [] n) false (uf_required u) false false None None None (uf_optional u) None d 0
  | KOneof n =>
      mkF13 (uf_name u) (TOneof [] n) false (uf_required u) false false None None None (uf_optional u) None d 0
  | KEnum n =>
      mkF13 (uf_name u) (TEnum [] n) false (uf_required u) false false None None None (uf_optional u) None d 0
  | KKey primary foreign tenant =>
      mkF13 (uf_name u) (TScalar 9 (bs "key")) false (uf_required u || primary) false primary tenant None
            foreign (uf_optional u) None d (uf_keyfmt u)
  | KInlineTree k fs =>
      mkF13 (uf_name u) (inline_type c (to_camel (uf_name u)) k) (negb (c =? 0)) (uf_required u) false false None None None
            (uf_optional u && (c =? 0)) (Some (mkInl4 k [] [] fs)) d 0
  end.
(* buildProperty: "cannot be both required and optional" (a primary key is required) *)
Definition sfield_ok (s : sfield) : bool := negb (sf_optional s && sf_required s).
Fixpoint tfield_ok (t : tfield) : bool :=
  match t with
  | TF _ k r o _ =>
      negb (o && r)
      && match k with
         | TKInline _ _ fs _ => forallb tfield_ok fs
         | _ => true
         end
  end.
Definition ufield_ok (u : ufield) : bool :=
  negb (uf_optional u && (uf_required u || match uf_kind u with KKey p _ _ => p | _ => false end))
  (* the fields of an inline object / the options of an inline oneof go through buildProperty too *)
  && match uf_kind u with
     | KInlineObject fs => forallb sfield_ok fs
     | KInlineOneof fs => forallb sfield_ok fs
     | KInlineTree _ fs => forallb tfield_ok fs
     | _ => true
     end.
Definition plain_field (name : string) (t : otype) (required : bool) : ofield :=
  mkF (bs name) t false required false false None None.
Definition array_field (name : bytes) (t : otype) (required : bool) : ofield :=
  mkF name t true required false false None None.

(* ---- the parts ------------------------------------------------------------------ *)
Definition part_keys := 1. Definition part_state := 2. Definition part_event := 3. Definition part_data := 4.

Definition keys_msg (e : entity) : omsg :=
  mkMsg (component_name e (bs "Keys")) (Some (snake_name e, part_keys)) false
        (map (fun k => of_ufield (k_def k)) (e_keys e)) [].
Definition data_msg (e : entity) : omsg :=
  mkMsg (component_name e (bs "Data")) (Some (snake_name e, part_data)) false
        (map of_ufield (e_data e)) [].

(* visitEnumNode with Prefix set; addValue keeps a name that already has the prefix;
   a first option that SPELLS the zero value (UNSPECIFIED or <prefix>UNSPECIFIED) takes slot 0
   (isExplicitZero, fix a65e1f2; before, any first option ending in UNSPECIFIED did) *)
Definition status_value_name (prefix s : bytes) : bytes :=
  if has_prefix prefix s then s else prefix ++ s.
Definition is_explicit_zero (prefix s : bytes) : bool :=
  bytes_eqb (status_value_name prefix s) (prefix ++ bs "UNSPECIFIED").
Fixpoint number_from (i : N) (prefix : bytes) (l : list bytes) : list (bytes * N) :=
  match l with
  | [] => []
  | s :: r => (status_value_name prefix s, i) :: number_from (N.succ i) prefix r
  end.
(* [n0]: the number the FIRST option declares (0 = none).  visitEnumNode numbers the options by
   POSITION; a declared number is ignored, except that a first option spelling the zero value takes
   slot 0 only when it declares no (non-zero) number *)
Definition status_values_n (prefix : bytes) (l : list bytes) (n0 : N) : list (bytes * N) :=
  match l with
  | s :: r =>
      if is_explicit_zero prefix s && (n0 =? 0)
      then (status_value_name prefix s, 0) :: number_from 1 prefix r
      else (prefix ++ bs "UNSPECIFIED", 0) :: number_from 1 prefix l
  | [] => [(prefix ++ bs "UNSPECIFIED", 0)]
  end.
Definition status_values (prefix : bytes) (l : list bytes) : list (bytes * N) := status_values_n prefix l 0.
Definition first_status_number (e : entity) : N := match e_status_num e with n :: _ => n | [] => 0 end.
Definition entity_status_values (e : entity) : list (bytes * N) :=
  status_values_n (status_prefix e) (e_status e) (first_status_number e).
Definition status_enum (e : entity) : component :=
  CEnum (component_name e (bs "Status")) (entity_status_values e).

(* findStatus: the name visitEnumNode/addValue gives the status (fix 705ef70) *)
Definition find_status (e : entity) (f : bytes) : option bytes :=
  if existsb (bytes_eqb f) (e_status e)
  then Some (status_value_name (status_prefix e) f)
  else None.
Fixpoint default_filters (e : entity) (l : list bytes) : option (list bytes) :=
  match l with
  | [] => Some []
  | f :: r => match find_status e f, default_filters e r with
              | Some s, Some t => Some (s :: t)
              | _, _ => None
              end
  end.

Definition state_msg (e : entity) (filters : list bytes) : omsg :=
  mkMsg (component_name e (bs "State")) (Some (snake_name e, part_state)) false
    [ plain_field "metadata" (TObject (bs "j5.state.v1") (bs "StateMetadata")) true;
      mkF (bs "keys") (local_obj e "Keys") false true true false None None;
      plain_field "data" (local_obj e "Data") true;
      mkF (bs "status") (TEnum [] (component_name e (bs "Status"))) false true false false None (Some filters) ]
    [].

Definition event_type_name (e : entity) : bytes := component_name e (bs "EventType").
Definition event_type_msg (e : entity) : omsg :=
  mkMsg (event_type_name e) None true
    (map (fun ev => mkF (to_lower_camel (ev_name ev))
                        (TObject [] (event_type_name e ++ [46] ++ ev_name ev))
                        false false false false None None) (e_events e))
    (map (fun ev => (ev_name ev, map of_ufield (ev_fields ev))) (e_events e)).

Definition event_msg (e : entity) : omsg :=
  mkMsg (component_name e (bs "Event")) (Some (snake_name e, part_event)) false
    [ plain_field "metadata" (TObject (bs "j5.state.v1") (bs "EventMetadata")) true;
      mkF (bs "keys") (local_obj e "Keys") false true true false None None;
      mkF (bs "event") (TOneof [] (component_name e (bs "EventType"))) false true false false None (Some []) ]
    [].

(* ---- services (sourcewalk/service.go, j5convert/service.go) ------------------------ *)
(* split on '/' *)
Fixpoint split_slash (cur : bytes) (s : bytes) : list bytes :=
  match s with
  | [] => [rev cur]
  | c :: r => if c =? 47 then rev cur :: split_slash [] r else split_slash (c :: cur) r
  end.
(* path.Clean of a rooted path without "." and ".." elements: empty elements (repeated or
   trailing slashes) disappear *)
Definition is_nil {A} (l : list A) : bool := match l with [] => true | _ => false end.
Definition segments (s : bytes) : list bytes := filter (fun p => negb (is_nil p)) (split_slash [] s).
Definition clean_path (s : bytes) : bytes := [47] ++ join [47] (segments s).
(* path.Join(base, rel): empty elements are ignored, the result is cleaned *)
Definition path_join (base rel : bytes) : bytes :=
  match rel with [] => clean_path base | _ => clean_path (base ++ [47] ++ rel) end.

(* ":name" -> "{" ++ ToSnake name ++ "}" *)
Definition conv_part (p : bytes) : bytes :=
  match p with
  | c :: name => if c =? 58 then [123] ++ to_snake name ++ [125] else p
  | [] => []
  end.
Definition http_rule_path (resolved : bytes) : bytes :=
  join [47] (map conv_part (split_slash [] resolved)).
Definition param_of (p : bytes) : list bytes :=
  match p with c :: name => if c =? 58 then [name] else [] | [] => [] end.
Definition path_params (resolved : bytes) : list bytes :=
  flat_map param_of (split_slash [] resolved).

Definition method_components (base : bytes) (name : bytes) (verb : N) (rel : bytes)
    (req : list ofield) (resp : option (list ofield)) (sq : N) : list component * omethod :=
  ( CMsg 1 (mkMsg (name ++ bs "Request") None false req [])
    :: match resp with
       | Some r => [CMsg 1 (mkMsg (name ++ bs "Response") None false r [])]
       | None => []
       end,
    mkMt name (name ++ bs "Request")
         (match resp with Some _ => name ++ bs "Response" | None => bs ".google.api.HttpBody" end) verb
         (http_rule_path (path_join base rel)) sq ).

Definition service_components (name : bytes) (ann : sann) (ms : list (list component * omethod))
  : list component :=
  flat_map fst ms ++ [CSvc 1 (mkSvc (name ++ bs "Service") ann (map snd ms))].

Definition is_key_field (u : ufield) : bool := match uf_kind u with KKey _ _ _ => true | _ => false end.
Definition is_primary (u : ufield) : bool := match uf_kind u with KKey p _ _ => p | _ => false end.
(* acceptQuery: which keys go into the Get/Events path and into the List path *)
Definition get_keys (e : entity) : list ufield :=
  map k_def (filter (fun k => is_key_field (k_def k) && (is_primary (k_def k) || k_shard k)) (e_keys e)).
Definition list_keys (e : entity) : list ufield :=
  map k_def (filter (fun k => is_key_field (k_def k) && k_shard k) (e_keys e)).
Definition key_path (ks : list ufield) : list bytes := map (fun u => [58] ++ uf_name u) ks.

Definition page_request := plain_field "page" (TObject (bs "j5.list.v1") (bs "PageRequest")) false.
Definition query_request := plain_field "query" (TObject (bs "j5.list.v1") (bs "QueryRequest")) false.
Definition page_response := plain_field "page" (TObject (bs "j5.list.v1") (bs "PageResponse")) false.

Definition query_components (e : entity) : list component :=
  let n := query_prefix e in
  let base := [47] ++ base_url e ++ bs "/q" in
  let events_in_get := match e_query e with Some q => q_events_in_get q | None => false end in
  let get := method_components base (n ++ bs "Get") 1 (join [47] (key_path (get_keys e)))
      (map of_ufield (get_keys e))
      (Some (mkF (to_lower_camel (snake_name e)) (local_obj e "State") false true false false None None
       :: (if events_in_get then [array_field (bs "events") (local_obj e "Event") false] else []))) 1 in
  let lst := method_components base (n ++ bs "List") 1 (join [47] (key_path (list_keys e)))
      (map of_ufield (list_keys e) ++ [page_request; query_request])
      (Some [array_field (to_lower_camel (snake_name e)) (local_obj e "State") true; page_response]) 2 in
  let evs := method_components base (n ++ bs "Events") 1 (join [47] (key_path (get_keys e) ++ [bs "events"]))
      (map of_ufield (get_keys e) ++ [page_request; query_request])
      (Some [array_field (bs "events") (local_obj e "Event") false; page_response]) 3 in
  service_components (n ++ bs "Query") (SQuery (snake_name e)) [get; lst; evs].

Definition command_service_name (e : entity) (c : command) : bytes :=
  match c_name c with
  | Some n => if has_suffix (bs "Command") n then n else n ++ bs "Command"
  | None => camel_name e ++ bs "Command"
  end.
Definition command_components (e : entity) (c : command) : list component :=
  let base := match c_base c with
              | Some b => [47] ++ base_url e ++ [47] ++ b
              | None => [47] ++ base_url e ++ bs "/c"
              end in
  service_components (command_service_name e c) (SCommand (snake_name e))
    (map (fun m => method_components base (md_name m) (md_verb m) (md_path m)
                     (map of_ufield (md_request m)) (option_map (map of_ufield) (md_response m)) 0)
         (c_methods c)).

(* ---- topics (sourcewalk/topic.go acceptTopic, j5convert visitTopicNode) ---------------- *)
Definition topic_components (topic_name method_name : bytes) (role : N) (entity_name : bytes)
    (fields : list ofield) : list component :=
  [ CMsg 2 (mkMsg (method_name ++ bs "Message") None false fields []);
    CSvc 2 (mkSvc (to_camel topic_name ++ bs "Topic") (STopic (to_snake topic_name) role entity_name)
                  [mkMt method_name (method_name ++ bs "Message") (bs ".google.protobuf.Empty") 0 [] 0]) ].

Definition publish_components (e : entity) : list component :=
  topic_components (camel_name e ++ bs "Publish") (camel_name e ++ bs "Event") 4 (full_name e)
    [ plain_field "metadata" (TObject (bs "j5.state.v1") (bs "EventPublishMetadata")) true;
      plain_field "keys" (local_obj e "Keys") true;
      plain_field "event" (TOneof [] (component_name e (bs "EventType"))) true;
      plain_field "data" (local_obj e "Data") true;
      plain_field "status" (TEnum [] (component_name e (bs "Status"))) true ].

Definition summary_topic_name (e : entity) (s : summary) : bytes :=
  match s_name s with
  | [] => camel_name e ++ bs "Summary"
  | n => camel_name e ++ to_camel n
  end.
Definition summary_components (e : entity) (s : summary) : list component :=
  let name := summary_topic_name e s in
  topic_components name name 3 (full_name e)
    (plain_field "upsert" (TObject (bs "j5.messaging.v1") (bs "UpsertMetadata")) true
     :: map of_ufield (s_fields s)).

Fixpoint nodup_bytes (l : list bytes) : bool :=
  match l with
  | [] => true
  | x :: r => negb (existsb (bytes_eqb x) r) && nodup_bytes r
  end.

(* RangeNestedSchemas over entity.Schemas: objects and oneofs become messages, enums get the
   default prefix SCREAMING_SNAKE(name)_ (visitEnumNode) *)
Definition schema_component (s : eschema) : component :=
  match s with
  | SObject n fs => CMsg 0 (mkMsg n None false (map of_ufield fs) [])
  | SOneof n fs => CMsg 0 (mkMsg n None true (map of_ufield fs) [])
  | SEnum n opts => CEnum n (status_values (to_screaming_snake n ++ [95]) opts)
  end.

(* ---- entityNode.run: the fixed order ------------------------------------------------ *)
Definition expand_with (e : entity) (filters : list bytes) : list component :=
  [CMsg 0 (keys_msg e); CMsg 0 (data_msg e); status_enum e;
   CMsg 0 (state_msg e filters); CMsg 0 (event_type_msg e); CMsg 0 (event_msg e)]
  ++ query_components e
  ++ flat_map (command_components e) (e_commands e)
  ++ publish_components e
  ++ flat_map (summary_components e) (e_summaries e)
  ++ map schema_component (e_schemas e).

(* the walker errors of run: unknown default status filter, duplicate summary name *)
Definition expand (e : entity) : outcome (list component) :=
  match default_filters e (match e_query e with Some q => q_default_status q | None => [] end) with
  | None => Err "status not found in entity"
  | Some filters =>
      if nodup_bytes (map s_name (e_summaries e)) then Ok (expand_with e filters)
      else Err "duplicate summary name"
  end.

(* ---- the client API's view (structure.APIFromImage + j5client.APIFromSource) ------------ *)
Record client_entity := mkCE {
  ce_name : bytes; ce_full_name : bytes; ce_schema : bytes;
  ce_primary_key : list bytes;
  ce_query : bytes; ce_query_methods : list (bytes * bytes);      (* (name, :param path) *)
  ce_commands : list (bytes * list (bytes * N * bytes));          (* service, (method, verb, path) *)
  ce_events : list bytes }.

Definition command_base (e : entity) (c : command) : bytes :=
  match c_base c with
  | Some b => [47] ++ base_url e ++ [47] ++ b
  | None => [47] ++ base_url e ++ bs "/c"
  end.

Definition client_view (e : entity) : client_entity :=
  let n := query_prefix e in
  let base := [47] ++ base_url e ++ bs "/q" in
  mkCE (snake_name e) (e_pkg e ++ [47] ++ snake_name e) (e_pkg e ++ [46] ++ component_name e (bs "State"))
       (map uf_name (filter is_primary (map k_def (e_keys e))))
       (n ++ bs "QueryService")
       [ (n ++ bs "Get", path_join base (join [47] (key_path (get_keys e))));
         (n ++ bs "List", path_join base (join [47] (key_path (list_keys e))));
         (n ++ bs "Events", path_join base (join [47] (key_path (get_keys e) ++ [bs "events"]))) ]
       (map (fun c => (command_service_name e c ++ bs "Service",
                       map (fun m => (md_name m, md_verb m, path_join (command_base e c) (md_path m))) (c_methods c)))
            (e_commands e))
       (map (fun ev => to_lower_camel (ev_name ev)) (e_events e)).

(* ---- reference resolution (j5convert resolveType over the file's exports + implicitImports) *)
Definition implicit_imports : list (bytes * bytes) :=
  [ (bs "j5.state.v1", bs "StateMetadata"); (bs "j5.state.v1", bs "EventMetadata");
    (bs "j5.state.v1", bs "EventPublishMetadata");
    (bs "j5.list.v1", bs "PageRequest"); (bs "j5.list.v1", bs "PageResponse");
    (bs "j5.list.v1", bs "QueryRequest");
    (bs "j5.messaging.v1", bs "UpsertMetadata"); (bs "j5.messaging.v1", bs "RequestMetadata") ].

(* (is_enum, name) of everything the expansion defines *)
Definition defined (cs : list component) : list (bool * bytes) :=
  flat_map (fun c => match c with
    | CMsg _ m => (false, m_name m) :: map (fun n => (false, m_name m ++ [46] ++ fst n)) (m_nested m)
    | CEnum n _ => [(true, n)]
    | CSvc _ _ => []
    end) cs.

Fixpoint ref_resolves (defs : list (bool * bytes)) (t : otype) : bool :=
  let lookup (is_enum : bool) (pkg name : bytes) :=
    match pkg with
    | [] => existsb (fun d => Bool.eqb (fst d) is_enum && bytes_eqb (snd d) name) defs
    | _ => negb is_enum && existsb (fun d => bytes_eqb (fst d) pkg && bytes_eqb (snd d) name) implicit_imports
    end in
  match t with
  | TScalar _ _ => true
  | TObject p n => lookup false p n
  | TOneof p n => lookup false p n
  | TEnum p n => lookup true p n
  | TExt _ _ => true
  | TMap v => ref_resolves defs v
  | TNested _ _ => true
  end.

(* a field resolves when its type does and, for an inline object / oneof, the types of its own fields do *)
Fixpoint tfield_resolves (defs : list (bool * bytes)) (t : tfield) : bool :=
  match t with
  | TF _ k _ _ _ =>
      match k with
      | TK i => ref_resolves defs (otype_of_item i)
      | TKArray i => ref_resolves defs (otype_of_item i)
      | TKMap i => ref_resolves defs (otype_of_item i)
      | TKInline _ _ fs _ =>
          forallb (tfield_resolves defs) fs
      end
  end.
(* (the shape of [field_resolves], [closed], [fields_of] is relied upon by other families' proofs -
   CmpbEntityProofs, J5sEntity, PipelineEntity: it stays as it is; the references inside tree-form inline
   schemas are checked alongside, by [trees_closed]) *)
Definition field_resolves (defs : list (bool * bytes)) (f : ofield) : bool :=
  ref_resolves defs (f_type f)
  && match f_inline f with
     | Some il => forallb (fun s => ref_resolves defs (otype_of_item (sf_kind s))) (il_fields il)
     | None => true
     end.
Definition tree_of (f : ofield) : list tfield :=
  match f_inline f with Some il => il_tree il | None => [] end.

Definition fields_of (cs : list component) : list ofield :=
  flat_map (fun c => match c with
    | CMsg _ m => m_fields m ++ flat_map snd (m_nested m)
    | _ => []
    end) cs.

Definition closed (cs : list component) : bool :=
  forallb (field_resolves (defined cs)) (fields_of cs).


(* every user-declared field of the declaration *)
Definition all_ufields (e : entity) : list ufield :=
  map k_def (e_keys e) ++ e_data e ++ flat_map ev_fields (e_events e)
  ++ flat_map (fun c => flat_map (fun m => md_request m ++ match md_response m with Some r => r | None => [] end)
                                 (c_methods c)) (e_commands e)
  ++ flat_map s_fields (e_summaries e)
  ++ flat_map schema_fields (e_schemas e).
Definition fields_ok (e : entity) : bool := forallb ufield_ok (all_ufields e).
(* the references made anywhere inside the user's tree-form inline schemas resolve too (against what the
   expansion defines: [defs]) *)
Definition trees_ok (e : entity) (defs : list (bool * bytes)) : bool :=
  forallb (fun u => forallb (tfield_resolves defs) (tree_of (of_ufield u))) (all_ufields e).

(* visitServiceMethodNode: every ":name" part of the resolved path must be a request property *)
Definition params_ok (req : list bytes) (resolved : bytes) : bool :=
  forallb (fun p => existsb (bytes_eqb p) req) (path_params resolved).
Definition query_params_ok (e : entity) : bool :=
  let base := [47] ++ base_url e ++ bs "/q" in
  params_ok (map uf_name (get_keys e)) (path_join base (join [47] (key_path (get_keys e))))
  && params_ok (map uf_name (list_keys e) ++ [bs "page"; bs "query"])
               (path_join base (join [47] (key_path (list_keys e))))
  && params_ok (map uf_name (get_keys e) ++ [bs "page"; bs "query"])
               (path_join base (join [47] (key_path (get_keys e) ++ [bs "events"]))).
Definition command_params_ok (e : entity) : bool :=
  forallb (fun c => forallb (fun m => params_ok (map uf_name (md_request m))
                                                (path_join (command_base e c) (md_path m)))
                            (c_methods c)) (e_commands e).

(* list-request settings of the query block: after the walk, the conversion of the List / Events
   method reports "listRequest is not supported on a method" (fix 985f10a, visitServiceMethodNode:
   (j5.list.v1.list_request) extends MessageOptions; before the fix proto.SetExtension panicked).
   Walker errors come first.  The conversion COLLECTS its errors and reports them together; the
   harness classifies a joint message by the other error (errClass in c17.go looks for the
   list-request text last), so the model reports the list-request error only when it is alone *)
Definition list_settings (e : entity) : bool :=
  match e_query e with Some q => q_list_settings q | None => false end.

(* the conversion outcome (j5convert) as far as the expansion decides it *)
Definition convert (e : entity) : outcome (list component) :=
  match expand e with
  | Ok cs => if closed cs && trees_ok e (defined cs) then
               if fields_ok e then
                 if query_params_ok e && command_params_ok e then
                   if list_settings e then Err "listRequest is not supported on a method" else Ok cs
                 else Err "missing field in request"
               else Err "cannot be both required and optional"
             else Err "type not found"
  | o => o
  end.

(* a source file with several entity declarations of one package: each entity is expanded in
   turn into the same three files; any error fails the file *)
Fixpoint convert_all (es : list entity) : outcome (list component) :=
  match es with
  | [] => Ok []
  | e :: r =>
      match convert e with
      | Ok a => match convert_all r with Ok b => Ok (a ++ b) | o => o end
      | Err c => Err c
      | Panic p => Panic p
      | OutOfFuel => OutOfFuel
      end
  end.

(* ---- the link step (protocompile linker.Symbols.importResult): one namespace per scope ----
   package scope of each of the three files: messages, enums, enum VALUES (C++ scoping), services;
   message scope: fields by proto name = ToSnake(name), the proto oneof "type" of a oneof wrapper
   with members (visitOneofNode; omitted when empty, fix e5711b2), the synthetic oneof "_<field>"
   of a proto3-optional field (visitObjectNode), nested messages; service scope: methods.
   A second definition of a symbol is the link error `symbol "..." already defined`.
   (j5's link path does not run protocompile's JSON-name / enum-value camel-case validations:
   `data a__b` + `data a_b`, `status A_B` + `status AB` compile.) *)
Definition proto_name (f : ofield) : bytes := to_snake (f_json f).
(* fields.go mapName (protoc's rule): snake -> Camel, + "Entry" (names are ASCII) *)
Fixpoint map_name_go (next_upper : bool) (s : bytes) : bytes :=
  match s with
  | [] => bs "Entry"
  | c :: r => if c =? 95 then map_name_go true r
              else (if next_upper then to_upper c else c) :: map_name_go false r
  end.
Definition map_name (proto : bytes) : bytes := map_name_go true proto.
Definition is_map_field (f : ofield) : bool := match f_type f with TMap _ => true | _ => false end.
(* the entry messages buildProperty nests into the containing message, in field order *)
Definition entry_names (fs : list ofield) : list bytes :=
  map (fun f => map_name (proto_name f)) (filter is_map_field fs).
(* the types defined inline: their names, and - C++ scoping - the values of inline enums *)
(* the nested type an inline field defines: its name and kind (also behind a map) *)
Definition inline_of (f : ofield) : option (bytes * N * inline_def) :=
  match f_inline f, f_type f with
  | Some il, TNested n k => Some (n, k, il)
  | Some il, TMap (TNested n k) => Some (n, k, il)
  | _, _ => None
  end.
Definition inline_names (fs : list ofield) : list bytes :=
  flat_map (fun f => match inline_of f with
    | Some (n, _, il) =>
        n :: (if il_kind il =? 2 then map fst (status_values (to_screaming_snake n ++ [95]) (il_options il)) else [])
    | None => []
    end) fs.
Definition fields_scope (is_oneof : bool) (fs : list ofield) : list bytes :=
  map proto_name fs
  ++ (if is_oneof then (if is_nil fs then [] else [bs "type"])
      else map (fun f => 95 :: proto_name f) (filter f_optional fs))
  ++ entry_names fs.
(* the scopes of the inline objects / oneofs of a message *)
(* the scopes of the nested messages of a tree-form inline schema: its own (fields, proto oneof /
   presence oneofs, entry messages, the names its children define) and, recursively, its children's *)
Fixpoint tfield_scopes (t : tfield) : list (list bytes) :=
  match t with
  | TF _ (TKInline k _ fs _) _ _ _ =>
      if k =? 2 then []
      else (fields_scope (k =? 1) (map of_tfield fs) ++ inline_names (map of_tfield fs))
           :: flat_map tfield_scopes fs
  | _ => []
  end.
Definition tree_scopes (k : N) (fs : list tfield) : list (list bytes) :=
  (fields_scope (k =? 1) (map of_tfield fs) ++ inline_names (map of_tfield fs))
  :: flat_map tfield_scopes fs.
Definition inline_scopes (fs : list ofield) : list (list bytes) :=
  flat_map (fun f => match f_inline f with
    | Some il =>
        match il_tree il with
        | [] => if il_kind il =? 2 then []
                else [map proto_name (map of_sfield (il_fields il))
                      ++ (if il_kind il =? 1 then (if is_nil (il_fields il) then [] else [bs "type"])
                          else map (fun s => 95 :: to_snake (sf_name s)) (filter sf_optional (il_fields il)))]
        | tfs => tree_scopes (il_kind il) tfs
        end
    | None => []
    end) fs.
Definition msg_scopes (m : omsg) : list (list bytes) :=
  (fields_scope (m_oneof m) (m_fields m) ++ inline_names (m_fields m) ++ map fst (m_nested m))
  :: inline_scopes (m_fields m)
  ++ flat_map (fun n => (fields_scope false (snd n) ++ inline_names (snd n)) :: inline_scopes (snd n)) (m_nested m).
Definition file_scope (file : N) (cs : list component) : list bytes :=
  flat_map (fun c => match c with
    | CMsg f m => if f =? file then [m_name m] else []
    | CEnum n vs => if file =? 0 then n :: map fst vs else []
    | CSvc f s => if f =? file then [sv_name s] else []
    end) cs.
Definition inner_scopes (cs : list component) : list (list bytes) :=
  flat_map (fun c => match c with
    | CMsg _ m => msg_scopes m
    | CEnum _ _ => []
    | CSvc _ s => [map mt_name (sv_methods s)]
    end) cs.
Definition scopes (cs : list component) : list (list bytes) :=
  [file_scope 0 cs; file_scope 1 cs; file_scope 2 cs] ++ inner_scopes cs.
Definition link_ok (cs : list component) : bool := forallb nodup_bytes (scopes cs).

(* what protodesc.NewFiles (structure.APIFromImage, the first step towards the client API)
   rejects although the compiler linked it: an open enum with two values whose names coincide once
   the enum-name prefix is trimmed (case-insensitively, ignoring '_') and the rest is put into
   PascalCase (protodesc validateEnumDeclarations: strs.TrimEnumPrefix / strs.EnumValueName):
   `status Active` + `status ACTIVE`.  This is NOT judged by C17 (no clause of C17 speaks of deriving
   the client API: it is C16's "can be turned into a client API without error"); the model predicts
   it only so that the second observable of the tie (the client StateEntity) is compared exactly
   when it exists.  (A proto3-optional repeated field was the second such class until fix d536c9b.) *)
Fixpoint drop_underscores (s : bytes) : bytes :=
  match s with c :: r => if c =? 95 then drop_underscores r else s | [] => [] end.
(* strs.TrimEnumPrefix(s, prefix), prefix lower-case without underscores; [s0] is the whole name *)
Fixpoint trim_enum_prefix_go (s0 s prefix : bytes) : bytes :=
  match s with
  | [] => s0
  | c :: r =>
      match prefix with
      | [] => match drop_underscores s with [] => s0 | t => t end
      | p :: pr => if c =? 95 then trim_enum_prefix_go s0 r prefix
                   else if to_lower c =? p then trim_enum_prefix_go s0 r pr else s0
      end
  end.
Definition trim_enum_prefix (s prefix : bytes) : bytes := trim_enum_prefix_go s s prefix.
(* strs.EnumValueName: PascalCase, '_' dropped *)
Fixpoint enum_value_name_go (upper_next : bool) (s : bytes) : bytes :=
  match s with
  | [] => []
  | c :: r => if c =? 95 then enum_value_name_go true r
              else (if upper_next then to_upper c else to_lower c) :: enum_value_name_go false r
  end.
Definition enum_value_name (s : bytes) : bytes := enum_value_name_go true s.
Definition enum_prefix_of (name : bytes) : bytes := map to_lower (filter (fun c => negb (c =? 95)) name).
Definition enum_accepts (name : bytes) (vs : list (bytes * N)) : bool :=
  nodup_bytes (map (fun v => enum_value_name (trim_enum_prefix (fst v) (enum_prefix_of name))) vs).

Definition client_accepts (cs : list component) : bool :=
  forallb (fun c => match c with CEnum n vs => enum_accepts n vs | _ => true end) cs.

(* ---- enum options with colliding protobuf names (fix 4fb405b in /repo, j5convert visitEnumNode) -----
   every enum the conversion builds (the status enum, the enums of the block, inline enums at any
   depth) is checked with protoc's rule: two values whose canonical names coincide - enum-name prefix
   removed ignoring case and '_', the rest in PascalCase - are a positioned conversion error at the later
   option ("conflicts with option" / "is defined more than once"), collected with the other
   conversion errors.  [enum_accepts] above is that rule (protodesc applies the same one, so
   [client_accepts] holds of everything the compiler accepts since the fix). *)
Definition inline_enum_ok (f : ofield) : bool :=
  match inline_of f with
  | Some (n, _, il) =>
      if il_kind il =? 2 then enum_accepts n (status_values (to_screaming_snake n ++ [95]) (il_options il)) else true
  | None => true
  end.
Fixpoint tfield_enums_ok (t : tfield) : bool :=
  inline_enum_ok (of_tfield t)
  && match t with TF _ (TKInline _ _ fs _) _ _ _ => forallb tfield_enums_ok fs | _ => true end.
Definition ufield_enums_ok (u : ufield) : bool :=
  inline_enum_ok (of_ufield u) && forallb tfield_enums_ok (tree_of (of_ufield u)).
(* on the declaration: the status enum, the block's enums, the inline enums of every user field *)
Definition decl_enums_ok (e : entity) : bool :=
  client_accepts (status_enum e :: map schema_component (e_schemas e))
  && forallb ufield_enums_ok (all_ufields e).

(* ---- reserved names (fix a5547b9 in /repo) ------------------------------------------------------
   entityNode.run starts with checkReservedNames: a name the expansion itself puts into the same
   message is rejected at its source position (walker error, aborts the walk) instead of failing at
   link time inside a generated file - the entity's own response property next to page / events, a
   path key next to page / query, an event whose oneof option would be `type`, a summary field next
   to upsert.  visitOneofNode (j5convert) reports an option named `type` of ANY j5 oneof (block
   oneofs, inline oneofs at any depth) as a positioned conversion error, collected with the others. *)
Definition own_response_name (e : entity) : bytes := to_snake (to_lower_camel (to_snake (e_name e))).
Definition events_in_get (e : entity) : bool :=
  match e_query e with Some q => q_events_in_get q | None => false end.
Definition path_key_reserved (k : ekey) : bool :=
  is_key_field (k_def k) && (is_primary (k_def k) || k_shard k)
  && (bytes_eqb (to_snake (uf_name (k_def k))) (bs "page") || bytes_eqb (to_snake (uf_name (k_def k))) (bs "query")).
Definition walker_reserved_free (e : entity) : bool :=
  negb (bytes_eqb (own_response_name e) (bs "page"))
  && negb (events_in_get e && bytes_eqb (own_response_name e) (bs "events"))
  && forallb (fun k => negb (path_key_reserved k)) (e_keys e)
  && forallb (fun ev => negb (bytes_eqb (to_snake (to_lower_camel (ev_name ev))) (bs "type"))) (e_events e)
  && forallb (fun s => forallb (fun u => negb (bytes_eqb (to_snake (uf_name u)) (bs "upsert"))) (s_fields s))
             (e_summaries e).
(* options named `type`: k = 1 is a oneof *)
Definition named_type (n : bytes) : bool := bytes_eqb (to_snake n) (bs "type").
Fixpoint tfield_type_option (t : tfield) : bool :=
  match t with
  | TF _ (TKInline k _ fs _) _ _ _ =>
      ((k =? 1) && existsb (fun x => named_type (tf_name x)) fs) || existsb tfield_type_option fs
  | _ => false
  end.
Definition ufield_type_option (u : ufield) : bool :=
  match uf_kind u with
  | KInlineOneof opts => existsb (fun o => named_type (sf_name o)) opts
  | KInlineTree k fs => ((k =? 1) && existsb (fun x => named_type (tf_name x)) fs) || existsb tfield_type_option fs
  | _ => false
  end.
Definition oneof_type_free (e : entity) : bool :=
  forallb (fun s => match s with
                    | SOneof _ opts => negb (existsb (fun u => named_type (uf_name u)) opts)
                    | _ => true end) (e_schemas e)
  && negb (existsb ufield_type_option (all_ufields e)).

(* the walker's pass over one declaration / over the file: its first error aborts the conversion
   (ConvertJ5File returns "schema error: ..." alone, whatever the visitors collected before) *)
Definition walk (e : entity) : outcome (list component) :=
  if walker_reserved_free e then expand e else Err "reserved name".
Fixpoint walk_all (es : list entity) : outcome (list component) :=
  match es with
  | [] => Ok []
  | e :: r =>
      match walk e with
      | Ok a => match walk_all r with Ok b => Ok (a ++ b) | o => o end
      | o => o
      end
  end.

(* the whole compile of one source file: the parser's validation of the declaration
   (sourcedef Entity.status is `required`: an entity without a status is rejected before the
   walker runs), the walk (first walker error of the file), the collected conversion errors (the
   harness classifies a joint message as "reserved name" first, as "enum option conflict" second), then
   linking of the three files *)
Definition compile_file (es : list entity) : outcome (list component) :=
  if existsb (fun e => is_nil (e_status e)) es then Err "value is required"
  else match walk_all es with
       | Ok _ =>
           if forallb oneof_type_free es then
             if forallb decl_enums_ok es then
               match convert_all es with
               | Ok cs => if link_ok cs then Ok cs else Err "symbol already defined"
               | o => o
               end
             else Err "enum option conflict"
           else Err "reserved name"
       | o => o
       end.
Definition compile (e : entity) : outcome (list component) := compile_file [e].

(* error classes, as the harness classifies the real compiler's message (errClass in c17.go) *)
Definition err_class (s : string) : N :=
  if String.eqb s "status not found in entity" then 1
  else if String.eqb s "duplicate summary name" then 2
  else if String.eqb s "type not found" then 3
  else if String.eqb s "cannot be both required and optional" then 4
  else if String.eqb s "missing field in request" then 5
  else if String.eqb s "symbol already defined" then 6
  else if String.eqb s "value is required" then 7
  else if String.eqb s "listRequest is not supported on a method" then 8
  else if String.eqb s "reserved name" then 9
  else if String.eqb s "enum option conflict" then 10
  else 99.

(* CodecFloatInt.v — strconv on a sub-domain: integer-valued floats of magnitude below 10^5 (the rule
   modelled holds below 10^6; the proved sub-domain is cut at 10^5 to keep the exhaustive evaluation
   in proofs/CodecFloatIntProofs.v short).
   strconv.FormatFloat(v, 'g', -1, bits) uses %e when the decimal exponent is < -4 or >= 21 and, for the
   shortest representation, when it is >= 6 ("if shortest { eprec = 6 }", ftoa.go): an integer
   0 <= n < 10^6 is printed as its decimal digits (fmtF with precision 0), with a leading '-' when the
   sign bit is set (so -0 prints as -0).  strconv.ParseFloat of such a literal is exact (n < 2^24).
   Floats are IEEE-754 bit patterns as everywhere in the codec model.  No proofs in this file. *)
From Coq Require Import List NArith ZArith Bool.
From J5V.lib Require Import Json JsonPrint.
Import ListNotations.
Local Open Scope N_scope.
Local Open Scope bool_scope.

Definition fl_mant (is32 : bool) : N := if is32 then 23 else 52.           (* mantissa bits *)
Definition fl_bias (is32 : bool) : N := if is32 then 127 else 1023.
Definition fl_sign (is32 : bool) : N := if is32 then 2147483648 else 9223372036854775808.          (* 2^31, 2^63 *)
Definition fl_top (is32 : bool) : N := if is32 then 4294967296 else 18446744073709551616.           (* 2^32, 2^64 *)
Definition fl_emask (is32 : bool) : N := if is32 then 255 else 2047.                                (* exponent field *)
Definition fl_mmask (is32 : bool) : N := if is32 then 8388607 else 4503599627370495.                (* 2^mant - 1 *)
Definition small_bound : N := 100000.

(* the bit pattern of (-1)^neg * n for an integer 0 <= n < 2^(mant+1): sign | biased exponent | fraction,
   exponent e = floor(log2 n), fraction = (n - 2^e) * 2^(mant - e) *)
Definition float_of_int (is32 neg : bool) (n : N) : N :=
  let sign := if neg then fl_sign is32 else 0 in
  if n =? 0 then sign
  else let e := N.log2 n in
       sign + N.shiftl (e + fl_bias is32) (fl_mant is32) + N.shiftl (n - N.shiftl 1 e) (fl_mant is32 - e).

(* sign and magnitude when the pattern denotes an integer of magnitude < 2^(mant+1) *)
Definition int_of_float (is32 : bool) (bits : N) : option (bool * N) :=
  let m := fl_mant is32 in
  let neg := fl_sign is32 <=? bits in
  let E := N.land (N.shiftr bits m) (fl_emask is32) in
  let frac := N.land bits (fl_mmask is32) in
  if fl_top is32 <=? bits then None
  else if E =? 0 then (if frac =? 0 then Some (neg, 0) else None)
  else if E <? fl_bias is32 then None
  else let e := E - fl_bias is32 in
       if m <? e then None
       else if N.land frac (N.pred (N.shiftl 1 (m - e))) =? 0 then Some (neg, N.shiftl 1 e + N.shiftr frac (m - e)) else None.

(* FormatFloat(v, 'g', -1, bits) on the sub-domain (None outside it) *)
Definition fmt_small (is32 : bool) (bits : N) : option bytes :=
  match int_of_float is32 bits with
  | Some (neg, n) => if n <? small_bound then Some ((if neg then [45] else []) ++ digits_of n) else None
  | None => None
  end.

(* ParseFloat(s, bits) on the literals of the sub-domain: optional '-', decimal digits of n < small_bound *)
Definition strip_minus (s : bytes) : bool * bytes :=
  match s with
  | c :: r => if c =? 45 then (true, r) else (false, s)
  | [] => (false, s)
  end.
Definition parse_small (is32 : bool) (s : bytes) : option N :=
  let nb := strip_minus s in
  match parse_N (snd nb) with
  | Some n => if n <? small_bound then Some (float_of_int is32 (fst nb) n) else None
  | None => None
  end.

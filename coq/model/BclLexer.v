(* BclLexer.v — model of internal/bcl/internal/parser/{token.go,lexer.go}.
   The lexer is a state machine over the rune slice []rune(input) with explicit
   (line, column) bookkeeping exactly as Lexer.next does it (column starts at -1,
   a newline sets isEOL and the *next* call moves to (line+1, 0); at EOF every
   further call keeps incrementing the column).  Loops run on explicit fuel;
   the entry points supply a fuel computed from the input and return LFuel only
   if that fuel is exhausted (proofs/BclLexerProofs.v: never).
   No proofs in this file. *)
From Coq Require Import String List NArith ZArith Bool.
From J5V.lib Require Import Text.
From J5V.gen Require UnicodeGen TokensGen.
Import ListNotations.
Local Open Scope bool_scope.

(* ---- token.go --------------------------------------------------------------- *)
Inductive ttype : Type :=
| INVALID | EOF | EOL | SPACE
| IDENT | STRING | REGEX | INT | DECIMAL | BOOL | COMMENT | BLOCK_COMMENT | DESCRIPTION
| ASSIGN | LBRACE | RBRACE | LBRACK | RBRACK | DOT | COMMA | COLON | PLUS | BANG | QUESTION
| AnyLiteral.

(* TokenType values (iota order, including the unexported *_beg/_end markers) *)
Definition tt_code (t : ttype) : N :=
  match t with
  | INVALID => 0 | EOF => 1 | EOL => 2 | SPACE => 3
  | IDENT => 5 | STRING => 6 | REGEX => 7 | INT => 8 | DECIMAL => 9 | BOOL => 10
  | COMMENT => 11 | BLOCK_COMMENT => 12 | DESCRIPTION => 13
  | ASSIGN => 16 | LBRACE => 17 | RBRACE => 18 | LBRACK => 19 | RBRACK => 20 | DOT => 21
  | COMMA => 22 | COLON => 23 | PLUS => 24 | BANG => 25 | QUESTION => 26
  | AnyLiteral => 30
  end%N.

Definition all_tt : list ttype :=
  [INVALID; EOF; EOL; SPACE; IDENT; STRING; REGEX; INT; DECIMAL; BOOL; COMMENT; BLOCK_COMMENT;
   DESCRIPTION; ASSIGN; LBRACE; RBRACE; LBRACK; RBRACK; DOT; COMMA; COLON; PLUS; BANG; QUESTION; AnyLiteral].

Definition tt_eqb (a b : ttype) : bool := N.eqb (tt_code a) (tt_code b).

Definition tt_name (t : ttype) : string :=
  match t with
  | INVALID => "INVALID" | EOF => "EOF" | EOL => "EOL" | SPACE => "SPACE"
  | IDENT => "IDENT" | STRING => "STRING" | REGEX => "REGEX" | INT => "INT" | DECIMAL => "DECIMAL"
  | BOOL => "BOOL" | COMMENT => "COMMENT" | BLOCK_COMMENT => "BLOCK_COMMENT" | DESCRIPTION => "DESCRIPTION"
  | ASSIGN => "ASSIGN" | LBRACE => "LBRACE" | RBRACE => "RBRACE" | LBRACK => "LBRACK" | RBRACK => "RBRACK"
  | DOT => "DOT" | COMMA => "COMMA" | COLON => "COLON" | PLUS => "PLUS" | BANG => "BANG" | QUESTION => "QUESTION"
  | AnyLiteral => "AnyLiteral"
  end%string.


(* the `operators` map: rune -> operator token (sorted by rune) *)
Definition model_operators : list (N * ttype) :=
  [(33, BANG); (43, PLUS); (44, COMMA); (46, DOT); (58, COLON); (61, ASSIGN); (63, QUESTION);
   (91, LBRACK); (93, RBRACK); (123, LBRACE); (125, RBRACE)]%N.
Fixpoint assoc_N {A} (l : list (N * A)) (c : N) : option A :=
  match l with
  | [] => None
  | (k, v) :: r => if N.eqb k c then Some v else assoc_N r c
  end.
Definition op_of (c : N) : option ttype := assoc_N model_operators c.

(* TokenType.String(): the `tokens` array as the translator reads it from token.go *)
Definition tt_text (t : ttype) : list N :=
  match assoc_N TokensGen.token_text (tt_code t) with Some b => b | None => [] end.
(* operator_beg < t < operator_end *)
Definition is_operator (t : ttype) : bool := N.ltb 15 (tt_code t) && N.ltb (tt_code t) 27.

Definition ttype_of_code (c : N) : ttype :=
  match filter (fun t => N.eqb (tt_code t) c) all_tt with t :: _ => t | [] => INVALID end.

(* ---- message texts --------------------------------------------------------------- *)
(* the texts and formats of the diagnostics are the string literals of the Go functions, read by
   the translator (TokensGen.func_strings: literals passed to errf / Sprintf / errors.New /
   strings.Join, in source order; for Token.String every literal) *)
Fixpoint assoc_s {A} (l : list (string * A)) (k : string) : option A :=
  match l with
  | [] => None
  | (k0, v) :: r => if String.eqb k0 k then Some v else assoc_s r k
  end.
Definition slit (fn : string) (i : nat) : list N :=
  nth i (match assoc_s TokensGen.func_strings fn with Some l => l | None => [] end) [].
(* fmt.Sprintf restricted to the verbs %s %c %d, the arguments already rendered as bytes *)
Fixpoint sprintf (f : list N) (args : list (list N)) : list N :=
  match f with
  | [] => []
  | c :: t =>
    if N.eqb c 37 then
      match t with
      | v :: r => if N.eqb v 115 || N.eqb v 99 || N.eqb v 100
                  then (match args with a :: _ => a | [] => [] end) ++ sprintf r (tl args)
                  else c :: sprintf t args
      | [] => [c]
      end
    else c :: sprintf t args
  end.
(* strings.Join of byte strings *)
Fixpoint join_bytes (sep : list N) (ls : list (list N)) : list N :=
  match ls with
  | [] => []
  | [l] => l
  | l :: r => l ++ sep ++ join_bytes sep r
  end.


Definition is_literal (t : ttype) : bool :=
  match t with
  | IDENT | STRING | REGEX | INT | DECIMAL | BOOL | COMMENT | BLOCK_COMMENT | DESCRIPTION => true
  | _ => false
  end.
Definition can_start_tag (t : ttype) : bool :=
  match t with IDENT | STRING | REGEX | BANG | QUESTION | BOOL => true | _ => false end.

(* positions: (line, column), 0-based, column in runes *)
Definition pos : Type := (Z * Z)%type.
Definition pos0 : pos := (0, 0)%Z.

Record token := mkTok { ty : ttype; lit : list N; tstart : pos; tend : pos }.

(* a diagnostic: its range and its message (errpos.Err.Err.Error(), as bytes) *)
Record diag := mkDiag { dstart : pos; dend : pos; dmsg : list N }.

(* ---- unicode predicates (rune = N; EOF is None and satisfies none of them) -- *)
Definition is_space (c : N) : bool := in_ranges UnicodeGen.space_ranges c.
Definition is_digit (c : N) : bool := in_ranges UnicodeGen.digit_ranges c.
Definition is_letter (c : N) : bool := in_ranges UnicodeGen.letter_ranges c.
Definition opt_is (p : N -> bool) (o : option N) : bool := match o with Some c => p c | None => false end.
Definition opt_eq (o : option N) (c : N) : bool := match o with Some d => N.eqb d c | None => false end.

(* ---- Lexer state ------------------------------------------------------------ *)
Record lstate := mkL { line : Z; col : Z; ch : option N; rest : list N; is_eol : bool }.

(* NewLexer: column -1, ch = 0 (Go zero value), offset 0 *)
Definition new_lexer (data : list N) : lstate := mkL 0 (-1) (Some 0%N) data false.

Definition next (s : lstate) : lstate :=
  let l := if is_eol s then (line s + 1)%Z else line s in
  let c := if is_eol s then 0%Z else (col s + 1)%Z in
  match rest s with
  | [] => mkL l c None [] false
  | r :: t => mkL l c (Some r) t (N.eqb r 10)
  end.

Definition get_pos (s : lstate) : pos := (line s, col s).
Definition peek (s : lstate) : option N := hd_error (rest s).
Definition ch_list (s : lstate) : list N := match ch s with Some c => [c] | None => [] end.
Definition errf (msg : list N) (s : lstate) : diag := mkDiag (get_pos s) (get_pos s) msg.
(* the lexer's messages *)
Definition msg_eof : list N := slit "lexer.go:unexpectedEOF" 0.
Definition msg_eol_regex : list N := slit "lexer.go:lexRegex" 0.
Definition msg_eol_string : list N := slit "lexer.go:lexString" 0.
Definition msg_escape : list N := slit "lexer.go:lexEscape" 0.
Definition msg_second_dot : list N := slit "lexer.go:lexNumber" 0.
Definition msg_char (c : N) : list N := sprintf (slit "lexer.go:NextToken" 0) [utf8_encode [c]].

(* skipWhitespace: advance while the next rune is a space other than '\n' *)
Fixpoint skip_whitespace (fuel : nat) (s : lstate) : option lstate :=
  match fuel with
  | O => None
  | S f =>
    match peek s with
    | Some v => if is_space v && negb (N.eqb v 10) then skip_whitespace f (next s) else Some s
    | None => Some s
    end
  end.

(* result of one sub-lexer: the literal or an error, with the state after it *)
Inductive lres (A : Type) := ROk (a : A) (s : lstate) | RErr (d : diag) (s : lstate) | RFuel.
Arguments ROk {A} a s.
Arguments RErr {A} d s.
Arguments RFuel {A}.

(* lexLineComment after its first l.next(): take runes up to EOF / '\n' (exclusive) *)
Fixpoint take_line (fuel : nat) (s : lstate) (acc : list N) : lres (list N) :=
  match fuel with
  | O => RFuel
  | S f =>
    match peek s with
    | None => ROk acc s
    | Some v => if N.eqb v 10 then ROk acc s
                else let s' := next s in take_line f s' (acc ++ ch_list s')
    end
  end.
Definition lex_line_comment (s : lstate) : lres (list N) :=
  let s1 := next s in (* consume the second / *)
  take_line (S (length (rest s1))) s1 [].

Definition lex_description_line (s : lstate) : lres (list N) :=
  match skip_whitespace (S (length (rest s))) s with
  | None => RFuel
  | Some s1 => take_line (S (length (rest s1))) s1 []
  end.

Fixpoint block_comment_loop (fuel : nat) (s : lstate) (acc : list N) : lres (list N) :=
  match fuel with
  | O => RFuel
  | S f =>
    let s1 := next s in
    if opt_eq (ch s1) 42 && opt_eq (peek s1) 47 then ROk acc (next s1)
    else match ch s1 with
         | None => ROk acc s1
         | Some c => block_comment_loop f s1 (acc ++ [c])
         end
  end.
Definition lex_block_comment (s : lstate) : lres (list N) :=
  let s1 := next s in (* consume the first * *)
  block_comment_loop (S (length (rest s1))) s1 [].

Fixpoint regex_loop (fuel : nat) (s : lstate) (acc : list N) : lres (list N) :=
  match fuel with
  | O => RFuel
  | S f =>
    let s1 := next s in
    match ch s1 with
    | None => RErr (errf msg_eof s1) s1
    | Some c =>
      if N.eqb c 10 then RErr (errf msg_eol_regex s1) s1
      else if N.eqb c 47 then
        if opt_eq (peek s1) 47 then regex_loop f (next s1) (acc ++ [47%N])
        else ROk acc s1
      else regex_loop f s1 (acc ++ [c])
    end
  end.
Definition lex_regex (s : lstate) : lres (list N) := regex_loop (S (length (rest s))) s [].

(* lexEscape(quote): the next rune must be '\\', '\n' or the quote *)
Definition lex_escape (quote : N) (s : lstate) : option lstate :=
  match peek s with
  | Some v => if N.eqb v 92 || N.eqb v 10 || N.eqb v quote then Some (next s) else None
  | None => None
  end.

Fixpoint string_loop (fuel : nat) (quote : N) (s : lstate) (acc : list N) : lres (list N) :=
  match fuel with
  | O => RFuel
  | S f =>
    let s1 := next s in
    match ch s1 with
    | None => RErr (errf msg_eof s1) s1
    | Some c =>
      if N.eqb c quote then ROk acc s1
      else if N.eqb c 10 then RErr (errf msg_eol_string s1) s1
      else if N.eqb c 92 then
        match lex_escape quote s1 with
        | None => RErr (errf msg_escape s1) s1
        | Some s2 => string_loop f quote s2 (acc ++ ch_list s2)
        end
      else string_loop f quote s1 (acc ++ [c])
    end
  end.
Definition lex_string (s : lstate) : lres (list N) :=
  match ch s with
  | Some q => string_loop (S (length (rest s))) q s []
  | None => RFuel (* unreachable: lexString is entered on the quote rune *)
  end.

Fixpoint ident_loop (fuel : nat) (s : lstate) (acc : list N) : lres (list N) :=
  match fuel with
  | O => RFuel
  | S f =>
    match peek s with
    | Some v => if is_letter v || is_digit v || N.eqb v 95
                then let s' := next s in ident_loop f s' (acc ++ ch_list s')
                else ROk acc s
    | None => ROk acc s
    end
  end.
Definition lex_ident (s : lstate) : lres (list N) := ident_loop (S (length (rest s))) s (ch_list s).

(* lexNumber: (type, literal) or the "second dot" error *)
Fixpoint number_loop (fuel : nat) (s : lstate) (seen_dot : bool) (acc : list N) : lres (ttype * list N) :=
  match fuel with
  | O => RFuel
  | S f =>
    match peek s with
    | Some v =>
      if is_digit v then let s' := next s in number_loop f s' seen_dot (acc ++ ch_list s')
      else if N.eqb v 46 then
        if seen_dot then RErr (errf msg_second_dot s) s
        else number_loop f (next s) true (acc ++ [46%N])
      else ROk (if seen_dot then DECIMAL else INT, acc) s
    | None => ROk (if seen_dot then DECIMAL else INT, acc) s
    end
  end.
Definition lex_number (s : lstate) : lres (ttype * list N) :=
  number_loop (S (length (rest s))) s false (ch_list s).

Definition lit_true : list N := [116; 114; 117; 101]%N.
Definition lit_false : list N := [102; 97; 108; 115; 101]%N.

(* one NextToken call *)
Inductive lexres := LTok (t : token) | LErr (d : diag) | LEof | LFuel.

Definition lift_lit (typ : ttype) (start : pos) (r : lres (list N)) : lstate -> lexres * lstate :=
  fun dflt =>
  match r with
  | ROk l s => (LTok (mkTok typ l start (get_pos s)), s)
  | RErr d s => (LErr d, s)
  | RFuel => (LFuel, dflt)
  end.

Fixpoint next_token_fuel (fuel : nat) (s0 : lstate) : lexres * lstate :=
  match fuel with
  | O => (LFuel, s0)
  | S f =>
    let s := next s0 in
    match ch s with
    | None => (LEof, s)
    | Some c =>
      match op_of c with
      | Some op => (LTok (mkTok op [c] (get_pos s) (get_pos s)), s)
      | None =>
        let start := get_pos s in
        if N.eqb c 47 then
          if opt_eq (peek s) 47 then lift_lit COMMENT start (lex_line_comment s) s
          else if opt_eq (peek s) 42 then lift_lit BLOCK_COMMENT start (lex_block_comment s) s
          else lift_lit REGEX start (lex_regex s) s
        else if N.eqb c 34 then lift_lit STRING start (lex_string s) s
        else if N.eqb c 124 then lift_lit DESCRIPTION start (lex_description_line s) s
        else if N.eqb c 10 then (LTok (mkTok EOL [c] start start), s)
        else if is_space c then next_token_fuel f s
        else if is_digit c then
          match lex_number s with
          | ROk (typ, l) s' => (LTok (mkTok typ l start (get_pos s')), s')
          | RErr d s' => (LErr d, s')
          | RFuel => (LFuel, s)
          end
        else if is_letter c then
          match lex_ident s with
          | ROk l s' =>
            if list_N_eqb l lit_true || list_N_eqb l lit_false
            then (LTok (mkTok BOOL l start (get_pos s')), s')
            else (LTok (mkTok IDENT l start (get_pos s')), s')
          | RErr d s' => (LErr d, s')
          | RFuel => (LFuel, s)
          end
        else (LErr (errf (msg_char c) s), s)
      end
    end
  end.
Definition next_token (s : lstate) : lexres * lstate := next_token_fuel (S (length (rest s))) s.

(* AllTokens(failFast): tokens, or the lexer's errors (non-empty) *)
Inductive lexout := LexOk (toks : list token) | LexErrs (ds : list diag) | LexFuel.

(* returns (tokens, errors, ran-out-of-fuel) *)
Fixpoint all_tokens_loop (fuel : nat) (ff : bool) (s : lstate) : list token * list diag * bool :=
  match fuel with
  | O => ([], [], true)
  | S f =>
    match next_token s with
    | (LFuel, _) => ([], [], true)
    | (LEof, _) => ([], [], false)
    | (LTok t, s') => let '(ts, ds, b) := all_tokens_loop f ff s' in (t :: ts, ds, b)
    | (LErr d, s') =>
      if ff then ([], [d], false)
      else let '(ts, ds, b) := all_tokens_loop f ff s' in (ts, d :: ds, b)
    end
  end.

Definition all_tokens (ff : bool) (data : list N) : lexout :=
  let '(ts, ds, b) := all_tokens_loop (S (S (length data))) ff (new_lexer data) in
  if b then LexFuel else
  match ds with
  | [] => LexOk ts
  | _ => LexErrs ds
  end.

(* the input as the lexer sees it *)
Definition lex_bytes (ff : bool) (input : list N) : lexout := all_tokens ff (utf8_decode input).

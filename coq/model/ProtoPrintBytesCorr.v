(* ProtoPrintBytesCorr.v — correspondence cases for the byte level of C05 (model/ProtoPrintBytes.v).
   One case = one file descriptor rebuilt WITHOUT source code info (harness: protodesc.ToFileDescriptorProto,
   SourceCodeInfo dropped, protodesc.NewFile) and the bytes the real protoprint.PrintFile wrote for it:
     gen   the generated-code comment given to PrintFile,
     imp   the types and packages of the files imported,
     d     the descriptor as the printer walks it (all source lines 0, no comments),
     text  the bytes PrintFile returned.
   Checked: render_bytes gives EXACTLY these bytes (indentation, blank lines of addGap / endElem, inline and
   block option forms, line ends); the descriptor is inside the hypotheses of C05_bytes_roundtrip_subclass
   (wf_dfile_b, bytes_modelled_b). *)
From Coq Require Import String List NArith ZArith Bool.
From J5V.model Require Import ProtoPrintLit ProtoPrint ProtoLex ProtoLayout ProtoPrintCorr ProtoPrintFile ProtoPrintFileWf ProtoPrintFileErase ProtoPrintBytes.
Import ListNotations.
Local Open Scope N_scope.
Local Open Scope bool_scope.

Inductive c05bytes := CBytes (gen : list N) (imp : xsymtab) (d : dfile) (text : list N).

Definition c05_bytes_check (c : c05bytes) : bool :=
  match c with
  | CBytes gen imp d text =>
      bytes_eqb (render_bytes gen imp d) text
      && wf_dfile_b imp d
      && bytes_modelled_b gen imp d
  end.

(* which part fails (diagnostics): 0 = ok, 1 = bytes differ, 2 = outside wf_dfile, 3 = not unlocated,
   4 = rendered bytes are not a layout of the model's tokens *)
Definition c05_bytes_diag (c : c05bytes) : N :=
  match c with
  | CBytes gen imp d text =>
      if negb (bytes_eqb (render_bytes gen imp d) text) then 1
      else if negb (wf_dfile_b imp d) then 2
      else if negb (unlocated_b d) then 3
      else if negb (bytes_modelled_b gen imp d) then 4 else 0
  end.

(* CmpbBytes.v — C14 with CONCRETE outputs: one run of "compile a package and print every file it returns" as a
   function of (a) the inputs of the property — the source set [bd] (cmpa's AST bundle), the dependency set [exts],
   the package name — and (b) everything the property says the output must NOT depend on, collected in a [run]:

     r_pkgs      LocalFileSource.ListPackages() as this run returned it (source_resolver.go newSourceResolver:
                 localPrefixes / localPackageNames are built from it; packageForFile = hasAPrefix over the
                 prefixes in listing order, then SplitPackageFromFilename)
     r_files     the source files in the order the file source listed them (ListSourceFiles walks the tree;
                 listPackageFiles keeps the files whose path.Dir is the package root)
     r_lf        a further per-package reordering of that listing       (model/CmpbOrder.v list_files)
     r_rd        iteration order of the `deps` map in resolveDependencies (range_deps)
     r_rf        iteration order of pkg.Files in CompilePackage           (range_files)
     r_fuel, r_lfuel   recursion bounds of the model (the Go code has none)
     r_earlier   the CompilePackage calls made earlier on the same PackageSet (both caches are threaded)
     r_range     the order in which protobuf's Range delivers the extension fields of an options message, applied
                 to EVERY option list of the descriptor the printer walks (OptionsFor)

   No stage is a universally quantified function:
     conversion   cmpa's Gallina model of ConvertJ5File (CmpbInstance.cmpa_convert: J5sConvert.cv_file)
     Dependency   the descriptor's own list (Desc.fl_deps, which cv_file builds with its ensureImport model)
     owner        [split_owner] = j5convert.SplitPackageFromFilename
     is_local     [is_local_of pkgs] = hasAPrefix(filename, localPrefixes)
     ext_file     lookup by path in the dependency set [exts] (an INPUT, the same in both runs)
     link1        [Linked d ls]: the linked file is the descriptor together with its linked imports, in Dependency
                  order (protocompile's name resolution is not modelled: cmpa's descriptors carry full names)
     print        tool's model of PrintFile (ProtoPrintFile.print_file_tokens) on [to_print]: the descriptor the
                  printer walks, built from cmpa's descriptor and an ANNOTATION TABLE [ann] for what cmpa's descriptor
                  type does not carry (source line, comments and the option list of every element; the same table in
                  both runs - it stands for SourceCodeInfo and for the extension options j5convert sets)
   Output of a run: for every file CompilePackage returns, in the order it returns them: the file name, the
   descriptor (serialisation order: Dependency list, messages / fields / nested / enums / services as cmpa's
   Desc.dfile lists them) and the printed tokens.   No proofs in this file. *)
From Coq Require Import String List NArith ZArith Bool Permutation.
From J5V.lib Require Import Outcome Strcase.
From J5V.model Require Import Desc J5sAst J5sWalk J5sConvert CmpbOrder CmpbInstance.
From J5V.model Require ProtoPrintLit ProtoPrint ProtoPrintFile.
Import ListNotations.
Local Open Scope N_scope.
Local Open Scope bool_scope.
Module PP := ProtoPrint.
Module PF := ProtoPrintFile.

(* ------------------------------------------------------------------ package listing, file attribution *)
(* strings.ReplaceAll(p, ".", "/") *)
Definition pkg_root (p : bytes) : bytes := map (fun c => if c =? 46 then 47 else c) p.
(* newSourceResolver: localPrefixes[i] = root + "/", in ListPackages order *)
Definition local_prefixes (pkgs : list bytes) : list bytes := map (fun p => pkg_root p ++ [47]) pkgs.
(* hasAPrefix: the first matching prefix ends the loop; only whether one matches is returned *)
Definition has_a_prefix (s : bytes) (prefixes : list bytes) : bool := existsb (fun p => has_prefix p s) prefixes.
Definition is_local_of (pkgs : list bytes) (path : bytes) : bool := has_a_prefix path (local_prefixes pkgs).

(* reVersion = ^v\d+$ *)
Definition is_digit (c : N) : bool := (48 <=? c) && (c <=? 57).
Definition is_version (s : bytes) : bool :=
  match s with
  | 118 :: d :: ds => forallb is_digit (d :: ds)
  | _ => false
  end.
(* SplitPackageFromFilename: foo/v1/x.proto -> foo.v1; foo/v1/service/x.proto -> foo.v1; a path without a version
   segment in one of the last two places is an error in Go (findFileByPath fails): here the raw package, which
   no valid bundle stores a file under *)
Definition split_owner (path : bytes) : bytes :=
  let pkg := package_from_filename path in
  match rev (split 46 pkg) with
  | last :: prev :: rest =>
      if is_version last then pkg
      else if is_version prev then join dot (rev (prev :: rest))
      else pkg
  | _ => pkg
  end.

(* path.Dir of a clean relative path (what fs.WalkDir yields) *)
Definition dir_of (f : bytes) : bytes := join slash (removelast (split 47 f)).
(* listPackageFiles: skip generated .j5s.proto, keep the files directly in the package's directory *)
Definition in_package {F} (pkg : bytes) (f : @srcfile F) : bool :=
  negb (has_suffix (b ".j5s.proto") (CmpbOrder.f_name f)) && beqb (dir_of (CmpbOrder.f_name f)) (pkg_root pkg).
(* the bundle as CompilePackage sees it: a package is local when ListPackages names it (localPackageNames), its
   files are the listed files that pass the path.Dir filter, in listing order *)
Definition flat_bundle {F} (pkgs : list bytes) (files : list (@srcfile F)) : @bundle F :=
  map (fun p => (p, filter (in_package p) files)) pkgs.

(* ------------------------------------------------------------------ the concrete stages *)
Definition cdesc := option Desc.dfile.
Inductive linked := Linked (d : cdesc) (imports : list linked).
Definition l_desc (l : linked) : cdesc := match l with Linked d _ => d end.
Definition l_imports (l : linked) : list linked := match l with Linked _ i => i end.

Definition c_deps_of (d : cdesc) : list bytes := match d with Some f => fl_deps f | None => [] end.
Definition c_link1 (d : cdesc) (ls : list linked) : linked := Linked d ls.
Definition c_ext_file (exts : list Desc.dfile) (path : bytes) : option cdesc :=
  match find (fun d => str_eqb (fl_path d) path) exts with
  | Some d => Some (Some d)
  | None => None
  end.

(* the source files of cmpa's bundle, as the skeleton's srcfiles *)
Definition src_files (bd : J5sAst.bundle) : list (@srcfile jfile) := map of_jfile (jfiles bd).

Record run := mkRun {
  r_pkgs : list bytes;
  r_files : list (@srcfile jfile);
  r_lf : bytes -> list (@srcfile jfile) -> list (@srcfile jfile);
  r_rd : bytes -> list bytes -> list bytes;
  r_rf : bytes -> list bytes -> list bytes;
  r_fuel : nat;
  r_lfuel : nat;
  r_earlier : list bytes;
  r_range : list PF.dopt -> list PF.dopt
}.

(* CompilePackage(n) of this run, after the run's earlier calls on the same PackageSet *)
Definition compile_run (bd : J5sAst.bundle) (exts : list Desc.dfile) (r : run) (n : bytes)
  : option (list (bytes * linked)) :=
  let b := flat_bundle (r_pkgs r) (r_files r) in
  let h := compile_link_seq (cmpa_convert bd) (r_lf r) (r_rd r) (r_rf r) split_owner (is_local_of (r_pkgs r))
             (c_ext_file exts) c_deps_of c_link1 (r_fuel r) (r_lfuel r) b [] [] (r_earlier r) in
  match compile_and_link (cmpa_convert bd) (r_lf r) (r_rd r) (r_rf r) split_owner (is_local_of (r_pkgs r))
          (c_ext_file exts) c_deps_of c_link1 (r_fuel r) (r_lfuel r) b (fst h) (snd h) n with
  | Some (_, _, out) => Some out
  | None => None
  end.

(* the same call on a PackageSet in ANY state [pc] (loaded packages) / [lc] (SearchResult.Linked results): what earlier
   calls - also failed ones, which in Go leave the dependencies they had loaded and the files they had linked - left behind *)
Definition compile_from (bd : J5sAst.bundle) (exts : list Desc.dfile) (r : run)
           (pc : list (bytes * @pkg cdesc)) (lc : list (bytes * linked)) (n : bytes) : option (list (bytes * linked)) :=
  match compile_and_link (cmpa_convert bd) (r_lf r) (r_rd r) (r_rf r) split_owner (is_local_of (r_pkgs r))
          (c_ext_file exts) c_deps_of c_link1 (r_fuel r) (r_lfuel r) (flat_bundle (r_pkgs r) (r_files r)) pc lc n with
  | Some (_, _, out) => Some out
  | None => None
  end.

(* ------------------------------------------------------------------ cmpa's descriptor -> the printer's descriptor *)
(* what cmpa's descriptor type does not carry, per element: start line of its source location (0 = none), comments,
   the options set on it in the order the descriptor holds them.  Keyed by file, element kind and path *)
Record annot := mkAnnot { a_line : N; a_cm : PF.cmt; a_opts : list PF.dopt }.
Definition K_MSG : N := 0.  Definition K_FIELD : N := 1.  Definition K_ONEOF : N := 2.  Definition K_ENUM : N := 3.
Definition K_VALUE : N := 4.  Definition K_SERVICE : N := 5.  Definition K_METHOD : N := 6.
Definition ann_table := bytes -> N -> PP.qname -> annot.

Definition qn (s : bytes) : PP.qname := match s with [] => [] | _ => split 46 s end.
Definition mkkey (line idx : N) : PF.key := {| PF.k_line := line; PF.k_idx := idx |}.

Fixpoint mapi_from {A B} (g : N -> A -> B) (i : N) (l : list A) : list B :=
  match l with [] => [] | x :: r => g i x :: mapi_from g (i + 1) r end.
Definition mapi {A B} (g : N -> A -> B) (l : list A) : list B := mapi_from g 0 l.

Definition scalar_kw (t : ptype) : bytes :=
  match t with
  | TDouble => b "double" | TFloat => b "float" | TInt64 => b "int64" | TUint64 => b "uint64"
  | TInt32 => b "int32" | TUint32 => b "uint32" | TBool => b "bool" | TString => b "string"
  | TBytes => b "bytes" | TMessage => b "message" | TEnum => b "enum"
  end.

(* a full type name ".pkg.Path" split at the longest package among the file's own and its imports' *)
Definition strip_dot (s : bytes) : bytes := match s with 46 :: r => r | _ => s end.
Definition best_pkg (pkgs : list bytes) (name : bytes) : bytes :=
  fold_left (fun best p => if has_prefix (p ++ [46]) name && (length best <? length p)%nat then p else best) pkgs [].
Definition ref_of (pkgs : list bytes) (tname : bytes) : PP.qname * PP.qname :=
  let n := strip_dot tname in
  let p := best_pkg pkgs n in
  (qn p, qn (skipn (match p with [] => 0%nat | _ => S (length p) end) n)).

Definition vt_of (pkgs : list bytes) (f : Desc.dfield) : PF.dvt :=
  match Desc.f_type f with
  | TMessage | TEnum => let r := ref_of pkgs (f_tname f) in PF.DRef (fst r) (snd r)
  | t => PF.DScalar (scalar_kw t)
  end.
Definition is_entry (m : dmsg) : bool := match dm_kind m with MMapEntry => true | _ => false end.
(* a map field: repeated message field whose type is a map-entry message nested in the same parent *)
Definition type_of (pkgs : list bytes) (siblings : list dmsg) (f : Desc.dfield) : PF.dtype :=
  match Desc.f_type f,
        find (fun m => is_entry m && has_suffix (46 :: dm_name m) (f_tname f)) siblings with
  | TMessage, Some (Desc.DMsg en _ (k :: v :: _) _ _) => PF.DMapT (scalar_kw (Desc.f_type k)) en (vt_of pkgs v)
  | _, _ => PF.DSingle (vt_of pkgs f)
  end.
Definition label_of (t : PF.dtype) (f : Desc.dfield) : PF.label :=
  match t with
  | PF.DMapT _ _ _ => PF.LNone
  | _ => if f_opt3 f then PF.LOptional
         else match Desc.f_label f with Desc.LRepeated => PF.LRepeated | _ => PF.LNone end
  end.

Definition field_of (ann : ann_table) (file : bytes) (pkgs : list bytes) (siblings : list dmsg) (mpath : PP.qname)
           (i : N) (f : Desc.dfield) : PF.dfield :=
  let a := ann file K_FIELD (mpath ++ [Desc.f_name f]) in
  let t := type_of pkgs siblings f in
  {| PF.f_key := mkkey (a_line a) i; PF.f_cm := a_cm a; PF.f_label := label_of t f; PF.f_type := t;
     PF.f_name := Desc.f_name f; PF.f_num := Desc.f_num f; PF.f_json := Desc.f_json f; PF.f_opts := a_opts a |}.

Definition enum_of (ann : ann_table) (file : bytes) (mpath : PP.qname) (i : N) (e : denum) : PF.delem :=
  let path := mpath ++ [en_name e] in
  let a := ann file K_ENUM path in
  PF.DEnum (mkkey (a_line a) i) (a_cm a) (en_name e) (a_opts a)
    (mapi (fun j v => let av := ann file K_VALUE (path ++ [fst v]) in
                      {| PF.v_key := mkkey (a_line av) j; PF.v_cm := a_cm av; PF.v_name := fst v;
                         PF.v_num := Z.of_N (snd v); PF.v_opts := a_opts av |}) (en_vals e)).

(* printMessage: fields outside the real oneof, the real oneof ("type": cmpa's descriptors have at most that one),
   nested messages that are not map entries, enums *)
Fixpoint msg_of (ann : ann_table) (file : bytes) (pkgs : list bytes) (mpath : PP.qname) (i : N) (m : dmsg) {struct m}
  : PF.delem :=
  match m with
  | Desc.DMsg name _ fields msgs enums =>
      let path := mpath ++ [name] in
      let a := ann file K_MSG path in
      let ao := ann file K_ONEOF (path ++ [b "type"]) in
      let fs := mapi (fun j f => (f_oneof f, field_of ann file pkgs msgs path j f)) fields in
      let plain := map snd (filter (fun x => negb (fst x)) fs) in
      let inone := map snd (filter (fun x => fst x) fs) in
      PF.DMsg (mkkey (a_line a) i) (a_cm a) name (a_opts a)
        (map PF.DField plain
         ++ (match inone with [] => [] | _ => [PF.DOneof (mkkey (a_line ao) 0) (a_cm ao) (b "type") (a_opts ao) inone] end)
         ++ (fix go (l : list dmsg) (j : N) {struct l} : list PF.delem :=
               match l with
               | [] => []
               | x :: r => (if is_entry x then [] else [msg_of ann file pkgs path j x]) ++ go r (j + 1)
               end) msgs 0
         ++ mapi (enum_of ann file path) enums)
  end.

Definition method_of (ann : ann_table) (file : bytes) (pkgs : list bytes) (svc : bytes) (i : N) (m : Desc.dmethod) : PF.dmethod :=
  let a := ann file K_METHOD [svc; me_name m] in
  {| PF.m_key := mkkey (a_line a) i; PF.m_cm := a_cm a; PF.m_name := me_name m;
     PF.m_in := ref_of pkgs (me_in m); PF.m_out := ref_of pkgs (me_out m); PF.m_opts := a_opts a |}.
Definition service_of (ann : ann_table) (file : bytes) (pkgs : list bytes) (i : N) (s : dservice) : PF.delem :=
  let a := ann file K_SERVICE [ds_name s] in
  PF.DService (mkkey (a_line a) i) (a_cm a) (ds_name s) (a_opts a) (mapi (method_of ann file pkgs (ds_name s)) (ds_methods s)).

Definition l_pkg (l : linked) : bytes := match l_desc l with Some d => fl_pkg d | None => [] end.

(* printFile adds messages, services, enums; imports are the Dependency list (the printer sorts them) *)
Definition to_print (ann : ann_table) (l : linked) : PF.dfile :=
  match l_desc l with
  | Some d =>
      let pkgs := fl_pkg d :: map l_pkg (l_imports l) in
      {| PF.d_pkg := qn (fl_pkg d);
         PF.d_imports := fl_deps d;
         PF.d_fopts := [];
         PF.d_exts := [];
         PF.d_body := mapi (msg_of ann (fl_path d) pkgs []) (fl_msgs d)
                      ++ mapi (service_of ann (fl_path d) pkgs) (fl_svcs d)
                      ++ mapi (enum_of ann (fl_path d) []) (fl_enums d) |}
  | None => {| PF.d_pkg := []; PF.d_imports := []; PF.d_fopts := []; PF.d_exts := []; PF.d_body := [] |}
  end.

(* the types and packages the printer sees around the file: its own and those of its direct imports *)
Definition imp_symtab (ann : ann_table) (imps : list linked) : PF.xsymtab :=
  {| PF.x_types := flat_map (fun i => let d := to_print ann i in
                                      map (fun p => (PF.d_pkg d, p)) (PF.delems_types [] (PF.d_body d))) imps;
     PF.x_pkgs := map (fun i => PF.d_pkg (to_print ann i)) imps |}.
Definition st_of (ann : ann_table) (l : linked) : PP.symtab :=
  PF.to_symtab (PF.dfile_symtab (imp_symtab ann (l_imports l)) (to_print ann l)).

(* ------------------------------------------------------------------ protobuf's Range order, everywhere *)
(* OptionsFor ranges over the options message of every element: each option list reaches the printer in the order
   [rng] delivers it *)
Definition reorder_field (rng : list PF.dopt -> list PF.dopt) (f : PF.dfield) : PF.dfield :=
  {| PF.f_key := PF.f_key f; PF.f_cm := PF.f_cm f; PF.f_label := PF.f_label f; PF.f_type := PF.f_type f;
     PF.f_name := PF.f_name f; PF.f_num := PF.f_num f; PF.f_json := PF.f_json f; PF.f_opts := rng (PF.f_opts f) |}.
Definition reorder_value (rng : list PF.dopt -> list PF.dopt) (v : PF.dvalue) : PF.dvalue :=
  {| PF.v_key := PF.v_key v; PF.v_cm := PF.v_cm v; PF.v_name := PF.v_name v; PF.v_num := PF.v_num v; PF.v_opts := rng (PF.v_opts v) |}.
Definition reorder_method (rng : list PF.dopt -> list PF.dopt) (m : PF.dmethod) : PF.dmethod :=
  {| PF.m_key := PF.m_key m; PF.m_cm := PF.m_cm m; PF.m_name := PF.m_name m; PF.m_in := PF.m_in m; PF.m_out := PF.m_out m;
     PF.m_opts := rng (PF.m_opts m) |}.
Fixpoint reorder_elem (rng : list PF.dopt -> list PF.dopt) (e : PF.delem) {struct e} : PF.delem :=
  match e with
  | PF.DField f => PF.DField (reorder_field rng f)
  | PF.DOneof k c n o fs => PF.DOneof k c n (rng o) (map (reorder_field rng) fs)
  | PF.DMsg k c n o body =>
      PF.DMsg k c n (rng o)
        ((fix go (l : list PF.delem) : list PF.delem := match l with [] => [] | x :: r => reorder_elem rng x :: go r end) body)
  | PF.DEnum k c n o vs => PF.DEnum k c n (rng o) (map (reorder_value rng) vs)
  | PF.DService k c n o ms => PF.DService k c n (rng o) (map (reorder_method rng) ms)
  end.
Definition reorder (rng : list PF.dopt -> list PF.dopt) (d : PF.dfile) : PF.dfile :=
  {| PF.d_pkg := PF.d_pkg d; PF.d_imports := PF.d_imports d; PF.d_fopts := PF.d_fopts d;
     PF.d_exts := map (fun xf => (fst xf, reorder_field rng (snd xf))) (PF.d_exts d);
     PF.d_body := map (reorder_elem rng) (PF.d_body d) |}.

(* ------------------------------------------------------------------ the output of a run *)
(* PrintFile of one returned file, its options arriving in this run's Range order *)
Definition print_linked (ann : ann_table) (rng : list PF.dopt -> list PF.dopt) (l : linked) : list PP.token :=
  PF.print_file_tokens (st_of ann l) (reorder rng (to_print ann l)).

Definition output := list (bytes * cdesc * list PP.token).
Definition render (ann : ann_table) (rng : list PF.dopt -> list PF.dopt) (out : list (bytes * linked)) : output :=
  map (fun x => (fst x, l_desc (snd x), print_linked ann rng (snd x))) out.

(* compile the package, then print every file it returned *)
Definition compile_and_print (bd : J5sAst.bundle) (exts : list Desc.dfile) (ann : ann_table) (r : run) (n : bytes)
  : option output :=
  match compile_run bd exts r n with
  | Some out => Some (render ann (r_range r) out)
  | None => None
  end.

(* what a run may vary: its listings are permutations of the source set's, its order parameters permute *)
Definition perm_fun {A} (g : list A -> list A) : Prop := forall l, Permutation (g l) l.
Definition run_ok (pkgs : list bytes) (bd : J5sAst.bundle) (r : run) : Prop :=
  Permutation (r_pkgs r) pkgs
  /\ Permutation (r_files r) (src_files bd)
  /\ (forall n, perm_fun (r_lf r n)) /\ (forall n, perm_fun (r_rd r n)) /\ (forall n, perm_fun (r_rf r n))
  /\ perm_fun (r_range r).

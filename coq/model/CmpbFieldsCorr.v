(* CmpbFieldsCorr.v — correspondence cases for C07: what the real compiler was observed to do
   on a one-declaration file, checked against the model by vm_compute.  Only projected
   observables are compared: verdict class, the generated file's import list (as a set of paths),
   the set of extension names on the field's options, proto type, label, proto3_optional. *)
From Coq Require Import String List Bool.
From J5V.lib Require Import Outcome Corr.
From J5V.model Require Import CmpbFields CmpbDecls.
Import ListNotations.
Local Open Scope string_scope.

Definition verdict_eqb (a b : verdict) : bool :=
  match a, b with
  | VOk, VOk | VConvErr, VConvErr | VLinkErr, VLinkErr | VPanic, VPanic => true
  | _, _ => false
  end.

Definition ptype_name (p : ptype) : string :=
  match p with
  | PMessage => "TYPE_MESSAGE" | PEnum => "TYPE_ENUM" | PBool => "TYPE_BOOL" | PBytes => "TYPE_BYTES"
  | PFloat => "TYPE_FLOAT" | PDouble => "TYPE_DOUBLE" | PInt32 => "TYPE_INT32" | PInt64 => "TYPE_INT64"
  | PUint32 => "TYPE_UINT32" | PUint64 => "TYPE_UINT64" | PString => "TYPE_STRING" | PUnset => "?"
  end.

Definition subset (a b : list string) : bool := forallb (fun x => existsb (String.eqb x) b) a.
Definition set_eq (a b : list string) : bool := subset a b && subset b a.

(* ref_path: the path of the file holding a referenced type, as the harness laid the bundle out *)
Definition imp_path_with (ref_path : string) (i : imp) : string :=
  match i with IRefFile => ref_path | _ => imp_path i end.

Inductive c07case :=
(* one property in `object Foo { ... }`, nothing else in the file *)
| CIso (p : prop) (ref_path : string)
       (v : verdict) (imports : list string) (exts : list string) (pt : string) (repeated opt3 : bool)
       (nerrs : nat) (all_positioned : bool)   (* on a conversion error: error leaves returned, all positioned inside the file *)
(* one top-level enum alone in a file: imports of the file, extension names on the enum and its values *)
| CEnum (e : enum_decl) (v : verdict) (imports : list string) (exts : list string)
(* one service alone in a file: imports of the generated service file, extension names on the service,
   its methods and the request/response messages (not on their fields) *)
| CService (sv : service) (v : verdict) (imports : list string) (exts : list string)
(* one topic alone in a file: imports of the generated topic file (ref_path = the metadata type's file),
   extension names on its services and messages *)
| CTopic (t : topic) (ref_path : string) (v : verdict) (imports : list string) (exts : list string)
(* an object (optionally an entity part) / a oneof alone in a file: message-level extension names *)
| CShell (oneof entity : bool) (v : verdict) (imports : list string) (exts : list string)
(* a whole source file of several declarations: the verdict and the import sets of the three output files *)
| CFile (ds : list decl) (ref_path : string) (v : verdict) (main service topic : list string).

Definition decl_check (s : dstate) (v : verdict) (imports exts : list string) : bool :=
  verdict_eqb (verdict_d s) v &&
  match v with
  | VOk => set_eq (map imp_path (d_imps s)) imports && set_eq (map ext_name (d_exts s)) exts
  | _ => true
  end.

Definition c07_check (c : c07case) : bool :=
  match c with
  | CIso p ref_path v imports exts pt rep opt3 nerrs allpos =>
      let o := compile_iso p in
      verdict_eqb (o_verdict o) v &&
      match v, o_desc o with
      | VOk, Some d =>
          set_eq (map (imp_path_with ref_path) (o_imps o)) imports
          && set_eq (map ext_name (o_exts o)) exts
          && String.eqb (ptype_name (d_ptype d)) pt
          && Bool.eqb (d_repeated d) rep
          && Bool.eqb (d_opt3 d) opt3
      | VOk, None => false
      | VConvErr, _ => Nat.eqb (iso_nerr p) nerrs && Bool.eqb errors_positioned allpos
      | _, _ => true
      end
  | CEnum e v imports exts => decl_check (compile_enum e) v imports exts
  | CService sv v imports exts => decl_check (compile_service sv) v imports exts
  | CTopic t ref_path v imports exts =>
      let s := compile_topic t in
      verdict_eqb (verdict_d s) v &&
      match v with
      | VOk => set_eq (map (imp_path_with ref_path) (d_imps s)) imports && set_eq (map ext_name (d_exts s)) exts
      | _ => true
      end
  | CShell oneof entity v imports exts =>
      decl_check (if oneof then compile_oneof_shell else compile_object_shell entity) v imports exts
  | CFile ds ref_path v main service topic =>
      verdict_eqb (file_verdict ds) v &&
      match v with
      | VOk => set_eq (map (imp_path_with ref_path) (d_imps (file_state FMain ds))) main
               && set_eq (map (imp_path_with ref_path) (d_imps (file_state FService ds))) service
               && set_eq (map (imp_path_with ref_path) (d_imps (file_state FTopic ds))) topic
      | _ => true
      end
  end.

(* J5sTypeNames.v — which type every declared field names in the compiled package, read off the
   source: a scalar with a message representation names its well-known type, a reference the
   declaration it resolves to (<.package.Name> of the resolved type), an inline object / oneof /
   enum the type nested under the message of the field (.<package>.<Root>.<Path>.<Name>), a map
   field its entry message nested next to it, whose value field names the item type.
   The list pairs every field symbol (as in J5sSymbols) with the type name; J5sLink.msg_ftypes
   reads the same list off a descriptor.  Definitions only. *)
From Coq Require Import String List NArith Bool.
From J5V.lib Require Import Outcome.
From J5V.model Require Import J5sAst Desc J5sWalk J5sLink J5sContract.
Import ListNotations.
Local Open Scope N_scope.

(* every field of a message and of the messages nested in it: (field symbol, type name) *)
Fixpoint msg_ftypes (scope : str) (m : dmsg) {struct m} : list (str * str) :=
  match m with
  | DMsg n _ fs ms _ =>
      let me := qual scope n in
      map (fun f => (qual me (f_name f), f_tname f)) fs ++
      (fix go (l : list dmsg) : list (str * str) :=
         match l with
         | [] => []
         | x :: r => msg_ftypes me x ++ go r
         end) ms
  end.

Section TypeNames.
Variables snake camel : str -> str.
Variable ev : env.      (* the environment of the source file: resolves references *)
Variable pkg : str.     (* its package *)

Definition ref_tname (r : ref) : str :=
  match resolve ev r with
  | Ok t => dot ++ tr_pkg t ++ dot ++ tr_name t
  | _ => []
  end.

(* the type an item (the field itself, or the item of an array / map) names; [path] is the
   path of the message that holds the field, below the package *)
Definition item_tname (path : list str) (pn : str) (f : field) : str :=
  match f with
  | FScalar s => scalar_tname s
  | FObjRef r | FOneofRef r | FEnumRef r => ref_tname r
  | FObjInline nm _ | FOneofInline nm _ => abs_name pkg (path ++ [inline_type_name camel pn nm])
  | FEnumInline e => abs_name pkg (path ++ [inline_type_name camel pn (e_name e)])
  | FArray _ | FMap _ => []
  end.

Definition prop_tname (path : list str) (p : property) : str :=
  match p with
  | Property n _ _ f =>
      match f with
      | FMap _ => abs_name pkg (path ++ [entry_name snake n])
      | _ => item_tname path n (elem f)
      end
  end.

Definition field_types (scope : str) (path : list str) (ps : list property) : list (str * str) :=
  map (fun p => (qual scope (snake (prop_name p)), prop_tname path p)) ps.

Definition entry_ftypes (scope : str) (path : list str) (pn : str) (it : field) : list (str * str) :=
  let en := qual scope (entry_name snake pn) in
  [(qual en (b "key"), []); (qual en (b "value"), item_tname path pn it)].

(* the fields of the inline types of a run of properties, to any depth *)
Fixpoint item_ftypes (scope : str) (path : list str) (pn : str) (f : field) {struct f} : list (str * str) :=
  match f with
  | FObjInline nm ps | FOneofInline nm ps =>
      let n := inline_type_name camel pn nm in
      field_types (qual scope n) (path ++ [n]) (props_list ps) ++ props_ftypes (qual scope n) (path ++ [n]) ps
  | _ => []
  end
with props_ftypes (scope : str) (path : list str) (ps : props) {struct ps} : list (str * str) :=
  match ps with
  | PNil => []
  | PCons p r => property_ftypes scope path p ++ props_ftypes scope path r
  end
with property_ftypes (scope : str) (path : list str) (p : property) {struct p} : list (str * str) :=
  match p with
  | Property n _ _ f =>
      match f with
      | FArray it => item_ftypes scope path n it
      | FMap it => item_ftypes scope path n it ++ entry_ftypes scope path n it
      | _ => item_ftypes scope path n f
      end
  end.

(* a declared object / oneof with its nested declarations *)
Fixpoint nested_ftypes (scope : str) (path : list str) (n : nested) {struct n} : list (str * str) :=
  match n with
  | NObject nm ps subs | NOneof nm ps subs =>
      field_types (qual scope nm) (path ++ [nm]) (props_list ps) ++
      props_ftypes (qual scope nm) (path ++ [nm]) ps ++ nesteds_ftypes (qual scope nm) (path ++ [nm]) subs
  | NEnum _ => []
  end
with nesteds_ftypes (scope : str) (path : list str) (ns : nesteds) {struct ns} : list (str * str) :=
  match ns with
  | NNil => []
  | NCons n r => nested_ftypes scope path n ++ nesteds_ftypes scope path r
  end.

Definition elem_ftypes (e : element) : list (str * str) :=
  match e with
  | EObject nm ps subs => nested_ftypes pkg [] (NObject nm ps subs)
  | EOneof nm ps subs => nested_ftypes pkg [] (NOneof nm ps subs)
  | _ => []
  end.

(* requests, responses, topic messages (here [pkg] is the .service / .topic sub-package) *)
Definition virtual_ftypes (name : str) (ps : props) : list (str * str) :=
  field_types (qual pkg name) [name] (props_list ps) ++ props_ftypes (qual pkg name) [name] ps.

Definition method_ftypes (m : method) : list (str * str) :=
  virtual_ftypes (m_name m ++ b "Request") (m_request m) ++
  match m_response m with
  | Some ps => virtual_ftypes (m_name m ++ b "Response") ps
  | None => []
  end.
Definition service_ftypes (s : service) : list (str * str) := flat_map method_ftypes (sv_methods s).

Definition tmsgs_ftypes (tname : str) (virt : props) (l : list tmsg) : list (str * str) :=
  flat_map (fun t => virtual_ftypes (tmsg_name tname t ++ b "Message") (papp virt (tm_fields t))) l.
Definition topic_ftypes (t : topic) : list (str * str) :=
  match t with
  | TPublish name msgs => tmsgs_ftypes name PNil msgs
  | TReqRes name req reply =>
      tmsgs_ftypes (name ++ b "Request") virt_request req ++ tmsgs_ftypes (name ++ b "Reply") virt_request reply
  | TUpsert name _ msg =>
      tmsgs_ftypes name virt_upsert
        [match tm_name msg with None => mkTmsg (Some name) (tm_fields msg) | Some _ => msg end]
  | TEvent name _ msg => tmsgs_ftypes name PNil [msg]
  end.

End TypeNames.

(* ProtoLex.v — the lexer of github.com/bufbuild/protocompile (parser/lexer.go protoLex.Lex) on bytes, for
   the character level of C05: whitespace, identifiers, numeric literals (readNumber and the validity test of
   the three branches: hexadecimal, float, decimal / octal), string literals (readStringLiteral, reusing the
   model of model/ProtoPrintLit.v), // and /* */ comments (skipped: comments are attributed to declarations
   by the parser's source info, not by this function), punctuation.
   The result is the list of raw tokens (text as written); [coalesce] turns them into the tokens of the file
   grammar (model/ProtoPrint.v token).
   Conservative where noted: None here also stands for inputs this model does not handle (single-quoted
   strings). The tie (model/ProtoPrintFileCorr.v) compares with the real lexer on every printed text.
   No proofs in this file. *)
From Coq Require Import List NArith Bool.
From J5V.model Require Import ProtoPrintLit ProtoPrint.
Import ListNotations.
Local Open Scope N_scope.
Local Open Scope bool_scope.

Inductive rtok := RId (s : list N) | RNum (s : list N) | RStr (s : list N) | RSym (c : N)
                | RDet (c : list N) | RLead (c : list N).

Definition sym_token (c : N) : option token :=
  if c =? 59 then Some TSemi else if c =? 61 then Some TEq
  else if c =? 40 then Some TLParen else if c =? 41 then Some TRParen
  else if c =? 60 then Some TLt else if c =? 62 then Some TGt
  else if c =? 46 then Some TDot else if c =? 58 then Some TColon
  else if c =? 123 then Some TLBrace else if c =? 125 then Some TRBrace
  else if c =? 91 then Some TLBrack else if c =? 93 then Some TRBrack
  else if c =? 44 then Some TComma else None.

(* a sign and the literal after it are one literal of the option-value layer *)
Fixpoint coalesce (l : list rtok) : option (list token) :=
  match l with
  | [] => Some []
  | RSym c :: r =>
      if c =? 45 then
        match r with
        | RNum s :: r' | RId s :: r' => option_map (cons (TLit (45 :: s))) (coalesce r')
        | _ => None
        end
      else match sym_token c, coalesce r with Some t, Some ts => Some (t :: ts) | _, _ => None end
  | RId s :: r => option_map (cons (TIdent s)) (coalesce r)
  | RNum s :: r | RStr s :: r => option_map (cons (TLit s)) (coalesce r)
  | RDet c :: r => option_map (cons (TDetached c)) (coalesce r)
  | RLead c :: r => option_map (cons (TLeading c)) (coalesce r)
  end.

(* ------------------------------------------------------------------ character classes *)
Definition is_ws (c : N) : bool :=            (* strings.ContainsRune("\n\r\t\f\v ", c) *)
  (c =? 10) || (c =? 13) || (c =? 9) || (c =? 12) || (c =? 11) || (c =? 32).
Definition is_digit (c : N) : bool := (48 <=? c) && (c <=? 57).
Definition is_letter (c : N) : bool := ((65 <=? c) && (c <=? 90)) || ((97 <=? c) && (c <=? 122)).
Definition is_sign (c : N) : bool := (c =? 45) || (c =? 43).
Definition is_exp (c : N) : bool := (c =? 101) || (c =? 69).
(* the characters readNumber keeps reading *)
Definition is_num_char (c : N) : bool :=
  (c =? 46) || (c =? 95) || is_digit c || is_letter c || is_sign c.
(* ";,.:=-+(){}[]<>/" *)
Definition is_punct (c : N) : bool :=
  (c =? 59) || (c =? 44) || (c =? 46) || (c =? 58) || (c =? 61) || (c =? 45) || (c =? 43)
  || (c =? 40) || (c =? 41) || (c =? 123) || (c =? 125) || (c =? 91) || (c =? 93)
  || (c =? 60) || (c =? 62) || (c =? 47).

(* ------------------------------------------------------------------ pieces *)
(* readIdentifier *)
Fixpoint span_ident (s : list N) : list N * list N :=
  match s with
  | c :: r => if is_ident_char c then let (p, rest) := span_ident r in (c :: p, rest) else ([], s)
  | [] => ([], [])
  end.

(* readNumber: a sign only directly after e / E *)
Fixpoint read_number (allow : bool) (s : list N) : list N * list N :=
  match s with
  | [] => ([], [])
  | c :: r =>
      if is_sign c && negb allow then ([], s)
      else if is_num_char c then let (p, rest) := read_number (is_exp c) r in (c :: p, rest)
      else ([], s)
  end.

(* ---- validity of the number token (the three branches of Lex) *)
Fixpoint digits_val (base : N) (acc : N) (s : list N) : option N :=
  match s with
  | [] => Some acc
  | c :: r => match hexval c with
              | Some v => if v <? base then digits_val base (acc * base + v) r else None
              | None => None
              end
  end.
Definition U64_LIMIT : N := 18446744073709551616.
Definition uint_ok (base : N) (s : list N) : bool :=      (* strconv.ParseUint(s, base, 64) without error *)
  match s with
  | [] => false
  | _ => match digits_val base 0 s with Some v => v <? U64_LIMIT | None => false end
  end.

(* strconv.ParseFloat syntax for a token that starts with a digit or a dot: digits [. digits] | . digits,
   then an optional exponent e|E [+|-] digits+; no underscore (parseFloat rejects it); out of range is
   accepted (infinity) *)
Fixpoint span_digits (s : list N) : list N * list N :=
  match s with
  | c :: r => if is_digit c then let (p, rest) := span_digits r in (c :: p, rest) else ([], s)
  | [] => ([], [])
  end.
Definition exponent_ok (s : list N) : bool :=
  match s with
  | [] => true
  | e :: r =>
      is_exp e &&
      (let r' := match r with c :: r2 => if is_sign c then r2 else r | [] => r end in
       match span_digits r' with
       | (_ :: _, []) => true
       | _ => false
       end)
  end.
Definition float_ok (s : list N) : bool :=
  let (ip, r1) := span_digits s in
  match r1 with
  | 46 :: r2 =>
      let (fp, r3) := span_digits r2 in
      negb (match ip, fp with [], [] => true | _, _ => false end) && exponent_ok r3
  | _ => negb (match ip with [] => true | _ => false end) && exponent_ok r1
  end.

Definition has_float_char (s : list N) : bool := existsb (fun c => (c =? 46) || is_exp c) s.

Definition num_ok (s : list N) : bool :=
  match s with
  | 48 :: x :: r => if (x =? 120) || (x =? 88) then uint_ok 16 r
                    else if has_float_char s then float_ok s
                    else uint_ok 8 s
  | 48 :: [] => true
  | _ => if has_float_char s then float_ok s
         else forallb is_digit s          (* decimal; too large for uint64 is read as a float *)
  end.

(* skipToEndOfLineComment: up to, not including, the newline; a NUL is an error *)
Fixpoint skip_line (s : list N) : option (list N) :=
  match s with
  | [] => Some []
  | c :: r => if c =? 10 then Some s else if c =? 0 then None else skip_line r
  end.

(* skipToEndOfBlockComment: after the closing star-slash; EOF or NUL is an error *)
Fixpoint skip_block (s : list N) : option (list N) :=
  match s with
  | [] => None
  | c :: r =>
      if c =? 0 then None
      else if c =? 42 then match r with
                           | 47 :: r' => Some r'
                           | _ => skip_block r
                           end
      else skip_block r
  end.

(* the raw text of a string literal: what lex_string_lit consumed *)
Definition read_string (s : list N) : option (list N * list N) :=
  match lex_string_lit s with
  | Some (_, rest) => Some (firstn (length s - length rest) s, rest)
  | None => None
  end.

(* ------------------------------------------------------------------ one round of the loop of Lex *)
(* None: error. Some (None, rest): whitespace or a comment was skipped. Some (Some t, rest): a token *)
Definition lex_one (s : list N) : option (option rtok * list N) :=
  match s with
  | [] => None
  | c :: r =>
      if is_ws c then Some (None, r)
      else if c =? 46 then
        match r with
        | d :: _ => if is_digit d
                    then let (p, rest) := read_number false r in
                         if float_ok (c :: p) then Some (Some (RNum (c :: p)), rest) else None
                    else Some (Some (RSym c), r)
        | [] => Some (Some (RSym c), r)
        end
      else if is_ident_start c then let (p, rest) := span_ident r in Some (Some (RId (c :: p)), rest)
      else if is_digit c then
        let (p, rest) := read_number false r in
        if num_ok (c :: p) then Some (Some (RNum (c :: p)), rest) else None
      else if c =? 34 then
        match read_string s with Some (raw, rest) => Some (Some (RStr raw), rest) | None => None end
      else if c =? 39 then None            (* single-quoted strings: not handled by this model *)
      else if c =? 47 then
        match r with
        | 47 :: r' => match skip_line r' with Some rest => Some (None, rest) | None => None end
        | 42 :: r' => match skip_block r' with Some rest => Some (None, rest) | None => None end
        | _ => Some (Some (RSym c), r)
        end
      else if (c <? 32) || (c =? 127) then None
      else if is_punct c then Some (Some (RSym c), r)
      else None
  end.

Fixpoint lex (fuel : nat) (s : list N) : option (list rtok) :=
  match fuel with
  | O => None
  | S f =>
      match s with
      | [] => Some []
      | _ => match lex_one s with
             | None => None
             | Some (ot, rest) =>
                 match lex f rest with
                 | Some ts => Some (match ot with Some t => t :: ts | None => ts end)
                 | None => None
                 end
             end
      end
  end.

(* every round consumes at least one byte *)
Definition lex_text (s : list N) : option (list rtok) := lex (S (length s)) s.

(* the scanner of the file grammar: raw tokens, then sign + literal as one literal; comments are skipped *)
Definition scan_text (s : list N) : option (list token) :=
  match lex_text s with Some rs => coalesce rs | None => None end.

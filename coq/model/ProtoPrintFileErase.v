(* ProtoPrintFileErase.v — a file without its comments, at the syntactic level (sfile) and at the descriptor
   level (dfile). The character level of C05 (proofs/ProtoPrintFileTextProofs.v) is stated up to comments:
   the lexer model skips them (their attribution to declarations is the parser's source info, which is
   not modelled). No proofs in this file. *)
From Coq Require Import List NArith ZArith Bool.
From J5V.model Require Import ProtoPrintLit ProtoPrint ProtoPrintFile ProtoParseFile.
Import ListNotations.

Definition erase_sfield (f : sfield) : sfield :=
  {| sf_cm := no_cmt; sf_label := sf_label f; sf_type := sf_type f; sf_name := sf_name f; sf_num := sf_num f; sf_opts := sf_opts f |}.
Definition erase_svalue (v : svalue) : svalue :=
  {| sv_cm := no_cmt; sv_name := sv_name v; sv_num := sv_num v; sv_opts := sv_opts v |}.
Definition erase_smethod (m : smethod) : smethod :=
  {| sm_cm := no_cmt; sm_name := sm_name m; sm_in := sm_in m; sm_out := sm_out m; sm_opts := sm_opts m |}.

Fixpoint erase_selem (e : selem) : selem :=
  match e with
  | SField f => SField (erase_sfield f)
  | SOneof _ n o fs => SOneof no_cmt n o (map erase_sfield fs)
  | SMsg _ n o body =>
      SMsg no_cmt n o ((fix go (l : list selem) : list selem := match l with [] => [] | x :: r => erase_selem x :: go r end) body)
  | SEnum _ n o vs => SEnum no_cmt n o (map erase_svalue vs)
  | SService _ n o ms => SService no_cmt n o (map erase_smethod ms)
  end.

Definition erase_sext (x : sext) : sext := {| sx_extendee := sx_extendee x; sx_fields := map erase_sfield (sx_fields x) |}.

Definition erase_sfile (s : sfile) : sfile :=
  {| s_pkg := s_pkg s; s_imports := s_imports s; s_fopts := s_fopts s;
     s_exts := map erase_sext (s_exts s); s_body := map erase_selem (s_body s) |}.

Definition erase_dfield (f : dfield) : dfield :=
  {| f_key := f_key f; f_cm := no_cmt; f_label := f_label f; f_type := f_type f; f_name := f_name f; f_num := f_num f;
     f_json := f_json f; f_opts := f_opts f |}.
Definition erase_dvalue (v : dvalue) : dvalue :=
  {| v_key := v_key v; v_cm := no_cmt; v_name := v_name v; v_num := v_num v; v_opts := v_opts v |}.
Definition erase_dmethod (m : dmethod) : dmethod :=
  {| m_key := m_key m; m_cm := no_cmt; m_name := m_name m; m_in := m_in m; m_out := m_out m; m_opts := m_opts m |}.

Fixpoint erase_delem (e : delem) : delem :=
  match e with
  | DField f => DField (erase_dfield f)
  | DOneof k _ n o fs => DOneof k no_cmt n o (map erase_dfield fs)
  | DMsg k _ n o body =>
      DMsg k no_cmt n o ((fix go (l : list delem) : list delem := match l with [] => [] | x :: r => erase_delem x :: go r end) body)
  | DEnum k _ n o vs => DEnum k no_cmt n o (map erase_dvalue vs)
  | DService k _ n o ms => DService k no_cmt n o (map erase_dmethod ms)
  end.

Definition erase_dfile (d : dfile) : dfile :=
  {| d_pkg := d_pkg d; d_imports := d_imports d; d_fopts := d_fopts d;
     d_exts := map (fun xf => (fst xf, erase_dfield (snd xf))) (d_exts d); d_body := map erase_delem (d_body d) |}.

(* the tokens PrintFile writes, without the comment pseudo tokens *)
Definition print_file_tokens_nc (st : symtab) (d : dfile) : list token := emit_file (erase_sfile (lay_file st d)).

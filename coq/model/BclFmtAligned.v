(* BclFmtAligned.v — boolean conditions on a list of FmtDiffs (line range + text) used by the statement
   "FmtDiffs of formatted text is empty" (proofs/BclFmtDiffsIdemProofs.v) and evaluated by the correspondence
   on the formatter's real outputs (BclFmtCorr.v, case CFormatted).  Definitions only. *)
From Coq Require Import String List NArith ZArith Bool.
From J5V.lib Require Import Text Outcome.
From J5V.model Require Import BclLexer BclParser BclFmt.
Import ListNotations.
Local Open Scope Z_scope.

(* number of lines of a diff's (byte) text *)
Definition fd_nlines (m : fdiff) : Z := Z.of_nat (length (text_lines (utf8_encode (fd_text m)))).

(* the first diff starts on line 0, every diff spans exactly the lines of its text, the next one starts on the
   line where the previous ended or one line later *)
Fixpoint aligned (ms : list fdiff) (first : bool) (le : Z) : bool :=
  match ms with
  | [] => true
  | m :: r =>
    (if first then fd_from m =? 0 else (fd_from m =? le) || (fd_from m =? le + 1))
    && (0 <? fd_nlines m) && (fd_to m =? fd_from m + fd_nlines m)
    && aligned r false (fd_to m)
  end.

(* every diff spans exactly the lines of its own text *)
Definition extent_ok (ms : list fdiff) : bool :=
  forallb (fun m => fd_to m =? fd_from m + fd_nlines m) ms.

(* the condition for a document: the diffs the formatter computes from it *)
Definition extent_ok_of (y : list N) : bool :=
  match collect_fmt (utf8_decode y) with
  | Ok ds => extent_ok ds
  | _ => false
  end.

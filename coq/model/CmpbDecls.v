(* CmpbDecls.v — model of the declaration-level converters that set extensions outside buildField:
   visitEnumNode + enumBuilder.addValue (conversion.go, enum.go) and visitServiceNode +
   visitServiceMethodNode (service.go, with the ensureImport repair), for declarations with ANY number of options / methods.
   Same conventions as CmpbFields.v: proto.SetExtension panics unless the site is well typed
   (value Go type = extension type, destination = extendee; both read from gen/SetExtGen.v), the
   link step needs every extension's file among the imports.  No proofs here.

   Not modelled: names, numbers, comments, the HTTP path rewriting, the request/response objects'
   own fields (they are objects: C07's field model), topics and entities (direct oracle only). *)
From Coq Require Import String List Bool Arith.
From J5V.lib Require Import Outcome.
From J5V.model Require Import CmpbFields.
Import ListNotations.
Local Open Scope bool_scope.

(* what one output file accumulates *)
Record dstate := mkD { d_imps : list imp; d_exts : list ext; d_nerr : nat; d_panic : bool }.
Definition d0 := mkD [] [] 0 false.

Definition ens (i : imp) (s : dstate) : dstate := mkD (add_imp i (d_imps s)) (d_exts s) (d_nerr s) (d_panic s).
Definition set_d (x : site) (s : dstate) : dstate :=
  if site_typed x then mkD (d_imps s) (add_ext (s_ext x) (d_exts s)) (d_nerr s) (d_panic s)
  else mkD (d_imps s) (d_exts s) (d_nerr s) true.
Definition err_d (s : dstate) : dstate := mkD (d_imps s) (d_exts s) (S (d_nerr s)) (d_panic s).

Definition links_d (s : dstate) : bool := forallb (ext_imported (d_imps s)) (d_exts s).
Definition verdict_d (s : dstate) : verdict :=
  if d_panic s then VPanic
  else if Nat.ltb 0 (d_nerr s) then VConvErr
  else if links_d s then VOk else VLinkErr.

(* ---- a top-level enum: `info` field definitions present or not, and per option whether it carries
   info values (visitEnumNode, after the repair 407df61) *)
Record enum_decl := mkEnum { en_info : bool; en_option_infos : list bool }.

Definition compile_enum (e : enum_decl) : dstate :=
  let s1 := if en_info e then set_d st_enum_info (ens IJ5Ext d0) else d0 in
  let s2 := if existsb (fun b : bool => b) (en_option_infos e) then ens IJ5Ext s1 else s1 in
  (* addValue per option: SetExtension(E_EnumValue) when the option has info *)
  fold_left (fun s (b : bool) => if b then set_d st_enum_value s else s) (en_option_infos e) s2.

(* ---- a service (visitServiceNode / visitServiceMethodNode) *)
Inductive http := HGet | HPost | HPut | HPatch | HDelete | HUnspecified.
Record method := mkMethod {
  m_request : bool;          (* method.Request != nil (the front end requires it; the converter checks again) *)
  m_http : http;
  m_raw_response : bool;     (* no response object: OutputType google.api.HttpBody *)
  m_path_params_ok : bool;   (* every :param of the path is a request field *)
  m_options : bool;          (* method.Options != nil *)
  m_list_request : bool      (* method.ListRequest != nil *)
}.
Record service := mkService { sv_methods : list method; sv_options : bool }.

Definition visit_method (s : dstate) (m : method) : dstate :=
  let s := ens IGApiAnnotations s in
  if negb (m_request m) then err_d s                       (* "missing input"; return *)
  else
    let s := if m_raw_response m then ens IGApiHttpBody s else s in
    let s := if m_path_params_ok m then s else err_d s in    (* "missing field %s in request"; continues *)
    match m_http m with
    | HUnspecified => err_d s                               (* "unsupported http method"; return *)
    | _ =>
        let s := set_d st_method_http s in
        let s := if m_options m then set_d st_method_opts (ens IJ5Ext s) else s in
        (* (j5.list.v1.list_request) extends MessageOptions, not MethodOptions: since fix 985f10a a list request
           is reported (addErrorf on the method's node, return) instead of panicking in SetExtension *)
        if m_list_request m then err_d s else s
    end.

(* the request (and response) objects of the methods are emitted into the same file by
   visitObjectNode: ensureImport(j5ExtImport) + SetExtension(E_Message) *)
Definition visit_io_objects (s : dstate) (ms : list method) : dstate :=
  if existsb m_request ms then set_d st_object_msg (ens IJ5Ext s) else s.

Definition compile_service (sv : service) : dstate :=
  let s := fold_left visit_method (sv_methods sv) d0 in
  let s := if sv_options sv then set_d st_service_opts (ens IJ5Ext s) else s in
  visit_io_objects s (sv_methods sv).

(* the documented language for services: every method has a request, an HTTP verb and path
   parameters that exist; options and list requests are optional features *)
Definition method_in_language (m : method) : bool :=
  m_request m && m_path_params_ok m && match m_http m with HUnspecified => false | _ => true end.
Definition service_in_language (sv : service) : bool :=
  match sv_methods sv with [] => false | _ => true end && forallb method_in_language (sv_methods sv).

(* ---- topics (sourcewalk/topic.go acceptTopic + conversion.go visitTopicNode): the messages become
   objects of the topic file; reqres and upsert messages get a required metadata field whose type
   lives in j5/messaging/v1/{reqres,upsert}.proto (an implicit import) *)
Inductive topic := TPublish (messages : nat) | TReqRes (requests replies : nat) | TUpsert | TEvent.

Definition topic_messages (t : topic) : nat :=
  match t with TPublish n => n | TReqRes a b => a + b | TUpsert => 1 | TEvent => 1 end.
Definition topic_has_metadata (t : topic) : bool :=
  match t with TReqRes _ _ | TUpsert => true | _ => false end.
(* a reqres topic is two services (request and reply), each visited like a topic of its own *)
Definition compile_topic (t : topic) : dstate :=
  let has_msgs := Nat.ltb 0 (topic_messages t) in
  let s := if has_msgs then set_d st_object_msg (ens IJ5Ext d0) else d0 in
  (* the metadata field: resolveType imports the type's file; required: validate + j5 ext imports *)
  let s := if has_msgs && topic_has_metadata t then ens IJ5Ext (ens IBufValidate (ens IRefFile s)) else s in
  ens IGEmpty (ens IMsgAnnotations (set_d st_topic_service s)).

(* ---- the shells of objects and oneofs (visitObjectNode / visitOneofNode), without properties *)
Definition compile_object_shell (entity : bool) : dstate :=
  let s := if entity then set_d st_object_psm (ens IJ5Ext d0) else d0 in
  set_d st_object_msg (ens IJ5Ext s).
Definition compile_oneof_shell : dstate := set_d st_oneof_msg (ens IJ5Ext d0).

(* ---- a whole source file: any number of declarations, objects and oneofs with any number of
   properties.  A property's conversion neither reads the file's import list nor the errors recorded so
   far (ensureImport and addError only append), so its contribution to the file is what it contributes
   alone (compile_iso): imports ensured and extensions set when it converts, one recorded error when it
   does not.  Services and topics go to the sub-package files <pkg>/service and <pkg>/topic. *)
Definition merge (a b : dstate) : dstate :=
  mkD (fold_left (fun l i => add_imp i l) (d_imps b) (d_imps a))
      (fold_left (fun l e => add_ext e l) (d_exts b) (d_exts a))
      (d_nerr a + d_nerr b) (d_panic a || d_panic b).

Definition prop_state (p : prop) : dstate :=
  let o := compile_iso p in
  match o_verdict o with
  | VPanic => mkD [] [] 0 true
  | VConvErr => mkD [] [] (iso_nerr p) false
  | _ => mkD (o_imps o) (o_exts o) 0 false
  end.

Inductive decl :=
| DObject (entity : bool) (props : list prop)
| DOneof (props : list prop)
| DEnum (e : enum_decl)
| DService (sv : service)
| DTopic (t : topic).

Definition decl_state (d : decl) : dstate :=
  match d with
  | DObject entity props => fold_left (fun s p => merge s (prop_state p)) props (compile_object_shell entity)
  | DOneof props => fold_left (fun s p => merge s (prop_state p)) props compile_oneof_shell
  | DEnum e => compile_enum e
  | DService sv => compile_service sv
  | DTopic t => compile_topic t
  end.
Inductive target := FMain | FService | FTopic.
Definition decl_target (d : decl) : target :=
  match d with DService _ => FService | DTopic _ => FTopic | _ => FMain end.
Definition target_eqb (a b : target) : bool :=
  match a, b with FMain, FMain | FService, FService | FTopic, FTopic => true | _, _ => false end.

(* the state of one output file of a source file *)
Definition file_state (t : target) (ds : list decl) : dstate :=
  fold_left (fun s d => if target_eqb (decl_target d) t then merge s (decl_state d) else s) ds d0.
(* ConvertJ5File fails as a whole when any declaration recorded an error; otherwise each output links or not *)
Definition file_nerr (ds : list decl) : nat := d_nerr (file_state FMain ds) + d_nerr (file_state FService ds) + d_nerr (file_state FTopic ds).
Definition file_panics (ds : list decl) : bool := d_panic (file_state FMain ds) || d_panic (file_state FService ds) || d_panic (file_state FTopic ds).
Definition file_verdict (ds : list decl) : verdict :=
  if file_panics ds then VPanic
  else if Nat.ltb 0 (file_nerr ds) then VConvErr
  else if links_d (file_state FMain ds) && links_d (file_state FService ds) && links_d (file_state FTopic ds) then VOk
  else VLinkErr.

Definition decl_has_list_request (d : decl) : bool :=
  match d with DService sv => existsb m_list_request (sv_methods sv) | _ => false end.
(* the documented language, per declaration: every property / method in the language, none of the two
   recorded gaps *)
Definition prop_accepted (p : prop) : bool :=
  in_language p && negb (uses_float_rules p).
Definition decl_in_language (d : decl) : bool :=
  match d with
  | DObject _ props | DOneof props => forallb prop_accepted props
  | DEnum _ | DTopic _ => true
  | DService sv => service_in_language sv
  end.

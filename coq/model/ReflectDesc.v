(* ReflectDesc.v — abstract linked proto3 descriptor sets, as the reader in
   lib/j5schema/schema_from_proto.go sees them through protoreflect:
   messages (flat list keyed by full name, with package and the path of names
   from the outermost message: splitDescriptorName), fields with kind, cardinality,
   containing oneof, referenced type, and the option extensions the reader looks at
   ((buf.validate.field), (j5.list.v1.field), (j5.ext.v1.field|key|message|psm|oneof|enum|
   enum_value)) as typed trees that need not be consistent with the field.
   Strings are byte lists.  No proofs here. *)
From Coq Require Import List NArith ZArith Bool.
Import ListNotations.

Definition str := list N.
Definition tok := N.   (* payload copied through by the reader (list rules, ext, entity refs, object / oneof rules): the exact
                          bytes of the message as one natural number (harness/descgen Tok: type name + deterministic encoding) *)

Inductive kind :=
| KBool | KEnum | KInt32 | KSint32 | KUint32 | KInt64 | KSint64 | KUint64
| KSfixed32 | KFixed32 | KFloat | KSfixed64 | KFixed64 | KDouble
| KString | KBytes | KMessage | KGroup
| KInvalid.   (* protoreflect.Kind(0): the zero value a ScalarSchema carries when the reader leaves Kind unset *)

(* ---- (buf.validate.field) ------------------------------------------------ *)
(* lt / gt are exclusive, lte / gte inclusive; BOther: a member of the oneof the reader has no arm for *)
Inductive bound := BNone | BExcl (v : Z) | BIncl (v : Z) | BOther.
(* numeric rules: presence of const / in / not_in, and the two bound oneofs.
   Values are already widened the way the reader does it (int64(v), float64(v) as IEEE bits). *)
Inductive numrules := NumRules (has_const has_in has_notin : bool) (lt gt : bound).
Inductive wellknown :=
| WkNone | WkUuid (b : bool) | WkEmail (b : bool) | WkHostname (b : bool)
| WkIpv4 (b : bool) | WkIpv6 (b : bool) | WkUri (b : bool) | WkOther.
Inductive strrules := StrRules (minlen maxlen : option N) (pattern : option str) (wk : wellknown).
(* timestamp bounds carry (seconds, nanos) *)
Inductive tbound := TBNone | TBExcl (s n : Z) | TBIncl (s n : Z) | TBOther.
Inductive vty :=
| VNone
| VFloat (r : numrules) | VDouble (r : numrules)
| VInt32 (r : numrules) | VInt64 (r : numrules) | VUint32 (r : numrules) | VUint64 (r : numrules)
| VBool (const : option bool)
| VString (r : strrules)
| VEnum (in_ notin : list Z)
| VTimestamp (has_const has_within : bool) (lt gt : tbound)
| VRepeated (minitems maxitems : option N) (unique : option bool) (items : option fcon)
| VMap (minpairs maxpairs : option N) (values : option fcon)
| VBytes (minlen maxlen : option N)
| VOther     (* sint*, fixed*, any, duration: types the reader never asks for *)
with fcon := FCon (required : option bool) (ignore : option N) (ty : vty).

(* ---- (j5.list.v1.field) --------------------------------------------------- *)
Inductive lstr :=
| LSNone | LSOpenText (t : tok) | LSDate
| LSFkNone | LSFkUnique (t : tok) | LSFkUuid (t : tok) | LSFkId62 (t : tok).
Inductive lty :=
| LNone | LBool (t : tok) | LInt32 (t : tok) | LUint32 (t : tok) | LInt64 (t : tok) | LUint64 (t : tok)
| LFloat (t : tok) | LDouble (t : tok) | LTimestamp (t : tok) | LDate (t : tok) | LDecimal (t : tok)
| LAny (t : tok) | LEnum (t : tok) | LOneof (t : tok) | LString (s : lstr)
| LOther.   (* fixed*, sfixed*, sint* *)

(* ---- (j5.ext.v1.field), (j5.ext.v1.key) ----------------------------------- *)
Inductive strbounds := StrBounds (minimum maximum : option str) (exmin exmax : option bool).
Inductive keyopt := KeyTypeNone | KeyPattern (p : str) | KeyFormat (f : N). (* 0 unspecified, 2 uuid, 3 id62 *)
Inductive j5ty :=
| JNone | JMessage (flatten : bool) | JObject (flatten : bool)
| JArray (single : option str) | JMap (single : option str)
| JDate (rules : option strbounds) | JDecimal (rules : option strbounds) | JKey (k : keyopt) | JAny (only_defined : bool) (types : list str)
| JOther.
Inductive psmkey := PsmKey (primary : bool) (foreign : option tok) (tenant : option str).

Inductive fopts := FOpts (validate : option fcon) (lst : option lty) (j5 : option j5ty) (key : option psmkey).

(* ---- fields ---------------------------------------------------------------- *)
Inductive card := CSingle | COptional (* proto3 optional *) | CRepeated | CMap (keykind : kind).
Inductive tyref := TNone | TMsg (full : str) | TEnum (full : str).
(* for a map field [kind]/[ty] describe the map *value* field *)
(* [descr] is the description the reader derives from the source comments (buildComment) *)
Inductive field := Fld (name json : str) (num : N) (k : kind) (c : card) (oneof : option N) (ty : tyref) (o : fopts) (descr : str).

Definition f_name f := match f with Fld n _ _ _ _ _ _ _ _ => n end.
Definition f_json f := match f with Fld _ j _ _ _ _ _ _ _ => j end.
Definition f_num f := match f with Fld _ _ n _ _ _ _ _ _ => n end.
Definition f_kind f := match f with Fld _ _ _ k _ _ _ _ _ => k end.
Definition f_card f := match f with Fld _ _ _ _ c _ _ _ _ => c end.
Definition f_oneof f := match f with Fld _ _ _ _ _ o _ _ _ => o end.
Definition f_ty f := match f with Fld _ _ _ _ _ _ t _ _ => t end.
Definition f_opts f := match f with Fld _ _ _ _ _ _ _ o _ => o end.
Definition f_descr f := match f with Fld _ _ _ _ _ _ _ _ d => d end.

(* oneof: name, lowerCamel name as strcase.ToLowerCamel computes it, synthetic?, (j5.ext.v1.oneof): None | Some expose *)
Inductive oneofd := Oneof (name jname : str) (synthetic : bool) (ext : option bool) (descr : str).

Inductive msgtype := MTNone | MTObject (any_member : list str) | MTOneof.
Inductive msgopt := MsgOpt (is_oneof_wrapper : bool) (t : msgtype).
Inductive psmopt := PsmOpt (entity : str) (part : option N).

(* message: full name, package, path of names (outermost first), fields, oneofs, options *)
Inductive msgd := Msg (full pkg : str) (path : list str) (fields : list field) (oneofs : list oneofd)
                      (mo : option msgopt) (psm : option psmopt) (descr : str).
Definition m_full m := match m with Msg f _ _ _ _ _ _ _ => f end.
Definition m_pkg m := match m with Msg _ p _ _ _ _ _ _ => p end.
Definition m_path m := match m with Msg _ _ p _ _ _ _ _ => p end.
Definition m_fields m := match m with Msg _ _ _ f _ _ _ _ => f end.
Definition m_oneofs m := match m with Msg _ _ _ _ o _ _ _ => o end.
Definition m_opt m := match m with Msg _ _ _ _ _ o _ _ => o end.
Definition m_psm m := match m with Msg _ _ _ _ _ _ p _ => p end.
Definition m_descr m := match m with Msg _ _ _ _ _ _ _ d => d end.

(* enum value: name, number, (j5.ext.v1.enum_value).info (None when the extension or the map is absent; sorted by key) *)
Inductive enumval := EnumVal (name : str) (num : Z) (info : option (list (str * str))) (descr : str).
Inductive enumopt := EnumOpt (no_default : bool) (info_fields : list (str * str * str)).
Inductive enumd := Enum (full pkg : str) (path : list str) (values : list enumval) (eo : option enumopt) (descr : str).
Definition e_full e := match e with Enum f _ _ _ _ _ => f end.
Definition e_pkg e := match e with Enum _ p _ _ _ _ => p end.
Definition e_path e := match e with Enum _ _ p _ _ _ => p end.

(* file: path, package, top-level messages and enums (full names, declaration order) *)
Inductive filed := File (path pkg : str) (msgs enums : list str).

Record desc := { d_msgs : list msgd; d_enums : list enumd; d_files : list filed }.

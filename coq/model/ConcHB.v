(* ConcHB.v — the fragment of the Go memory model (go.dev/ref/mem, version of June 6, 2022) that
   the C10 statements use, as an inductive definition over the event traces of ConcRace.v.

   Go: "The happens before relation is defined as the transitive closure of the union of the
   sequenced before and synchronized before relations."
     sequenced before      — program order inside one goroutine: [hb_po];
     synchronized before   — for a sync.Mutex l and n < m, call n of l.Unlock() is synchronized
                             before call m of l.Lock() returns: [hb_mutex] (the trace lists the
                             operations on the ONE mutex sc.mu in the order they took effect, so
                             "n < m" is "earlier in the trace");
     transitive closure    — [hb_trans].
   Not in the fragment because no modelled site uses them: channel send/receive/close, sync.Once,
   sync.WaitGroup/Cond/Map/Pool, atomics (lib/j5schema, lib/j5reflect, internal/codec, lib/j5codec use
   none of them: the only synchronisation objects they declare are SchemaCache.mu and the two
   sync.Mutex fields mutableArrayField.lock / leafArrayField.lock of lib/j5reflect, which guard the
   list value of the one message a call is decoding — objects of that call, not reachable from a
   shared root: census, ConcState.holders_hold_only_the_cache / shared_type_ok), goroutine start and
   exit (the machine's threads are the callers' goroutines: nothing about how they were started is
   used).
   An RWMutex would add "RUnlock n synchronized before Lock m" and "Unlock n before RLock m";
   the cache has a plain Mutex (ConcSites.cache_has_mutex, checked on the regenerated table).

   A data race (Go: "a write to a memory location happening concurrently with another read or
   write to that same location"; concurrent = neither happens before the other) on the trace:
   two conflicting accesses at positions i < j without hb i j (hb j i is impossible: [hb] only
   relates earlier to later positions, ConcHBProofs.hb_lt).

   No proofs in this file. *)
From Coq Require Import List NArith Bool Arith.
From J5V.model Require Import Conc ConcRace.
Import ListNotations.

Inductive hb (tr : list event) : nat -> nat -> Prop :=
| hb_po : forall i j ei ej, i < j -> nth_error tr i = Some ei -> nth_error tr j = Some ej ->
                            ev_tid ei = ev_tid ej -> hb tr i j
| hb_mutex : forall r a t u, r < a -> nth_error tr r = Some (ERel t) -> nth_error tr a = Some (EAcq u) ->
                             hb tr r a
| hb_trans : forall i j k, hb tr i j -> hb tr j k -> hb tr i k.

(* data-race freedom against THAT definition *)
Definition drf (tr : list event) : Prop :=
  forall i j e1 e2, i < j -> nth_error tr i = Some e1 -> nth_error tr j = Some e2 ->
    conflict e1 e2 -> hb tr i j.

(* the memory-level statement of C10 against the inductive happens-before *)
Definition C10_drf_statement (d : disc) : Prop :=
  forall pk k g calls sched, calls_ok calls ->
    drf (events d pk k g calls sched) /\ write_once (events d pk k g calls sched).

Definition no_acquire (tr : list event) : bool :=
  forallb (fun e => match e with EAcq _ => false | _ => true end) tr.

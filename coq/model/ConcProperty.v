(* ConcProperty.v — property C10 as ONE statement over every type set protobuf allows (two descriptors may
   share a cache key), for a locking discipline d and a treatment pol of a foreign cache hit.
   No proofs in this file. *)
From Coq Require Import List NArith Bool Arith.
From J5V.model Require Import Conc ConcKey ConcRace ConcHB ConcStatement.
Import ListNotations.

Definition C10_property (pol : hitpol) (d : disc) : Prop :=
  (* each completed call returns what it returns alone — for EVERY key function, every universe, call list, schedule *)
  C10_keyed_statement pol d /\
  (* results, no deadlock, completion under weak fairness, one object per type, linked for good; race freedom of the
     events and write-once (the machine of Conc.v: the keyed machine at an injective key) *)
  C10_full_statement d /\
  (* data-race freedom against the inductive happens-before *)
  C10_drf_statement d.

(* what remains true: the first clause restricted to type sets without shared keys *)
Definition C10_property_collision_free (pol : hitpol) (d : disc) : Prop :=
  (forall key, key_injective key -> forall k g calls, calls_ok calls -> C10_keyed_results pol d key k g calls) /\
  C10_full_statement d /\
  C10_drf_statement d.

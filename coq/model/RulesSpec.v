(* RulesSpec.v — what a j5s property declaration SAYS about the value of its
   compiled field: a declarative specification (Prop), written from the rule
   vocabulary of proto/j5/j5/schema/v1/schema.proto (JSON-Schema names:
   minimum / maximum / exclusiveMinimum / exclusiveMaximum, minLength /
   maxLength / pattern, minItems / maxItems / uniqueItems, minPairs / maxPairs,
   in / notIn, const, required) and the README.
   It imports neither the writer model nor the validator model and calls no
   function of either: quantifiers, list membership, NoDup-style pairwise
   statements and arithmetic comparisons only.

   Units and conventions fixed here (they are the content of the property):
   * a string value is its sequence of Unicode code points; minLength /
     maxLength count code points ("characters"), not UTF-8 bytes;
   * bytes lengths count bytes;
   * minimum / maximum are inclusive unless the matching exclusive flag is true;
   * minItems / maxItems / minPairs / maxPairs count items / pairs;
   * uniqueItems = true: no two items at different positions are the same value
     (floats compare as numbers: +0 and -0 are the same, NaN is the same as nothing);
   * an enum value (a number on the wire) is named by option i (1-based, in
     declaration order) when it is i; 0 is <prefix>UNSPECIFIED, nameable only
     when the enum declares it explicitly as its first option; a rule may name
     an option with or without the enum's prefix;
   * key:uuid = the canonical text 8-4-4-4-12 of hexadecimal digits; key:id62 =
     22 characters of 0-9 A-Z a-z; key:custom / pattern = the (RE2) pattern finds
     a match somewhere in the text ([pat_sem]: a parameter here; instantiated in
     props/C12.v with the declarative matching relation of model/Regex.v);
   * required: the field must be populated. Presence is protobuf's: a singular
     scalar declared without [optional] has no presence of its own, it is
     populated iff its value is not the default (0, "", false, first enum value);
   * entity.primaryKey = true on a singular key property makes it required
     (fields.go: "a primary key is required, we don't support partial primary keys"). *)
From Coq Require Import String List NArith ZArith Bool.
From J5V.model Require Import RulesDecl.
Import ListNotations.
Local Open Scope Z_scope.

(* ---- numbers ---------------------------------------------------------------- *)
Definition flag_set (o : option bool) : Prop := o = Some true.

Definition int_sem (r : int_rules) (z : Z) : Prop :=
  (forall m, ir_min r = Some m -> (flag_set (ir_xmin r) -> m < z) /\ (~ flag_set (ir_xmin r) -> m <= z)) /\
  (forall m, ir_max r = Some m -> (flag_set (ir_xmax r) -> z < m) /\ (~ flag_set (ir_xmax r) -> z <= m)).

(* ---- lengths and counts ------------------------------------------------------ *)
Definition count {A} (l : list A) : N := N.of_nat (length l).

Definition within (lo hi : option N) (n : N) : Prop :=
  (forall m, lo = Some m -> (m <= n)%N) /\ (forall m, hi = Some m -> (n <= m)%N).

Section Spec.
(* [pat_sem p s]: the regular expression p (RE2 syntax) finds a match in the text s *)
Variable pat_sem : str -> str -> Prop.

Definition str_sem (r : str_rules) (s : str) : Prop :=
  within (sr_min r) (sr_max r) (count s)          (* s: code points *)
  /\ (forall p, sr_pat r = Some p -> pat_sem p s).

Definition bytes_sem (r : len_rules) (b : str) : Prop :=
  within (lr_min r) (lr_max r) (count b).         (* b: bytes *)

(* ---- enums ------------------------------------------------------------------- *)
(* the full value name a (short or prefixed) option name stands for *)
Definition full_name (env : enum_env) (name full : str) : Prop :=
  ((exists rest, name = ee_prefix env ++ rest) /\ full = name) \/
  ((~ exists rest, name = ee_prefix env ++ rest) /\ full = ee_prefix env ++ name).

(* the number n is the value the option name [name] denotes *)
Definition names_value (env : enum_env) (name : str) (n : Z) : Prop :=
  (exists i o f, nth_error (ee_options env) i = Some o /\ n = Z.of_nat (S i)
                 /\ full_name env o f /\ full_name env name f)
  \/ (n = 0 /\ exists z f, ee_zero env = Some z /\ full_name env z f /\ full_name env name f).

Definition defined_value (env : enum_env) (n : Z) : Prop :=
  n = 0 \/ exists i o, nth_error (ee_options env) i = Some o /\ n = Z.of_nat (S i).

Definition enum_sem (env : enum_env) (r : option enum_rules) (n : Z) : Prop :=
  defined_value env n /\
  match r with
  | None => True
  | Some r =>
      (er_in r <> [] -> exists name, In name (er_in r) /\ names_value env name n) /\
      (forall name, In name (er_notin r) -> ~ names_value env name n)
  end.

(* ---- key formats --------------------------------------------------------------- *)
Definition hex_digit (c : N) : Prop :=
  (48 <= c <= 57)%N \/ (65 <= c <= 70)%N \/ (97 <= c <= 102)%N.
Definition alnum (c : N) : Prop :=
  (48 <= c <= 57)%N \/ (65 <= c <= 90)%N \/ (97 <= c <= 122)%N.

Definition uuid_text (s : str) : Prop :=
  exists a b c d e,
    s = a ++ [45%N] ++ b ++ [45%N] ++ c ++ [45%N] ++ d ++ [45%N] ++ e
    /\ length a = 8%nat /\ length b = 4%nat /\ length c = 4%nat /\ length d = 4%nat /\ length e = 12%nat
    /\ Forall hex_digit (a ++ b ++ c ++ d ++ e).

Definition id62_text (s : str) : Prop := length s = 22%nat /\ Forall alnum s.

Definition key_sem (f : kfmt) (s : str) : Prop :=
  match f with
  | KInformal => True
  | KCustom p => pat_sem p s
  | KUuid => uuid_text s
  | KId62 => id62_text s
  end.

(* ---- one value against its field type ------------------------------------------- *)
Definition ty_sem (env : enum_env) (t : fty) (v : value) : Prop :=
  match t, v with
  | TInt _ (Some r) _, VInt z => int_sem r z
  | TStr _ (Some r) _, VStr s => str_sem r s
  | TBytes (Some r), VBytes b => bytes_sem r b
  | TBool (Some (Some c)) _, VBool b => b = c
  | TEnum r _, VEnum n => enum_sem env r n
  | TKey (Some f) _ _, VStr s => key_sem f s
  | _, _ => True
  end.

(* ---- uniqueness -------------------------------------------------------------------- *)
(* float bit patterns: NaN = exponent all ones and a non-zero fraction; zero = +0 or -0 *)
Definition float_nan (x : N) : Prop := (9218868437227405312 < x mod 9223372036854775808)%N.
Definition float_zero (x : N) : Prop := (x mod 9223372036854775808 = 0)%N.
Definition same_number (x y : N) : Prop :=
  ~ float_nan x /\ ~ float_nan y /\ (x = y \/ (float_zero x /\ float_zero y)).

Definition same_item (a b : value) : Prop :=
  match a, b with
  | VFloat x, VFloat y => same_number x y
  | _, _ => a = b
  end.

(* no two items at different positions are the same *)
Definition all_different (vs : list value) : Prop :=
  forall i j a b, (i < j)%nat -> nth_error vs i = Some a -> nth_error vs j = Some b -> ~ same_item a b.

Definition arr_sem (r : arr_rules) (vs : list value) : Prop :=
  within (ar_min r) (ar_max r) (count vs) /\ (flag_set (ar_uniq r) -> all_different vs).

Definition map_sem (r : map_rules) (kvs : list (str * value)) : Prop :=
  within (mr_min r) (mr_max r) (count kvs).

(* ---- presence --------------------------------------------------------------------- *)
Definition message_typed (t : fty) : Prop :=
  match t with
  | TDate _ _ | TDecimal _ _ | TTimestamp _ _ | TAny _ _ _ | TObject _ _ _ | TOneof _ _ _ => True
  | _ => False
  end.

(* the compiled singular field can tell "not set" from its default value *)
Definition own_presence (d : prop) (t : fty) : Prop := p_opt d = true \/ message_typed t.

Definition default_value (v : value) : Prop :=
  match v with
  | VInt z => z = 0
  | VStr s => s = []
  | VBytes b => b = []
  | VBool b => b = false
  | VEnum n => n = 0
  | VFloat x => x = 0%N          (* +0; -0 is a set value *)
  | VMsg _ => False
  end.

Definition primary_key (t : fty) : Prop :=
  match t with
  | TKey _ (Some e) _ => ek_type e = Some (EPrimary true)
  | _ => False
  end.

Definition must_be_set (d : prop) : Prop :=
  p_req d = true \/ match p_ty d with PSingle t => primary_key t | _ => False end.

(* ---- a property ------------------------------------------------------------------------ *)
Definition rule_sem (env : enum_env) (d : prop) (fv : fvalue) : Prop :=
  match p_ty d, fv with
  | PSingle t, FAbsent => ~ must_be_set d
  | PSingle t, FOne v =>
      (must_be_set d -> own_presence d t \/ ~ default_value v) /\ ty_sem env t v
  | PArray r _ t, FMany vs =>
      (must_be_set d -> vs <> []) /\
      (forall r', r = Some r' -> arr_sem r' vs) /\
      Forall (ty_sem env t) vs
  | PMap r t, FMap kvs =>
      (must_be_set d -> kvs <> []) /\
      (forall r', r = Some r' -> map_sem r' kvs) /\
      Forall (fun kv => ty_sem env t (snd kv)) kvs
  | _, _ => True
  end.

(* a message: every property on its own (j5s has no cross-field rules) *)
Definition rule_obj (env : enum_env) (ds : list prop) (fvs : list fvalue) : Prop :=
  Forall2 (rule_sem env) ds fvs.

End Spec.

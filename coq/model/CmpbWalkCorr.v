(* CmpbWalkCorr.v — correspondence for the walker model (model/CmpbWalk.v, CmpbWalkFile.v): what
   j5parse.ParseFile did on a source text against the model run on the same bytes (C11's parser model, then
   [j5s_walk]).  Compared: file / errors; for a file the WHOLE location tree (every path with its span) and the
   kind and size of every top-level declaration; for errors the stage (parser or not) and the positions.
   A text the model declares outside itself ([Err E_UNMODELLED]) passes: the classes are listed in CmpbWalk.v. *)
From Coq Require Import String List NArith ZArith Bool.
From J5V.lib Require Import Text Outcome Corr.
From J5V.model Require Import BclLexer BclParser CmpbFields CmpbDecls CmpbFront CmpbWalk CmpbWalkFile.
Import ListNotations.
Local Open Scope bool_scope.

Definition wspan_eqb (a b : span) : bool := pos_eqb (fst a) (fst b) && pos_eqb (snd a) (snd b).

Inductive walk_obs :=
| WObsFile (locs : list (list string * span)) (decls : list (N * N))   (* pre-order location tree; (kind, size) per element *)
| WObsErrs (from_parser : bool) (es : list span).

Inductive cwalk_case :=
| CWalk (input : list N) (o : walk_obs)
(* the file compiled ALONE as a package of its own (CompilePackage): accepted or not; when it failed in the conversion
   stage, the positions of the conversion errors.  Against the whole front end with the walker model inside and the
   file-alone resolver: one direction only (the converter model abstracts names and values, the real converter
   rejects more): what the model rejects the compiler rejects, every conversion error of the model is among the
   compiler's, at the same position; hence what the compiler accepts the model accepts *)
| CFull (input : list N) (accepted conv_stage : bool) (es : list span).

Fixpoint flatten_loc (p : list string) (t : loc) : list (list string * span) :=
  match t with
  | Loc sp cs => (p, sp) :: (fix go (cs : list (string * loc)) : list (list string * span) :=
                               match cs with
                               | [] => []
                               | (k, c) :: r => flatten_loc (p ++ [k]) c ++ go r
                               end) cs
  end.

Definition entry_eqb (a b : list string * span) : bool := path_eqb (fst a) (fst b) && wspan_eqb (snd a) (snd b).
Definition same_entries (a b : list (list string * span)) : bool :=
  Nat.eqb (length a) (length b) && forallb (fun x => existsb (entry_eqb x) b) a && forallb (fun x => existsb (entry_eqb x) a) b.
Fixpoint remove_span (x : span) (l : list span) : option (list span) :=
  match l with
  | [] => None
  | y :: r => if wspan_eqb x y then Some r else match remove_span x r with Some r' => Some (y :: r') | None => None end
  end.
Fixpoint same_spans (a b : list span) : bool :=
  match a with
  | [] => match b with [] => true | _ => false end
  | x :: r => match remove_span x b with Some b' => same_spans r b' | None => false end
  end.

(* kind and size of a declaration: 0 object / 1 oneof (properties), 2 enum (options), 3 service (methods), 4 topic (messages) *)
Definition decl_summary (d : ldecl) : N * N :=
  match d with
  | LObject _ _ ps => (0%N, N.of_nat (length ps))
  | LOneof _ ps => (1%N, N.of_nat (length ps))
  | LEnum _ e => (2%N, N.of_nat (length (en_option_infos e)))
  | LService _ _ ms => (3%N, N.of_nat (length ms))
  | LTopic _ t => (4%N, N.of_nat (topic_messages t))
  end.
Definition pair_eqb (a b : N * N) : bool := N.eqb (fst a) (fst b) && N.eqb (snd a) (snd b).

Definition cwalk_check (c : cwalk_case) : bool :=
  match c with
  | CFull input accepted conv_stage es =>
      match front_end j5s_walk_alone true input with
      | Ok (FEConverted v _) => match v with VOk => true | _ => false end
      | Ok (FEErrors SConvert ms) =>
          negb accepted && (negb conv_stage || forallb (fun m => existsb (wspan_eqb m) es) ms)
      | Ok (FEErrors _ _) => negb accepted
      | Err _ => true
      | _ => false
      end
  | CWalk input o =>
      match parse_file input true with
      | Ok p =>
          match pdiags p, ptree p with
          | _ :: _, _ => match o with WObsErrs true _ => true | _ => false end
          | [], Some body =>
              match j5s_walk resolve_none body with
              | Ok (WalkFile t lf) =>
                  match o with
                  | WObsFile locs decls => same_entries (flatten_loc [] t) locs && list_eqb pair_eqb (map decl_summary lf) decls
                  | _ => false
                  end
              | Ok (WalkErrs es) =>
                  match o with
                  | WObsErrs false es' => same_spans es es'
                  | _ => false
                  end
              | Err _ => true
              | _ => false
              end
          | [], None => false
          end
      | _ => false
      end
  end.

(* BclToFile.v — fragmentsToFile with Go's index expression made explicit.
   BclParser.fragments_to_file totalises `lastFragment := fragments[len(fragments)-1]`
   (parser.go, after the loop, reached when a block is still open) with `last ... None => errs`.
   Here the same function returns an outcome and the empty-slice index is a Panic, as in Go;
   proofs/BclToFileProofs.v shows the Panic arm is never taken and the two functions agree, so
   the totalised arm of BclParser.fragments_to_file is dead code, not a hidden panic.
   No proofs here. *)
From Coq Require Import String List NArith ZArith Bool.
From J5V.lib Require Import Text Outcome.
From J5V.model Require Import BclLexer BclParser.
Import ListNotations.

(* fragments[len(fragments)-1] *)
Definition go_last {A} (l : list A) : outcome A :=
  match last (map Some l) None with
  | Some x => Ok x
  | None => Panic "index out of range [-1] (fragmentsToFile: fragments[len(fragments)-1])"
  end.

Definition fragments_to_file_go (fs : list fragment) : outcome (list stmt * list diag) :=
  let '(cur, stack, errs) := to_file_loop fs [] [] [] in
  match stack with
  | [] => Ok (unwind cur stack, errs)
  | _ => obind (go_last fs) (fun lf =>
           Ok (unwind cur stack, errs ++ [mkDiag (frag_start lf) (frag_end lf) msg_unclosed]))
  end.

(* EntityStrcaseCorr.v — correspondence cases for lib/Strcase.v: what the real
   github.com/iancoleman/strcase v0.3.0 returned for an input, checked against the
   model by vm_compute (pseudo-property stream "strcase", part of C17's check). *)
From Coq Require Import List NArith Bool.
From J5V.lib Require Import Corr Strcase.
Import ListNotations.
Local Open Scope N_scope.

Inductive strcase_case :=
| SC (s snake screaming camel lower_camel kebab : list N).

Definition strcase_check (c : strcase_case) : bool :=
  match c with
  | SC s sn sc ca lc kb =>
      nlist_eqb (to_snake s) sn && nlist_eqb (to_screaming_snake s) sc
      && nlist_eqb (to_camel s) ca && nlist_eqb (to_lower_camel s) lc
      && nlist_eqb (to_kebab s) kb
  end.

(* J5sRefSpec.v — when a type reference is valid, stated on the source without the model's
   resolver: README "Packages and Imports" + imports.go implicitImports.
     * a reference without package prefix, or prefixed with the file's own package, names a
       declaration of that name (and of the wanted kind) of the own package;
     * a reference prefixed with the full name of a well-known package names one of the
       implicitly importable types (no import line needed);
     * any other prefix must be one an import line of the file can be written with (alias;
       full package name; package name without version; package of an imported file) - when
       several import lines claim the prefix, the LAST one counts - and the reference names
       the implicitly importable type of that name in the imported package, or else a
       declaration of that name and kind among its exports.
   Definitions only; J5sRefSpecProofs: J5sValid.ref_is (which runs the model's resolver) holds
   exactly when [ref_declared] does. *)
From Coq Require Import String List NArith Bool.
From J5V.lib Require Import Outcome.
From J5V.model Require Import J5sAst Desc J5sWalk J5sLink J5sContract.
Import ListNotations.
Local Open Scope N_scope.

(* the prefix [spec] can be written for import line [i] (boolean form of J5sContract.import_key) *)
Definition import_key_b (i : import) (spec : str) : bool :=
  if existsb (fun c => c =? 47) (i_path i) then str_eqb spec (package_from_filename (i_path i))
  else match i_alias i with
       | _ :: _ => str_eqb spec (i_alias i)
       | [] => str_eqb spec (i_path i) ||
               match last_but_one (i_path i) with Some w => str_eqb spec w | None => false end
       end.

(* the last import line that claims the prefix *)
Definition import_for (imports : list import) (spec : str) : option import :=
  find (fun i => import_key_b i spec) (rev imports).

Definition implicit_type (pkg name : str) : Prop := exists file, In (pkg, name, file) implicit_table.

Definition declared_in (exports : str -> option (list typeref)) (pkg name : str) (want_enum : bool) : Prop :=
  exists ex t, exports pkg = Some ex /\ In t ex /\ tr_name t = name /\ tr_enum t = want_enum.

Definition is_own (this spec : str) : Prop := spec = [] \/ spec = this.

Definition ref_declared (this : str) (imports : list import) (exports : str -> option (list typeref))
           (r : ref) (want_enum : bool) : Prop :=
  (is_own this (r_pkg r) /\ declared_in exports this (r_name r) want_enum) \/
  (~ is_own this (r_pkg r) /\ implicit_type (r_pkg r) (r_name r) /\ want_enum = false) \/
  (~ is_own this (r_pkg r) /\ ~ implicit_type (r_pkg r) (r_name r) /\
   exists i, import_for imports (r_pkg r) = Some i /\
     ((implicit_type (import_pkg i) (r_name r) /\ want_enum = false) \/
      (~ implicit_type (import_pkg i) (r_name r) /\ declared_in exports (import_pkg i) (r_name r) want_enum))).

(* ProtoPrintFileCorr.v — correspondence cases for the file layer of C05.
   One case = one file descriptor fd the real printer printed:
     d      the descriptor as the printer walks it (harness: protoreflect -> dfile, no decisions taken),
     toks   the text PrintFile(fd) tokenised by the protocompile lexer (ast.FileNode.Tokens), with the
            comments protocompile attributes to declarations in front of their first token,
     d2     the descriptor protocompile builds from that text,
     toks2  the text PrintFile(d2), tokenised the same way,
     imp    the types and packages of the files imported.
   Checked: the model printer writes the real tokens (both prints); the model parser reads the real
   tokens back as a descriptor with the content of the real re-parsed one (keys and list orders aside);
   both real descriptors satisfy the hypotheses of the file theorem (wf_dfile_b: they are inside
   C05_token_roundtrip) and their json names / file option strings are plain text (where the model's quoting is
   the code's strconv.Quote / raw writing). *)
From Coq Require Import String List NArith ZArith Bool.
From J5V.lib Require Import Outcome Corr.
From J5V.model Require Import ProtoPrintLit ProtoPrint ProtoLex ProtoLayout ProtoPrintCorr ProtoPrintFile ProtoParseFile ProtoPrintFileWf ProtoPrintFileErase ProtoPrintFileX.
Import ListNotations.
Local Open Scope N_scope.
Local Open Scope bool_scope.

(* a token as the lexer delivers it: identifier, numeric literal, string literal (raw text), punctuation *)
(* ------------------------------------------------------------------ content of a descriptor *)
Definition cmt_eqb (a b : cmt) : bool :=
  list_eqb bytes_eqb (c_det a) (c_det b) && bytes_eqb (c_lead a) (c_lead b).
Definition label_eqb (a b : label) : bool :=
  match a, b with LNone, LNone | LRepeated, LRepeated | LOptional, LOptional => true | _, _ => false end.
Definition pn_eqb (a b : printed_name) : bool :=
  Bool.eqb (pn_abs a) (pn_abs b) && qname_eqb (pn_name a) (pn_name b).
Definition dvt_eqb (a b : dvt) : bool :=
  match a, b with
  | DScalar x, DScalar y => ident_eqb x y
  | DRef p q, DRef p' q' => qname_eqb p p' && qname_eqb q q'
  | _, _ => false
  end.
Definition dtype_eqb (a b : dtype) : bool :=
  match a, b with
  | DSingle x, DSingle y => dvt_eqb x y
  | DMapT k e v, DMapT k' e' v' => ident_eqb k k' && ident_eqb e e' && dvt_eqb v v'
  | _, _ => false
  end.
(* an option: the printed extension name and the value (keys and full name aside) *)
Definition dopt_eqb (a b : dopt) : bool := pn_eqb (o_name a) (o_name b) && rawval_eqb (o_val a) (o_val b).
Definition dopt_name_less (a b : dopt) : bool := bytes_ltb (printed_text (o_name a)) (printed_text (o_name b)).
Definition dopts_eqb (a b : list dopt) : bool :=
  list_eqb dopt_eqb (isort dopt_name_less a) (isort dopt_name_less b).

Definition dfield_eqb (a b : dfield) : bool :=
  cmt_eqb (f_cm a) (f_cm b) && label_eqb (f_label a) (f_label b) && dtype_eqb (f_type a) (f_type b)
  && ident_eqb (f_name a) (f_name b) && (f_num a =? f_num b) && bytes_eqb (f_json a) (f_json b)
  && dopts_eqb (f_opts a) (f_opts b).
Definition dvalue_eqb (a b : dvalue) : bool :=
  cmt_eqb (v_cm a) (v_cm b) && ident_eqb (v_name a) (v_name b) && Z.eqb (v_num a) (v_num b)
  && dopts_eqb (v_opts a) (v_opts b).
Definition ref_eqb (a b : qname * qname) : bool := qname_eqb (fst a) (fst b) && qname_eqb (snd a) (snd b).
Definition dmethod_eqb (a b : dmethod) : bool :=
  cmt_eqb (m_cm a) (m_cm b) && ident_eqb (m_name a) (m_name b) && ref_eqb (m_in a) (m_in b)
  && ref_eqb (m_out a) (m_out b) && dopts_eqb (m_opts a) (m_opts b).

Definition sorted_fields (l : list dfield) : list dfield :=
  sort_project (map (fun f => (key0 (f_key f), f)) l).
Definition sorted_values (l : list dvalue) : list dvalue :=
  sort_project (map (fun v => (key0 (v_key v), v)) l).
Definition sorted_methods (l : list dmethod) : list dmethod :=
  sort_project (map (fun m => (key0 (m_key m), m)) l).
Definition sorted_elems (l : list delem) : list delem :=
  sort_project (map (fun e => (ekey e, e)) l).

(* bodies are compared in print order *)
Fixpoint delem_eqb (a b : delem) {struct a} : bool :=
  match a, b with
  | DField x, DField y => dfield_eqb x y
  | DOneof _ c n o fs, DOneof _ c' n' o' fs' =>
      cmt_eqb c c' && ident_eqb n n' && dopts_eqb o o' && list_eqb dfield_eqb (sorted_fields fs) (sorted_fields fs')
  | DMsg _ c n o body, DMsg _ c' n' o' body' =>
      cmt_eqb c c' && ident_eqb n n' && dopts_eqb o o'
      && (fix go (l : list delem) (m : list delem) : bool :=
            match l, m with
            | [], [] => true
            | x :: r, y :: s => delem_eqb x y && go r s
            | _, _ => false
            end) body (sorted_elems body')
  | DEnum _ c n o vs, DEnum _ c' n' o' vs' =>
      cmt_eqb c c' && ident_eqb n n' && dopts_eqb o o' && list_eqb dvalue_eqb (sorted_values vs) (sorted_values vs')
  | DService _ c n o ms, DService _ c' n' o' ms' =>
      cmt_eqb c c' && ident_eqb n n' && dopts_eqb o o' && list_eqb dmethod_eqb (sorted_methods ms) (sorted_methods ms')
  | _, _ => false
  end.

Definition fopt_eqb (a b : ident * token) : bool := ident_eqb (fst a) (fst b) && token_eqb (snd a) (snd b).
Definition ext_eqb (a b : qname * dfield) : bool :=
  qname_eqb (fst a) (fst b) && dfield_eqb (snd a) (snd b).

(* a: the model's reading of the printed text (bodies in text order); b: the real re-parsed descriptor *)
Definition dfile_content_eqb (a b : dfile) : bool :=
  qname_eqb (d_pkg a) (d_pkg b)
  && list_eqb bytes_eqb (isort bytes_ltb (d_imports a)) (isort bytes_ltb (d_imports b))
  && list_eqb fopt_eqb (d_fopts a) (d_fopts b)
  && list_eqb ext_eqb (d_exts a) (d_exts b)
  && list_eqb delem_eqb (d_body a) (sorted_elems (d_body b)).

(* the second text is the first one (the oracle compares the texts; the harness makes no case otherwise) *)
(* text: the bytes PrintFile wrote for d; toks: its tokens by the real lexer, with the leading comments the
   re-parsed descriptor attributes to its declarations inserted as pseudo tokens *)
(* ents / ents2: the options on the fields of the synthetic map entries of the original / the re-parsed real
   descriptor (model/ProtoPrintFileX.v); lost: the round-trip oracle found map entry options missing after
   print + parse for this file *)
Inductive c05file :=
  CFile (imp : xsymtab) (d : dfile) (ents : list entry_opts) (text : list N) (toks : list rtok)
        (d2 : dfile) (ents2 : list entry_opts) (lost : bool).

(* json names are plain text (strconv.Quote = quote there); file option strings are typed values written by the
   model's own literal printer (fopts_typed_b), no longer required to be plain *)
Definition strings_plain_nf (d : dfile) : bool :=
  forallb (fun xf => field_strings_plain (snd xf)) (d_exts d) && forallb elem_strings_plain (d_body d).

Definition entry_opts_wf_b (e : entry_opts) : bool :=
  forallb wf_dopt_b (eo_key e) && forallb wf_dopt_b (eo_value e).

(* the extended descriptor: the table names map fields of the file; the model's verdict "options are lost" is
   the oracle's; the descriptor protocompile builds from the text has none (parse_file_tokens_x) *)
Definition entries_check (d : dfile) (ents : list entry_opts) (d2 : dfile) (ents2 : list entry_opts) (lost : bool) : bool :=
  entries_wf_b {| x_file := d; x_entries := ents |}
  && forallb entry_opts_wf_b ents
  && Bool.eqb (loses_entry_options {| x_file := d; x_entries := ents |}) lost
  && is_nil ents2.

Definition rtok_eqb (a b : rtok) : bool :=
  match a, b with
  | RId x, RId y | RNum x, RNum y | RStr x, RStr y | RDet x, RDet y | RLead x, RLead y => bytes_eqb x y
  | RSym x, RSym y => x =? y
  | _, _ => false
  end.
Definition is_cmt_rtok (t : rtok) : bool := match t with RDet _ | RLead _ => true | _ => false end.

(* the model lexer on the printed bytes gives the real lexer's tokens *)
Definition lex_agrees (text : list N) (toks : list rtok) : bool :=
  match lex_text text with
  | Some rs => list_eqb rtok_eqb rs (filter (fun t => negb (is_cmt_rtok t)) toks)
  | None => false
  end.

Definition c05_file_check (c : c05file) : bool :=
  match c with
  | CFile imp d ents text toks d2 ents2 lost =>
      match coalesce toks with
      | Some t1 =>
          list_eqb token_eqb (print_file_tokens (to_symtab (dfile_symtab imp d)) d) t1
          && list_eqb token_eqb (print_file_tokens (to_symtab (dfile_symtab imp d2)) d2) t1
          && match parse_file_tokens imp t1 with
             | Some d' => dfile_content_eqb d' d2
             | None => false
             end
          && wf_dfile_b imp d && wf_dfile_b imp d2
          && strings_plain_nf d && strings_plain_nf d2
          && fopts_typed_b d && fopts_typed_b d2
          && entries_check d ents d2 ents2 lost
          && lex_agrees text toks
          && is_layout (print_file_tokens_nc (to_symtab (dfile_symtab imp d)) d) text
          && is_layout (print_file_tokens_nc (to_symtab (dfile_symtab imp d2)) d2) text
      | None => false
      end
  end.

(* which of the three parts fails (for the harness' diagnostics): 0 = ok *)
Definition c05_file_diag (c : c05file) : N :=
  match c with
  | CFile imp d ents text toks d2 ents2 lost =>
      match coalesce toks with
      | Some t1 =>
          if negb (list_eqb token_eqb (print_file_tokens (to_symtab (dfile_symtab imp d)) d) t1) then 1
          else if negb (list_eqb token_eqb (print_file_tokens (to_symtab (dfile_symtab imp d2)) d2) t1) then 2
          else
            match parse_file t1 with
            | None => 3
            | Some s =>
                match interp_file imp s with
                | None => 4
                | Some d' => if negb (dfile_content_eqb d' d2) then 5
                             else if negb (wf_dfile_b imp d) then 6 else if negb (wf_dfile_b imp d2) then 7
                             else if negb (strings_plain_nf d && strings_plain_nf d2) then 8
                             else if negb (fopts_typed_b d && fopts_typed_b d2) then 13
                             else if negb (entries_check d ents d2 ents2 lost) then 14
                             else if negb (lex_agrees text toks) then 10
                             else if negb (is_layout (print_file_tokens_nc (to_symtab (dfile_symtab imp d)) d) text) then 11
                             else if negb (is_layout (print_file_tokens_nc (to_symtab (dfile_symtab imp d2)) d2) text) then 12 else 0
                end
            end
      | None => 9
      end
  end.

(* ------------------------------------------------------------------ the two order decisions, pair by pair *)
(* One case = one ordered pair of elements of one body (or of options of one element) of a printed file and what
   the real sourceElements.Less / optionsByLocation.Less answered for it (hooks protoprint.VerifElementsLess /
   VerifOptionsLess).  The element is given by its kind, source line and index; the typeOrder is the model's
   (ekey on an element of that kind).  Every printed file of a run contributes (no token budget). *)
Definition order_of_kind (k : N) : N :=
  let kz := {| k_line := 0; k_idx := 0 |} in
  match k with
  | 1 => snd (fst (ekey (DOneof kz no_cmt [] [] [])))
  | 2 => snd (fst (ekey (DMsg kz no_cmt [] [] [])))
  | 3 => snd (fst (ekey (DEnum kz no_cmt [] [] [])))
  | 4 => snd (fst (ekey (DService kz no_cmt [] [] [])))
  | _ => snd (fst (key0 kz))       (* fields, enum values, methods *)
  end.

Inductive c05order :=
| CLess (ka la ia kb lb ib : N) (obs : bool)
| COptLess (la ia : N) (fa : qname) (lb ib : N) (fb : qname) (obs : bool).

Definition probe_opt (l i : N) (f : qname) : dopt :=
  {| o_key := {| k_line := l; k_idx := i |}; o_full := f; o_name := {| pn_abs := false; pn_name := f |}; o_val := RMsg [] |}.

Definition c05_order_check (c : c05order) : bool :=
  match c with
  | CLess ka la ia kb lb ib obs => Bool.eqb (key_less (la, order_of_kind ka, ia) (lb, order_of_kind kb, ib)) obs
  | COptLess la ia fa lb ib fb obs => Bool.eqb (opt_less (probe_opt la ia fa) (probe_opt lb ib fb)) obs
  end.

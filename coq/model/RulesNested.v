(* RulesNested.v — C04 for schemas declared inline (README "Inline Types"):
     object Foo { field bar object { field barId key:id62 } }
   The compiler nests the message of the inline schema in the message of the schema
   that declares it (message Foo { message Bar {...}  Bar bar = 1; }) — the name is
   the one the declaration states (`object.name = "Bar"`) or, by default,
   strcase.ToCamel of the field name (conversion.go) — and the field refers to it by
   its path (Foo.Bar). The reflector knows the nested message as the schema Foo_Bar
   of the package; the field reads back as a reference to it.
   A declaration is a tree [nschema]; what is compiled a tree of messages [mtree];
   what is reflected a tree of root schemas [rtree]. No proofs here. *)
From Coq Require Import String List NArith ZArith Bool.
From J5V.lib Require Import Outcome Strcase.
From J5V.model Require Import RulesDecl RulesWrite RulesRead.
Import ListNotations.
Local Open Scope N_scope.

(* a schema: kind, the name an inline declaration states (None: the default), description,
   fields; a field is a property and, if its type is declared inline, that schema *)
Inductive nschema := NS (k : rkind) (oname : option str) (desc : str) (fields : list nfield)
with nfield := NF (d : prop) (inl : option nschema).

Definition ns_kind (s : nschema) : rkind := match s with NS k _ _ _ => k end.
Definition nf_prop (f : nfield) : prop := match f with NF d _ => d end.

Definition inner_name (d : prop) (s : nschema) : str :=
  match s with NS _ (Some n) _ _ => n | NS _ None _ _ => to_camel (p_name d) end.

Fixpoint join_path (sep : N) (p : list str) : str :=
  match p with [] => [] | [x] => x | x :: r => x ++ sep :: join_path sep r end.

Definition item_ty (d : prop) : fty :=
  match p_ty d with PSingle t | PArray _ _ t | PMap _ t => t end.

Definition kind_matches (k : rkind) (t : fty) : bool :=
  match k, t with RObject, TObject _ _ _ => true | ROneof, TOneof _ _ _ => true | _, _ => false end.

Definition set_ref_ty (n : str) (t : fty) : fty :=
  match t with TObject _ fl r => TObject n fl r | TOneof _ rules l => TOneof n rules l | _ => t end.
Definition set_ref (n : str) (d : prop) : prop :=
  P (p_name d) (p_req d) (p_opt d)
    (match p_ty d with
     | PSingle t => PSingle (set_ref_ty n t)
     | PArray r s t => PArray r s (set_ref_ty n t)
     | PMap r t => PMap r (set_ref_ty n t)
     end) (p_desc d).

(* the property of a field of the schema at [here]: an inline type is referred to by its path *)
Definition resolve (here : list str) (f : nfield) : prop :=
  match f with
  | NF d None => d
  | NF d (Some s) => set_ref (join_path 46 (here ++ [inner_name d s])) d
  end.

(* ---- compiled: a message with its nested messages (in the order of the fields) ---- *)
Inductive mtree := MT (o : root_out) (nested : list mtree).

Fixpoint write_schema (env : enum_env) (path : list str) (name : str) (s : nschema) : outcome mtree :=
  match s with
  | NS k _ desc fields =>
      let here := path ++ [name] in
      obind (write_root env (RD k name desc (map (resolve here) fields))) (fun o =>
      obind ((fix go (fs : list nfield) : outcome (list mtree) :=
                match fs with
                | [] => Ok []
                | NF _ None :: r => go r
                | NF d (Some s') :: r =>
                    if kind_matches (ns_kind s') (item_ty d)
                    then obind (write_schema env here (inner_name d s') s') (fun m =>
                         obind (go r) (fun ms => Ok (m :: ms)))
                    else Err "inline schema of another kind than the field"
                end) fields)
            (fun ms => Ok (MT o ms)))
  end.

(* ---- reflected: a root schema per message; the schema name is the path joined by '_' ---- *)
Inductive rtree := RT (r : rroot) (inner : list rtree).

Fixpoint read_tree (env : enum_env) (path : list str) (m : mtree) : outcome rtree :=
  match m with
  | MT o nested =>
      let here := path ++ [ro_name o] in
      obind (read_root env o) (fun r =>
      obind ((fix go (ms : list mtree) : outcome (list rtree) :=
                match ms with
                | [] => Ok []
                | m' :: r' => obind (read_tree env here m') (fun t => obind (go r') (fun ts => Ok (t :: ts)))
                end) nested)
            (fun ts => Ok (RT (RR (rr_kind r) (join_path 95 here) (rr_desc r) (rr_props r)) ts)))
  end.

(* ---- the declared schema tree, from the declaration alone ---- *)
Fixpoint norm_schema (env : enum_env) (path : list str) (name : str) (s : nschema) : rtree :=
  match s with
  | NS k _ desc fields =>
      let here := path ++ [name] in
      RT (RR k (join_path 95 here) desc (norm_object env (map (resolve here) fields)))
         ((fix go (fs : list nfield) : list rtree :=
             match fs with
             | [] => []
             | NF _ None :: r => go r
             | NF d (Some s') :: r => norm_schema env here (inner_name d s') s' :: go r
             end) fields)
  end.

(* the fragment: every schema of the tree has a plain description and properties in rt_ok *)
Fixpoint tree_rt (s : nschema) : bool :=
  match s with
  | NS _ _ desc fields =>
      desc_plain desc
      && (fix go (fs : list nfield) : bool :=
            match fs with
            | [] => true
            | NF d None :: r => rt_ok d && go r
            | NF d (Some s') :: r => rt_ok d && tree_rt s' && go r
            end) fields
  end.

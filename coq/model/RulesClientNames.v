(* Client property names through flatten levels (lib/j5schema: ObjectSchema.ClientProperties,
   checkClientPropertyNames, /repo 96a1ec3): after a build the reader refuses a package in
   which an object's client properties - its own together with those hoisted from singular
   object fields with flatten = true, at any depth - use one JSON name twice.  Oneofs are not
   checked (only an *ObjectSchema has client properties).  The check runs on the compiled
   messages: JSON name, message kind and the flatten flag of (j5.ext.v1.field).object are what
   the reader sees. *)
From Coq Require Import String List NArith ZArith Bool.
From J5V.lib Require Import Outcome.
From J5V.model Require Import RulesDecl RulesWrite RulesRead RulesNested.
Import ListNotations.

(* objects of the package outside the tree under test: name, client property names *)
Definition refs := list (str * list str).

Fixpoint lookup_ref (n : str) (rs : refs) : option (list str) :=
  match rs with
  | [] => None
  | (k, v) :: r => if str_eqb n k then Some v else lookup_ref n r
  end.

(* a singular object field whose annotation says flatten: the message it refers to *)
Definition flat_target (f : fout) : option str :=
  match fo_kind f, fo_rep f, fo_ext f with
  | KdMsgObject n, false, Some (XObject true) => Some n
  | _, _, _ => None
  end.

Definition mt_name (m : mtree) : str := match m with MT o _ => ro_name o end.

(* ObjectSchema.ClientProperties: own properties in order, a flattened field replaced by the
   client properties of its target (a message nested in this one, or one of [fixed]) *)
Fixpoint client_names (fixed : refs) (path : list str) (m : mtree) : list str :=
  match m with
  | MT o nested =>
      let here := path ++ [ro_name o] in
      let kids := (fix go (ms : list mtree) : refs :=
                     match ms with
                     | [] => []
                     | m' :: r => (join_path 46 (here ++ [mt_name m']), client_names fixed here m') :: go r
                     end) nested in
      flat_map (fun f => match flat_target f with
                         | Some n => match lookup_ref n (kids ++ fixed) with Some ns => ns | None => [] end
                         | None => [fo_json f]
                         end) (ro_fields o)
  end.

(* checkPropertyNames *)
Fixpoint distinct_b (l : list str) : bool :=
  match l with
  | [] => true
  | x :: r => negb (existsb (str_eqb x) r) && distinct_b r
  end.

(* checkClientPropertyNames over the messages of the tree *)
Fixpoint tree_names_ok (fixed : refs) (path : list str) (m : mtree) : bool :=
  match m with
  | MT o nested =>
      let here := path ++ [ro_name o] in
      (match ro_msgopt o with
       | Some ROneof => true
       | _ => distinct_b (client_names fixed path m)
       end)
      && (fix go (ms : list mtree) : bool :=
            match ms with
            | [] => true
            | m' :: r => tree_names_ok fixed here m' && go r
            end) nested
  end.

Definition e_client_name : string := "client property name is used twice".

(* the reader since 96a1ec3: the schemas are built as before, then the names are checked *)
Definition read_tree_checked (fixed : refs) (env : enum_env) (path : list str) (m : mtree) : outcome rtree :=
  match read_tree env path m with
  | Ok t => if tree_names_ok fixed path m then Ok t else Err e_client_name
  | e => e
  end.

Definition flat_msg (k : rkind) (name : str) (fs : list fout) : mtree := MT (RO name [] (Some k) fs) [].

Definition read_object_checked (fixed : refs) (env : enum_env) (k : rkind) (name : str) (fs : list fout)
  : outcome (list rprop) :=
  match read_object env fs with
  | Ok ps => if tree_names_ok fixed [] (flat_msg k name fs) then Ok ps else Err e_client_name
  | e => e
  end.

(* J5sLink.v — model of the one part of protocompile's linker that decides what a type name
   written by j5convert denotes: resolution of a name without a leading dot, from the scope
   of the field outwards (linker/resolve.go: resolve, messageScope, fileScope,
   resolveElementRelative).  Names with a leading dot are taken as they are: j5convert
   produces them only for types it found in the export tables.
   Executable, stdlib only, no proofs. *)
From Coq Require Import String List NArith Bool.
From J5V.lib Require Import Outcome Corr.
From J5V.model Require Import J5sAst Desc J5sWalk.
Import ListNotations.
Local Open Scope N_scope.

(* ".<pkg>.<Nest.Path.Name>": a fully qualified type name *)
Definition abs_name (pkg : str) (path : list str) : str := dot ++ pkg ++ dot ++ join dot path.

Definition path_eqb (x y : list str) : bool := list_eqb str_eqb x y.
Definition sym_mem (p : list str) (syms : list (list str)) : bool := existsb (path_eqb p) syms.

(* the messages and enums a file defines, as paths below the file's package *)
Fixpoint msg_syms (pre : list str) (m : dmsg) {struct m} : list (list str) :=
  match m with
  | DMsg n _ _ ms es =>
      (pre ++ [n]) ::
      (fix go (l : list dmsg) : list (list str) :=
         match l with
         | [] => []
         | x :: r => msg_syms (pre ++ [n]) x ++ go r
         end) ms ++
      map (fun e => pre ++ [n; en_name e]) es
  end.
Definition file_syms (ms : list dmsg) (es : list denum) : list (list str) :=
  flat_map (msg_syms []) ms ++ map (fun e => [en_name e]) es.

(* resolve: the enclosing message scopes innermost first, then the file scope.  In a scope
   whose name is S the first component decides: if S.first exists the whole name must exist
   below S, otherwise the next scope is tried.  [scope_rev] is the reversed path of the
   message containing the field. *)
Fixpoint resolve_rel (syms : list (list str)) (scope_rev : list str) (first : str) (parts : list str)
  : outcome (list str) :=
  match scope_rev with
  | [] =>
      if sym_mem [first] syms then
        if sym_mem parts syms then Ok parts else Err "unknown type: resolved to a name which is not defined"
      else Err "unknown type"
  | _ :: outer =>
      let scope := rev scope_rev in
      if sym_mem (scope ++ [first]) syms then
        if sym_mem (scope ++ parts) syms then Ok (scope ++ parts)
        else Err "unknown type: resolved to a name which is not defined"
      else resolve_rel syms outer first parts
  end.

Definition link_name (syms : list (list str)) (fpkg : str) (scope : list str) (tn : str) : outcome str :=
  match tn with
  | [] => Ok []
  | c :: _ =>
      if c =? 46 then Ok tn
      else match split 46 tn with
           | (first :: _) as parts =>
               omap (abs_name fpkg) (resolve_rel syms (rev scope) first parts)
           | [] => Err "empty type name"
           end
  end.

Fixpoint link_fields (syms : list (list str)) (fpkg : str) (scope : list str) (fs : list dfield)
  : outcome (list dfield) :=
  match fs with
  | [] => Ok []
  | f :: r =>
      obind (link_name syms fpkg scope (f_tname f)) (fun tn =>
      obind (link_fields syms fpkg scope r) (fun r' =>
        Ok (mkField (f_name f) (f_json f) (f_num f) (f_type f) (f_label f) (f_opt3 f) tn (f_oneof f) :: r')))
  end.

Fixpoint link_msg (syms : list (list str)) (fpkg : str) (pre : list str) (m : dmsg) {struct m} : outcome dmsg :=
  match m with
  | DMsg n k fs ms es =>
      obind (link_fields syms fpkg (pre ++ [n]) fs) (fun fs' =>
      obind ((fix go (l : list dmsg) : outcome (list dmsg) :=
                match l with
                | [] => Ok []
                | x :: r => obind (link_msg syms fpkg (pre ++ [n]) x) (fun x' =>
                            obind (go r) (fun r' => Ok (x' :: r')))
                end) ms) (fun ms' =>
        Ok (DMsg n k fs' ms' es)))
  end.

Fixpoint link_msgs (syms : list (list str)) (fpkg : str) (l : list dmsg) : outcome (list dmsg) :=
  match l with
  | [] => Ok []
  | x :: r => obind (link_msg syms fpkg [] x) (fun x' =>
              obind (link_msgs syms fpkg r) (fun r' => Ok (x' :: r')))
  end.

(* method input/output types are resolved in the file scope; a first component that is no
   symbol of the file is a package of an imported file (google.api.HttpBody) *)
Definition link_method_name (syms : list (list str)) (fpkg : str) (tn : str) : outcome str :=
  match tn with
  | [] => Ok []
  | c :: _ =>
      if c =? 46 then Ok tn
      else match split 46 tn with
           | (first :: _) as parts =>
               if sym_mem [first] syms then
                 if sym_mem parts syms then Ok (abs_name fpkg parts)
                 else Err "unknown method type"
               else Ok (dot ++ tn)
           | [] => Err "empty type name"
           end
  end.

Fixpoint link_methods (syms : list (list str)) (fpkg : str) (l : list dmethod) : outcome (list dmethod) :=
  match l with
  | [] => Ok []
  | m :: r =>
      obind (link_method_name syms fpkg (me_in m)) (fun i =>
      obind (link_method_name syms fpkg (me_out m)) (fun o =>
      obind (link_methods syms fpkg r) (fun r' =>
        Ok (mkDmethod (me_name m) i o (me_http m) :: r'))))
  end.

Fixpoint link_services (syms : list (list str)) (fpkg : str) (l : list dservice) : outcome (list dservice) :=
  match l with
  | [] => Ok []
  | s :: r =>
      obind (link_methods syms fpkg (ds_methods s)) (fun ms =>
      obind (link_services syms fpkg r) (fun r' =>
        Ok (mkDservice (ds_name s) ms (ds_topic s) :: r')))
  end.

Definition link_file (f : dfile) : outcome dfile :=
  let syms := file_syms (fl_msgs f) (fl_enums f) in
  obind (link_msgs syms (fl_pkg f) (fl_msgs f)) (fun ms =>
  obind (link_services syms (fl_pkg f) (fl_svcs f)) (fun ss =>
    Ok (mkDfile (fl_path f) (fl_pkg f) (fl_deps f) ms (fl_enums f) ss))).

Fixpoint link_files (l : list dfile) : outcome (list dfile) :=
  match l with
  | [] => Ok []
  | f :: r => obind (link_file f) (fun f' => obind (link_files r) (fun r' => Ok (f' :: r')))
  end.

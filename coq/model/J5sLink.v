(* J5sLink.v — model of what happens to the type names j5convert writes between ConvertJ5File
   and the linked descriptor.  Since fix 2ef7c92 protobuild qualifies every name without a
   leading dot before linking (packages.go qualifyTypeNames): a name that is a nested message
   of the message holding the field (a map entry) is qualified with that message, every other
   one (the path of an inline type below the package, "Outer.Inner") with the package.  Names
   with a leading dot are taken as they are: j5convert produces them only for types it found in
   the export tables.  Method input / output types are not touched by qualifyTypeNames; the
   linker resolves them in the file scope (linker/resolve.go fileScope).
   Executable, stdlib only, no proofs. *)
From Coq Require Import String List NArith Bool.
From J5V.lib Require Import Outcome Corr.
From J5V.model Require Import J5sAst Desc J5sWalk.
Import ListNotations.
Local Open Scope N_scope.

(* ".<pkg>.<Nest.Path.Name>": a fully qualified type name *)
Definition abs_name (pkg : str) (path : list str) : str := dot ++ pkg ++ dot ++ join dot path.

Definition path_eqb (x y : list str) : bool := list_eqb str_eqb x y.
Definition sym_mem (p : list str) (syms : list (list str)) : bool := existsb (path_eqb p) syms.

(* the messages and enums a file defines, as paths below the file's package *)
Fixpoint msg_syms (pre : list str) (m : dmsg) {struct m} : list (list str) :=
  match m with
  | DMsg n _ _ ms es =>
      (pre ++ [n]) ::
      (fix go (l : list dmsg) : list (list str) :=
         match l with
         | [] => []
         | x :: r => msg_syms (pre ++ [n]) x ++ go r
         end) ms ++
      map (fun e => pre ++ [n; en_name e]) es
  end.
Definition file_syms (ms : list dmsg) (es : list denum) : list (list str) :=
  flat_map (msg_syms []) ms ++ map (fun e => [en_name e]) es.

(* ------------------------------------------------------------------ the linker's symbol table *)
(* Every symbol a file defines, fully qualified (without the leading dot): messages, their
   fields, nested messages and enums; enums and their values - a value lives in the scope that
   encloses its enum -; services and their methods.  protocompile (linker/symbols.go) rejects a
   file that defines a symbol twice, or one that a file linked before already defines. *)
Definition qual (scope n : str) : str := scope ++ dot ++ n.

Definition enum_symbols (scope : str) (e : denum) : list str :=
  qual scope (en_name e) :: map (fun v => qual scope (fst v)) (en_vals e).

Fixpoint msg_symbols (scope : str) (m : dmsg) {struct m} : list str :=
  match m with
  | DMsg n _ fs ms es =>
      let me := qual scope n in
      me :: map (fun f => qual me (f_name f)) fs ++
      (fix go (l : list dmsg) : list str :=
         match l with
         | [] => []
         | x :: r => msg_symbols me x ++ go r
         end) ms ++
      flat_map (enum_symbols me) es
  end.

Definition svc_symbols (scope : str) (s : dservice) : list str :=
  qual scope (ds_name s) :: map (fun m => qual (qual scope (ds_name s)) (me_name m)) (ds_methods s).

Definition file_symbols (f : dfile) : list str :=
  flat_map (msg_symbols (fl_pkg f)) (fl_msgs f) ++
  flat_map (enum_symbols (fl_pkg f)) (fl_enums f) ++
  flat_map (svc_symbols (fl_pkg f)) (fl_svcs f).

(* the symbols of the hand-written .proto files of a package (they are linked together with it) *)
Definition pfile_symbols (p : pfile) : list str :=
  map (qual (pfile_pkg p)) (pf_msgs p ++ pf_enums p ++ pf_values p).

Definition pkg_pfile_symbols (bd : bundle) (pkg : str) : list str :=
  flat_map (fun f => match f with
                     | BP p => if str_eqb (pfile_pkg p) pkg then pfile_symbols p else []
                     | BJ _ => []
                     end) bd.

Fixpoint nodup_str (l : list str) : bool :=
  match l with
  | [] => true
  | x :: r => negb (existsb (str_eqb x) r) && nodup_str r
  end.

(* qualifyTypeNames for one field of the message at [scope] whose nested messages are [nested] *)
Definition link_name (nested : list str) (fpkg : str) (scope : list str) (tn : str) : str :=
  match tn with
  | [] => []
  | c :: _ =>
      if c =? 46 then tn
      else if existsb (str_eqb tn) nested then abs_name fpkg (scope ++ [tn])
      else dot ++ fpkg ++ dot ++ tn
  end.

Definition link_field (nested : list str) (fpkg : str) (scope : list str) (f : dfield) : dfield :=
  mkField (f_name f) (f_json f) (f_num f) (f_type f) (f_label f) (f_opt3 f)
          (link_name nested fpkg scope (f_tname f)) (f_oneof f).

Fixpoint link_msg (fpkg : str) (pre : list str) (m : dmsg) {struct m} : dmsg :=
  match m with
  | DMsg n k fs ms es =>
      DMsg n k (map (link_field (map dm_name ms) fpkg (pre ++ [n])) fs)
           ((fix go (l : list dmsg) : list dmsg :=
               match l with
               | [] => []
               | x :: r => link_msg fpkg (pre ++ [n]) x :: go r
               end) ms)
           es
  end.

Definition link_msgs (fpkg : str) (l : list dmsg) : list dmsg := map (link_msg fpkg []) l.

(* method input/output types are resolved in the file scope; a first component that is no
   symbol of the file is a package of an imported file (google.api.HttpBody) *)
Definition link_method_name (syms : list (list str)) (fpkg : str) (tn : str) : outcome str :=
  match tn with
  | [] => Ok []
  | c :: _ =>
      if c =? 46 then Ok tn
      else match split 46 tn with
           | (first :: _) as parts =>
               if sym_mem [first] syms then
                 if sym_mem parts syms then Ok (abs_name fpkg parts)
                 else Err "unknown method type"
               else Ok (dot ++ tn)
           | [] => Err "empty type name"
           end
  end.

Fixpoint link_methods (syms : list (list str)) (fpkg : str) (l : list dmethod) : outcome (list dmethod) :=
  match l with
  | [] => Ok []
  | m :: r =>
      obind (link_method_name syms fpkg (me_in m)) (fun i =>
      obind (link_method_name syms fpkg (me_out m)) (fun o =>
      obind (link_methods syms fpkg r) (fun r' =>
        Ok (mkDmethod (me_name m) i o (me_http m) :: r'))))
  end.

Fixpoint link_services (syms : list (list str)) (fpkg : str) (l : list dservice) : outcome (list dservice) :=
  match l with
  | [] => Ok []
  | s :: r =>
      obind (link_methods syms fpkg (ds_methods s)) (fun ms =>
      obind (link_services syms fpkg r) (fun r' =>
        Ok (mkDservice (ds_name s) ms (ds_topic s) :: r')))
  end.

Definition link_file (f : dfile) : outcome dfile :=
  let syms := file_syms (fl_msgs f) (fl_enums f) in
  obind (link_services syms (fl_pkg f) (fl_svcs f)) (fun ss =>
    Ok (mkDfile (fl_path f) (fl_pkg f) (fl_deps f) (link_msgs (fl_pkg f) (fl_msgs f)) (fl_enums f) ss)).

Fixpoint link_files (l : list dfile) : outcome (list dfile) :=
  match l with
  | [] => Ok []
  | f :: r => obind (link_file f) (fun f' => obind (link_files r) (fun r' => Ok (f' :: r')))
  end.

(* ConcRace.v — the memory accesses of the machine of Conc.v as a trace of events, and
   data-race freedom stated over that trace with the happens-before order that the Go
   memory model gives to sync.Mutex ("call n of Unlock is synchronized before call m of
   Lock returns, n < m") together with program order.

   Locations: the schema map (both levels flattened), SchemaCache.registered, and the To
   field of each RefSchema cell.  Inside Schema the accesses are those of the step
   function; after Schema has returned, the caller (reflector, encoder, decoder) reads
   the To fields of the schema it was handed, without any lock: [EObs].

   No proofs in this file. *)
From Coq Require Import List NArith Bool Arith.
From J5V.model Require Import Conc.
Import ListNotations.

Inductive loc :=
| LPkgs                 (* sc.packages: package name -> *Package *)
| LSchemas (p : N)      (* the Schemas map of package p *)
| LReg                  (* sc.registered *)
| LCell (c : cellid).   (* the To field of a RefSchema *)

Inductive event :=
| EAcq (t : tid)                 (* sc.mu.Lock() returns *)
| ERel (t : tid)                 (* sc.mu.Unlock() *)
| ERd (t : tid) (l : loc)        (* read / write inside Schema *)
| EWr (t : tid) (l : loc)
| EObs (t : tid) (c : cellid).   (* the caller reads ref.To of cell c after Schema returned *)

Definition loc_eqb (a b : loc) : bool :=
  match a, b with
  | LPkgs, LPkgs => true
  | LSchemas p, LSchemas q => N.eqb p q
  | LReg, LReg => true
  | LCell c, LCell d => Nat.eqb c d
  | _, _ => false
  end.

Definition ev_tid (e : event) : tid :=
  match e with EAcq t | ERel t | ERd t _ | EWr t _ | EObs t _ => t end.

(* the location accessed and whether it is written *)
Definition ev_access (e : event) : option (loc * bool) :=
  match e with
  | ERd _ l => Some (l, false)
  | EWr _ l => Some (l, true)
  | EObs _ c => Some (LCell c, false)
  | _ => None
  end.

(* ---- the events of one step ------------------------------------------------------ *)
(* advance links the cell of a completed top frame; when the next field of the top frame
   is of an unsupported type its build fails and its To is set to a typed nil pointer *)
Definition adv_events (t : tid) (stk : list frame) : list event :=
  match stk with
  | f :: _ =>
      match f_todo f with
      | [] => [EWr t (LCell (f_cell f))]
      | m :: _ => if N.eqb m unsupported then [EWr t (LCell (f_cell f))] else []
      end
  | [] => []
  end.

(* referencePackage(p): reads sc.packages, and writes it when the package is new — the machine
   does not track which packages exist, so the write is always listed (more conflicts to
   exclude, never fewer) *)
Definition refpkg_events (t : tid) : list event := [ERd t LPkgs; EWr t LPkgs].

Definition lstep_events (pk : name -> N) (g : graph) (n : name) (t : tid) (sh : shared) (p : pc) : list event :=
  match p with
  | PLookup =>
      ERd t (LSchemas (pk n)) :: match lookup (cmap sh) n with Some c => [ERd t (LCell c)] | None => [] end
  | PInsert =>
      [EWr t (LSchemas (pk n)); EWr t LReg] ++ adv_events t [mkFrame (length (heap sh)) (refs g n) []]
  | PRefLookup (f :: rest) =>
      match f_todo f with
      | m :: todo' =>
          refpkg_events t ++ ERd t (LSchemas (pk m)) ::
          match lookup (cmap sh) m with
          | Some c => adv_events t (mkFrame (f_cell f) todo' (c :: f_done f) :: rest)
          | None => []
          end
      | [] => []
      end
  | PRefInsert (f :: rest) =>
      match f_todo f with
      | m :: todo' =>
          [EWr t (LSchemas (pk m)); EWr t LReg] ++
          adv_events t (mkFrame (length (heap sh)) (refs g m) [] ::
                        mkFrame (f_cell f) todo' (length (heap sh) :: f_done f) :: rest)
      | [] => []
      end
  | PLinked stk => adv_events t stk
  | PFail (f :: _) => [EWr t (LCell (f_cell f))]   (* the enclosing build fails in turn *)
  | _ => []
  end.

(* the end of Schema: a failed call reads registered and deletes every registered ref from the
   Schemas map of its package; registered = nil *)
Definition fin_events (pk : name -> N) (t : tid) (res : result) (sh : shared) : list event :=
  match res with
  | RErr | RUnlinked => ERd t LReg :: map (fun n => EWr t (LSchemas (pk n))) (reg sh)
  | RNil | ROk _ => []
  end ++ [EWr t LReg].

(* the cells whose To field the caller reads when it walks the schema to depth k *)
Fixpoint obs_cells (k : nat) (h : list cell) (c : cellid) : list cellid :=
  match nth_error h c with
  | None => []
  | Some cl =>
      c :: match c_to cl with
           | None => []
           | Some fs => match k with O => [] | S k' => flat_map (obs_cells k' h) fs end
           end
  end.

Definition obs_events (k : nat) (t : tid) (res : result) (sh : shared) (rc : option cellid) : list event :=
  match res, rc with
  | ROk _, Some c => map (EObs t) (obs_cells k (heap sh) c)
  | _, _ => []
  end.

(* after Lock(): registered = registered[:0], then referencePackage of the root's package — up to the cache.lookup hook *)
Definition enter_events (t : tid) : list event := EWr t LReg :: refpkg_events t.

Definition gstep_events (d : disc) (pk : name -> N) (k : nat) (g : graph) (t : tid) (st : state) : list event :=
  match nth_error (s_thr st) t with
  | None => []
  | Some th =>
      match t_calls th with
      | [] => []
      | n :: _ =>
          match t_pc th with
          | PWait =>
              match d, s_lock st with
              | Guarded, None => EAcq t :: enter_events t     (* blocked in Lock(), finds the lock free *)
              | _, _ => []
              end
          | PEnter =>
              match d with
              | Unguarded => enter_events t
              | Guarded => match s_lock st with None => EAcq t :: enter_events t | Some _ => [] end
              end
          | p =>
              let (sh', o) := lstep k g n (s_sh st) p in
              lstep_events pk g n t (s_sh st) p ++
              match o with
              | inl _ => []
              | inr res =>
                  fin_events pk t res sh' ++
                  match d with
                  | Unguarded => obs_events k t res sh' (result_cell n (s_sh st) p)
                  | Guarded => ERel t :: obs_events k t res sh' (result_cell n (s_sh st) p)
                  end
              end
          end
      end
  end.

Fixpoint events_from (d : disc) (pk : name -> N) (k : nat) (g : graph) (sched : list tid) (st : state) : list event :=
  match sched with
  | [] => []
  | t :: r => gstep_events d pk k g t st ++ events_from d pk k g r (gstep d k g t st)
  end.

Definition events d pk k g calls sched : list event := events_from d pk k g sched (init calls).

(* ---- data-race freedom -------------------------------------------------------------- *)
Definition conflict (e1 e2 : event) : Prop :=
  ev_tid e1 <> ev_tid e2 /\
  exists l w1 w2, ev_access e1 = Some (l, w1) /\ ev_access e2 = Some (l, w2) /\ (w1 = true \/ w2 = true).

(* e1 at i happens before e2 at j: e1, then in program order an Unlock by e1's thread,
   which is synchronized before a later Lock by e2's thread, then in program order e2 *)
Definition ordered (tr : list event) (i j : nat) (e1 e2 : event) : Prop :=
  exists r a, i < r /\ r < a /\ a < j /\
    nth_error tr r = Some (ERel (ev_tid e1)) /\ nth_error tr a = Some (EAcq (ev_tid e2)).

Definition race_free (tr : list event) : Prop :=
  forall i j e1 e2, i < j -> nth_error tr i = Some e1 -> nth_error tr j = Some e2 ->
    conflict e1 e2 -> ordered tr i j e1 e2.

(* the To field of a cell is written at most once (published, then immutable), so a read
   delayed arbitrarily after the return still sees what the trace shows it to see *)
Definition write_once (tr : list event) : Prop :=
  forall i j t1 t2 c, nth_error tr i = Some (EWr t1 (LCell c)) -> nth_error tr j = Some (EWr t2 (LCell c)) -> i = j.

(* what makes the Go runtime abort with "fatal error: concurrent map writes" / "concurrent map
   read and map write": two accesses to one of the maps (sc.packages, or the Schemas map of
   a package), by different goroutines, at least one of them a write, not ordered by
   happens-before *)
Definition is_map_loc (l : loc) : bool :=
  match l with LPkgs | LSchemas _ => true | _ => false end.

Definition concurrent_map_access (tr : list event) : Prop :=
  exists i j e1 e2 l w1 w2, i < j /\ nth_error tr i = Some e1 /\ nth_error tr j = Some e2 /\
    ev_tid e1 <> ev_tid e2 /\ ev_access e1 = Some (l, w1) /\ ev_access e2 = Some (l, w2) /\
    is_map_loc l = true /\ (w1 = true \/ w2 = true) /\ ~ ordered tr i j e1 e2.

(* ---- a decidable check used for the refutation ---------------------------------------- *)
Definition conflict_b (e1 e2 : event) : bool :=
  negb (Nat.eqb (ev_tid e1) (ev_tid e2)) &&
  match ev_access e1, ev_access e2 with
  | Some (l1, w1), Some (l2, w2) => loc_eqb l1 l2 && (w1 || w2)
  | _, _ => false
  end.

Definition is_rel_of (t : tid) (e : event) : bool := match e with ERel u => Nat.eqb t u | _ => false end.
Definition is_acq_of (t : tid) (e : event) : bool := match e with EAcq u => Nat.eqb t u | _ => false end.

(* is there a release by t1 followed by an acquire by t2 in the segment *)
Fixpoint rel_then_acq (t1 t2 : tid) (seg : list event) : bool :=
  match seg with
  | [] => false
  | e :: r => if is_rel_of t1 e then existsb (is_acq_of t2) r else rel_then_acq t1 t2 r
  end.

(* the first racing pair (positions), if any *)
Fixpoint race_from (e1 : event) (i : nat) (seg : list event) (rest : list event) (j : nat) : option (nat * nat) :=
  match rest with
  | [] => None
  | e2 :: r =>
      if conflict_b e1 e2 && negb (rel_then_acq (ev_tid e1) (ev_tid e2) seg) then Some (i, j)
      else race_from e1 i (seg ++ [e2]) r (S j)
  end.

Fixpoint first_race_at (tr : list event) (i : nat) : option (nat * nat) :=
  match tr with
  | [] => None
  | e1 :: r =>
      match race_from e1 i [] r (S i) with
      | Some p => Some p
      | None => first_race_at r (S i)
      end
  end.

Definition first_race (tr : list event) : option (nat * nat) := first_race_at tr 0.

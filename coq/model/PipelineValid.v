(* PipelineValid.v — the hypothesis of C16_full (valid_package, proofs/PipelineProofs.v) as a computable
   test, so that the compile-image stream can report for every generated package the real compiler accepted
   whether it is inside the theorem (proofs/PipelineValidProofs.v: valid_package_b = true -> valid_package).
   No proofs in this file. *)
From Coq Require Import String Ascii List NArith Bool.
From J5V.lib Require Import Outcome Corr.
From J5V.model Require Import Pipeline PipelineCompile.
From J5V.gen Require SwaggerGen.
Import ListNotations.
Local Open Scope N_scope.
Local Open Scope bool_scope.

Section Valid.
Variable to_snake : str -> str.

Definition clean_char_b (c : N) : bool :=
  negb (c =? LBRACE) && negb (c =? RBRACE) && negb (c =? STAR) && negb (c =? COLON) && negb (c =? SLASH).
Definition clean_part_b (part : str) : bool := forallb clean_char_b part.

Definition wf_part_b (props : list str) (part : str) : bool :=
  clean_part_b part || match part with c :: n => (c =? COLON) && mem_str n props | [] => false end.

Definition snake_inj_b (props : list str) : bool :=
  forallb (fun n => forallb (fun m => negb (str_eqb (to_snake n) (to_snake m)) || str_eqb n m) props) props.

Definition no_char_b (c : N) (s : str) : bool := negb (existsb (N.eqb c) s).
Definition snake_ok_b (props : list str) : bool :=
  forallb (fun n => no_char_b SLASH n && no_char_b SLASH (to_snake n)) props.

Definition wf_decl_b (d : decl_method) : bool :=
  (1 <=? dm_verb d) && (dm_verb d <=? 5) && negb (match dm_parts d with [] => true | _ => false end)
  && forallb (wf_part_b (dm_props d)) (dm_parts d) && snake_inj_b (dm_props d) && snake_ok_b (dm_props d).

Fixpoint nodup_b (l : list str) : bool :=
  match l with [] => true | x :: r => negb (mem_str x r) && nodup_b r end.

Definition list_ok_b (d : decl_full) : bool :=
  negb (is_query_request (df_req d)) || match list_root (df_resp d) with Ok _ => true | _ => false end.

Definition wf_env_b (g : env) : bool :=
  forallb (fun ks => forallb (fun p => convert_ok SwaggerGen.field_alternatives (p_ty p)) (schema_props (snd ks))) g.

Definition no_flatten_cycle_b (g : env) : bool := match client_env g with Some _ => true | None => false end.

Definition valid_package_b (P : decl_package) : bool :=
  forallb (fun d => wf_decl_b (df_decl d)) (all_methods P)
  && nodup_b (map df_name (all_methods P))
  && forallb list_ok_b (all_methods P)
  && all_refs_link (im_schemas (compile_image to_snake P))
  && wf_env_b (im_schemas (compile_image to_snake P))
  && no_flatten_cycle_b (im_schemas (compile_image to_snake P)).
End Valid.

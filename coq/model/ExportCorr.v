(* ExportCorr.v — correspondence cases for C15: the source-API export of the reflected schemas
   (structure.APIFromImage), the re-import (PackageSetFromSourceAPI) and the second export, as
   observed on the real code, checked against the model by vm_compute. *)
From Coq Require Import String List NArith ZArith Bool.
From J5V.lib Require Import Outcome Corr.
From J5V.model Require Import ReflectDesc ReflectSchema Reflect ReflectSpec ReflectCorr Export ExportApi ReflectNames.
Import ListNotations.
Local Open Scope bool_scope.

(* decidable equality of terms of the source-API form (transparent: evaluated by vm_compute) *)
Definition xschema_dec : forall a b : xschema, {a = b} + {a <> b}.
Proof. decide equality; apply ref_dec. Defined.
Definition xfield_dec : forall a b : xfield, {a = b} + {a <> b}.
Proof.
  decide equality;
    try apply bool_dec; try apply optN_dec; try apply xschema_dec; try apply sproto_dec;
    try apply (list_eq_dec str_dec);
    try (apply opt_dec; first [apply (pair_dec (list_eq_dec str_dec) (list_eq_dec str_dec))
                              | apply (pair_dec optN_dec optN_dec)
                              | apply (pair_dec (pair_dec optN_dec optN_dec) optb_dec)
                              | apply optstr_dec]).
Defined.
Definition xprop_dec : forall a b : xprop, {a = b} + {a <> b}.
Proof.
  decide equality; try apply bool_dec; try apply str_dec; try apply xfield_dec; apply (list_eq_dec N.eq_dec).
Defined.
Definition xoption_dec : forall a b : xoption, {a = b} + {a <> b}.
Proof. decide equality; try apply str_dec; try apply Z.eq_dec; apply info_dec. Defined.
Definition xroot_dec : forall a b : xroot, {a = b} + {a <> b}.
Proof.
  decide equality; try apply str_dec; try apply (list_eq_dec xprop_dec); try apply (list_eq_dec str_dec);
    try apply (list_eq_dec xoption_dec);
    try apply (opt_dec (pair_dec str_dec N.eq_dec));
    apply (list_eq_dec (pair_dec (pair_dec str_dec str_dec) str_dec)).
Defined.
Definition xroot_eqb (a b : xroot) : bool := if xroot_dec a b then true else false.

(* [wanted]: the packages the image names; [first]: the API as APIFromImage returned it (packages in
   any order, schema maps in any order); [second]: the export of the re-imported set, keyed by
   (package incl. sub-package, name), any order *)
Inductive c15case :=
| C15Case (d : desc) (svcs : list svcd) (wanted : list str)
          (cls_export : N) (first : xapi)
          (cls_import : N) (second : list (ref * xroot)).

Fixpoint assoc (l : list (ref * xroot)) (k : ref) : option xroot :=
  match l with
  | [] => None
  | (k', r) :: rest => if ref_eqb k' k then Some r else assoc rest k
  end.
Definition same_map (a b : list (ref * xroot)) : bool :=
  Nat.eqb (length a) (length b) &&
  forallb (fun kr => match assoc b (fst kr) with Some r => xroot_eqb r (snd kr) | None => false end) a.

(* package names with their indirect flag and sub-package names, as sets *)
Definition strs_subset (a b : list str) : bool := forallb (fun x => existsb (str_eqb x) b) a.
Definition shape_eqb (a b : str * bool * list str) : bool :=
  str_eqb (fst (fst a)) (fst (fst b)) && Bool.eqb (snd (fst a)) (snd (fst b)) &&
  strs_subset (snd a) (snd b) && strs_subset (snd b) (snd a).
Definition same_shape (a b : list (str * bool * list str)) : bool :=
  Nat.eqb (length a) (length b) && forallb (fun x => existsb (shape_eqb x) b) a.
Definition same_api (a b : xapi) : bool :=
  same_map (api_entries a) (api_entries b) && same_shape (api_shape a) (api_shape b).

(* APIFromImage visits the included files in the (random) order of protoregistry.RangeFiles. A
   successful build does not depend on that order, but which failure is met first does: the observed
   class must be the class of some order. *)
Fixpoint insert_all {A} (x : A) (l : list A) : list (list A) :=
  match l with
  | [] => [[x]]
  | y :: r => (x :: l) :: map (cons y) (insert_all x r)
  end.
Fixpoint perms {A} (l : list A) : list (list A) :=
  match l with
  | [] => [[]]
  | x :: r => flat_map (insert_all x) (perms r)
  end.

(* all orders of up to four files; for more, the rotations and their reversals *)
Fixpoint rotations_from {A} (n : nat) (l : list A) : list (list A) :=
  match n with
  | O => []
  | S k => l :: match l with [] => [] | x :: r => rotations_from k (r ++ [x]) end
  end.
Definition orders {A} (l : list A) : list (list A) :=
  if Nat.leb (length l) 4 then perms l
  else let rs := rotations_from (length l) l in rs ++ map (@rev A) rs.

Definition check_export (D : desc) (svcs : list svcd) (wanted : list str) (cls_export : N) (first : xapi) : bool :=
  let fs := selected D wanted in
  (* addStructure runs first; an error of it is the outcome, whatever the order of the services *)
  match add_structure wanted (api_init wanted) svcs with
  | RErr _ => N.eqb cls_export 1
  | ROk api0 =>
  (* vm_compute is call-by-value: branch explicitly so that the orders are only tried when needed *)
  if match omap fst (ReflectNames.o_reflect_checked D fs) with
     | Ok st =>
         (* what the round-trip theorem assumes of a reflected set, checked on every case *)
         keys_distinct st && set_importable st && set_closed st &&
         match api_of_set_from api0 st with
         | Ok api => N.eqb cls_export 0 && same_api api first
         | _ => false
         end
     | _ => false
     end
  then true
  else
    (* which failure is met first depends on the order (before fix 0e6056c, with a split-name collision,
       also whether the build succeeded and with which schema under the shared name): the observed
       outcome must be the outcome of some order *)
    existsb (fun p => match api_from_image D svcs wanted p with
                      | Ok api => N.eqb cls_export 0 && same_api api first
                      | o => N.eqb cls_export (cls o)
                      end) (orders fs)
  end.

Definition exported (st : sset) : list (ref * xroot) :=
  match export_set st with Ok l => l | _ => [] end.

Definition check_import (cls_export : N) (first : xapi) (cls_import : N) (second : list (ref * xroot)) : bool :=
  if negb (N.eqb cls_export 0) then true
  else match import_packages first with
       | ROk st => N.eqb cls_import 0 && same_map (exported st) second
       | RErr _ => N.eqb cls_import 1
       end.

Definition c15_check (c : c15case) : bool :=
  match c with C15Case D svcs wanted ce first ci second =>
    check_export D svcs wanted ce first && check_import ce first ci second
  end.

Definition c15_failing (c : c15case) : list N :=
  match c with C15Case D svcs wanted ce first ci second =>
    (if check_export D svcs wanted ce first then [] else [0%N]) ++ (if check_import ce first ci second then [] else [1%N])
  end.

(* ExportCorr.v — correspondence cases for C15: the source-API export of the reflected schemas
   (structure.APIFromImage), the re-import (PackageSetFromSourceAPI) and the second export, as
   observed on the real code, checked against the model by vm_compute. *)
From Coq Require Import String List NArith ZArith Bool.
From J5V.lib Require Import Outcome Corr.
From J5V.model Require Import ReflectDesc ReflectSchema Reflect ReflectSpec ReflectCorr Export.
Import ListNotations.
Local Open Scope bool_scope.

(* [first]/[second]: exported schemas keyed by (package incl. sub-package, name), any order *)
Inductive c15case :=
| C15Case (d : desc) (files : list str)
          (cls_export : N) (first : list (ref * root))
          (cls_import : N) (second : list (ref * root)).

Fixpoint assoc (l : list (ref * root)) (k : ref) : option root :=
  match l with
  | [] => None
  | (k', r) :: rest => if ref_eqb k' k then Some r else assoc rest k
  end.
Definition same_map (a b : list (ref * root)) : bool :=
  Nat.eqb (length a) (length b) &&
  forallb (fun kr => match assoc b (fst kr) with Some r => root_eqb r (snd kr) | None => false end) a.

Definition files_of (D : desc) (paths : list str) : option (list filed) :=
  fold_right (fun p acc => match find_file D p, acc with Some f, Some l => Some (f :: l) | _, _ => None end) (Some []) paths.

(* APIFromImage visits the included files in the (random) order of protoregistry.RangeFiles. A
   successful build does not depend on that order, but which failure is met first does: the observed
   class must be the class of some order. *)
Fixpoint insert_all {A} (x : A) (l : list A) : list (list A) :=
  match l with
  | [] => [[x]]
  | y :: r => (x :: l) :: map (cons y) (insert_all x r)
  end.
Fixpoint perms {A} (l : list A) : list (list A) :=
  match l with
  | [] => [[]]
  | x :: r => flat_map (insert_all x) (perms r)
  end.

(* all orders of up to four files; for more, the rotations and their reversals *)
Fixpoint rotations_from {A} (n : nat) (l : list A) : list (list A) :=
  match n with
  | O => []
  | S k => l :: match l with [] => [] | x :: r => rotations_from k (r ++ [x]) end
  end.
Definition orders {A} (l : list A) : list (list A) :=
  if Nat.leb (length l) 4 then perms l
  else let rs := rotations_from (length l) l in rs ++ map (@rev A) rs.

Definition check_export (D : desc) (files : list str) (cls_export : N) (first : list (ref * root)) : bool :=
  match files_of D files with
  | None => false
  | Some fs =>
      (* vm_compute is call-by-value: branch explicitly so that the orders are only tried when needed *)
      if match reflect D fs with
         | Ok st =>
             (* what the round-trip theorem assumes of a reflected set, checked on every case *)
             keys_distinct st && set_importable st && set_closed st &&
             match export_set st with
             | Ok l => N.eqb cls_export 0 && same_map l first
             | _ => false
             end
         | _ => false
         end
      then true
      else if N.eqb cls_export 0 then false
      else existsb (fun p => N.eqb cls_export (cls (reflect D p))) (orders fs)
  end.

Definition exported (st : sset) : list (ref * root) :=
  match export_set st with Ok l => l | _ => [] end.

Definition check_import (cls_export : N) (first : list (ref * root)) (cls_import : N) (second : list (ref * root)) : bool :=
  if negb (N.eqb cls_export 0) then true
  else match import_api first with
       | ROk st => N.eqb cls_import 0 && same_map (exported st) second
       | RErr _ => N.eqb cls_import 1
       end.

Definition c15_check (c : c15case) : bool :=
  match c with C15Case D files ce first ci second =>
    check_export D files ce first && check_import ce first ci second
  end.

Definition c15_failing (c : c15case) : list N :=
  match c with C15Case D files ce first ci second =>
    (if check_export D files ce first then [] else [0%N]) ++ (if check_import ce first ci second then [] else [1%N])
  end.

(* CodecTypes.v — the J5 schema as the codec sees it, and dynamic message
   values with proto3 presence semantics (owner: dec; shared with enc).

   What the codec works from is, per message type, the list that
   [ClientProperties()] returns (lib/j5schema/root_schema.go): flattened
   sub-objects already inlined (their properties carry a proto path of length
   > 1) and exposed oneofs present as virtual properties with an empty proto
   path whose inner properties address fields of the same message.  The harness
   dumps exactly that from the real reflector, so flattening / exposure logic
   is an input here, not re-implemented.

   Names (json names, schema names, enum option names, map keys) are byte
   strings.  No proofs in this file. *)
From Coq Require Import List NArith ZArith Bool.
From J5V.lib Require Import Json.
Import ListNotations.
Local Open Scope N_scope.
Local Open Scope bool_scope.

(* ------------------------------------------------------------ schema *)
Inductive scalar_kind :=
| KInt32 | KInt64 | KUint32 | KUint64
| KFloat32 | KFloat64
| KBool | KString | KBytes | KKey
| KDate | KDecimal | KTimestamp.

Definition scalar_kind_eqb (a b : scalar_kind) : bool :=
  match a, b with
  | KInt32, KInt32 | KInt64, KInt64 | KUint32, KUint32 | KUint64, KUint64
  | KFloat32, KFloat32 | KFloat64, KFloat64 | KBool, KBool | KString, KString
  | KBytes, KBytes | KKey, KKey | KDate, KDate | KDecimal, KDecimal
  | KTimestamp, KTimestamp => true
  | _, _ => false
  end.

Definition all_scalar_kinds : list scalar_kind :=
  [KInt32; KInt64; KUint32; KUint64; KFloat32; KFloat64; KBool; KString; KBytes; KKey;
   KDate; KDecimal; KTimestamp].

Inductive field_ty :=
| FScalar (k : scalar_kind)
| FEnum (ref : bytes)            (* name of an SEnum in the environment *)
| FObject (ref : bytes)          (* name of an SObject *)
| FOneof (ref : bytes)           (* name of an SOneof *)
| FArray (item : field_ty)
| FMap (item : field_ty)         (* string keys *)
| FAny (pb : bool).              (* true: google.protobuf.Any, false: j5.types.any.v1.Any *)

(* one client property of an object or oneof *)
Record property := mkProp {
  p_json : bytes;          (* JSON member name *)
  p_path : list N;         (* proto field numbers from the message that holds the
                              property set; length > 1: reached through flattened
                              sub-messages; []: an exposed oneof (virtual property,
                              its inner properties address the same message) *)
  p_required : bool;
  p_explicit : bool;       (* the final proto field tracks presence explicitly
                              (optional, message-typed, member of a oneof) *)
  p_siblings : list N;     (* numbers of the other members of the final field's
                              proto oneof ([] when it is in none) *)
  p_ty : field_ty
}.

Definition prop_flattened (p : property) : bool := (1 <? N.of_nat (length (p_path p))).
Definition prop_exposed_oneof (p : property) : bool :=
  match p_path p, p_ty p with [], FOneof _ => true | _, _ => false end.

Inductive schema :=
| SObject (props : list property)
| SOneof (props : list property)
| SEnum (prefix : bytes) (options : list (bytes * Z)).   (* short name, number; in declaration order *)

Definition env := list (bytes * schema).

Fixpoint lookup (e : env) (name : bytes) : option schema :=
  match e with
  | [] => None
  | (n, s) :: r => if bytes_eqb n name then Some s else lookup r name
  end.

Fixpoint find_prop (ps : list property) (json : bytes) : option property :=
  match ps with
  | [] => None
  | p :: r => if bytes_eqb (p_json p) json then Some p else find_prop r json
  end.

(* EnumSchema.OptionByName *)
Definition trim_prefix (p s : bytes) : bytes :=
  match strip_prefix p s with Some r => r | None => s end.

Fixpoint option_by_short (opts : list (bytes * Z)) (short : bytes) : option Z :=
  match opts with
  | [] => None
  | (n, z) :: r => if bytes_eqb n short then Some z else option_by_short r short
  end.

(* the short name as written takes precedence (a short name may itself begin
   with the prefix), then the name with the prefix trimmed once *)
Definition option_by_name (prefix : bytes) (opts : list (bytes * Z)) (name : bytes) : option Z :=
  match option_by_short opts name with
  | Some z => Some z
  | None => option_by_short opts (trim_prefix prefix name)
  end.

Fixpoint option_by_number (opts : list (bytes * Z)) (num : Z) : option bytes :=
  match opts with
  | [] => None
  | (n, z) :: r => if Z.eqb z num then Some n else option_by_number r num
  end.

(* references resolve to the right sort of schema; array / map items are of the
   classes the reflector can build (scalar, enum, object, oneof) *)
Fixpoint ty_wf (e : env) (nested : bool) (t : field_ty) : bool :=
  match t with
  | FScalar _ => true
  | FEnum r => match lookup e r with Some (SEnum _ _) => true | _ => false end
  | FObject r => match lookup e r with Some (SObject _) => true | _ => false end
  | FOneof r => match lookup e r with Some (SOneof _) => true | _ => false end
  | FArray i | FMap i => negb nested && ty_wf e true i
  | FAny _ => negb nested
  end.

Definition prop_wf (e : env) (p : property) : bool :=
  ty_wf e false (p_ty p) &&
  match p_path p with
  | [] => match p_ty p with FOneof _ => true | _ => false end
  | _ => true
  end.

Definition schema_wf (e : env) (s : schema) : bool :=
  match s with
  | SObject ps | SOneof ps => forallb (prop_wf e) ps
  | SEnum _ _ => true
  end.

Definition env_wf (e : env) : bool := forallb (fun ns => schema_wf e (snd ns)) e.

(* ------------------------------------------------------------ values *)
(* A message value holds exactly the populated fields (protoreflect Has/Range),
   ordered by field number.  Well-known scalar messages are ordinary messages:
     google.protobuf.Timestamp   1 seconds (VInt), 2 nanos (VInt)
     j5.types.date.v1.Date       1 year, 2 month, 3 day (VInt)
     j5.types.decimal.v1.Decimal 1 value (VStr)
     j5.types.any.v1.Any         1 type_name (VStr), 2 proto (VBytes), 3 j5_json (VBytes)
     google.protobuf.Any         1 type_url (VStr), 2 value (VBytes)
   Floats are IEEE-754 bit patterns (32 bits for float32, 64 for float64). *)
Inductive pval :=
| VInt (z : Z)                 (* int32 / int64 / uint32 / uint64 *)
| VBool (b : bool)
| VStr (s : bytes)             (* string, key *)
| VBytes (s : bytes)
| VFloat (bits : N)
| VEnum (n : Z)
| VMsg (fields : list (N * pval))
| VList (items : list pval)
| VMap (entries : list (bytes * pval)).   (* insertion order; compare as sets *)

Definition msg := list (N * pval).

(* the value an implicit-presence field cannot be distinguished from "unset" at *)
Definition is_zero (v : pval) : bool :=
  match v with
  | VInt z => Z.eqb z 0
  | VBool b => negb b
  | VStr s | VBytes s => match s with [] => true | _ => false end
  | VFloat bits => bits =? 0           (* -0.0 and NaN count as set *)
  | VEnum n => Z.eqb n 0
  | VMsg _ => false
  | VList l => match l with [] => true | _ => false end
  | VMap l => match l with [] => true | _ => false end
  end.

Fixpoint msg_get (n : N) (m : msg) : option pval :=
  match m with
  | [] => None
  | (k, v) :: r => if k =? n then Some v else msg_get n r
  end.

Fixpoint msg_del (n : N) (m : msg) : msg :=
  match m with
  | [] => []
  | (k, v) :: r => if k =? n then msg_del n r else (k, v) :: msg_del n r
  end.

Fixpoint msg_put (n : N) (v : pval) (m : msg) : msg :=
  match m with
  | [] => [(n, v)]
  | (k, w) :: r =>
      if k =? n then (n, v) :: r
      else if n <? k then (n, v) :: m
      else (k, w) :: msg_put n v r
  end.

Definition msg_clear_all (ns : list N) (m : msg) : msg := fold_left (fun a n => msg_del n a) ns m.

Definition msg_has (n : N) (m : msg) : bool :=
  match msg_get n m with Some _ => true | None => false end.

(* protoreflect Message.Set: members of the same oneof are cleared; an
   implicit-presence field holding its zero value is not populated; empty lists
   and maps are never populated *)
Definition msg_set (explicit : bool) (siblings : list N) (n : N) (v : pval) (m : msg) : msg :=
  match v with
  | VList [] | VMap [] => msg_del n m
  | _ =>
    if negb explicit && is_zero v then msg_del n m
    else msg_put n v (msg_clear_all siblings m)
  end.

(* Message.Mutable on a message-typed field: the existing sub-message, or a new
   empty one that is now populated *)
Definition msg_mutable (siblings : list N) (n : N) (m : msg) : msg * msg :=
  match msg_get n m with
  | Some (VMsg sub) => (sub, m)
  | _ => ([], msg_put n (VMsg []) (msg_clear_all siblings m))
  end.

Fixpoint map_set (k : bytes) (v : pval) (es : list (bytes * pval)) : list (bytes * pval) :=
  match es with
  | [] => [(k, v)]
  | (k', w) :: r => if bytes_eqb k' k then (k, v) :: r else (k', w) :: map_set k v r
  end.

Fixpoint map_get (k : bytes) (es : list (bytes * pval)) : option pval :=
  match es with
  | [] => None
  | (k', w) :: r => if bytes_eqb k' k then Some w else map_get k r
  end.

(* well-known scalar messages, zero members omitted as Range would *)
Definition wkt_fields (fs : list (N * pval)) : pval :=
  VMsg (filter (fun kv => negb (is_zero (snd kv))) fs).
Definition mk_timestamp (seconds nanos : Z) : pval := wkt_fields [(1, VInt seconds); (2, VInt nanos)].
Definition mk_date (y mo d : Z) : pval := wkt_fields [(1, VInt y); (2, VInt mo); (3, VInt d)].
Definition mk_decimal (s : bytes) : pval := wkt_fields [(1, VStr s)].

(* structural equality, maps compared as sets of (key, value) *)
Fixpoint pval_eqb (a b : pval) {struct a} : bool :=
  match a, b with
  | VInt x, VInt y => Z.eqb x y
  | VBool x, VBool y => Bool.eqb x y
  | VStr x, VStr y => bytes_eqb x y
  | VBytes x, VBytes y => bytes_eqb x y
  | VFloat x, VFloat y => x =? y
  | VEnum x, VEnum y => Z.eqb x y
  | VMsg x, VMsg y =>
      (fix go (x y : list (N * pval)) {struct x} : bool :=
         match x, y with
         | [], [] => true
         | (k, v) :: r, (k', v') :: r' => (k =? k') && pval_eqb v v' && go r r'
         | _, _ => false
         end) x y
  | VList x, VList y =>
      (fix go (x y : list pval) {struct x} : bool :=
         match x, y with
         | [], [] => true
         | v :: r, v' :: r' => pval_eqb v v' && go r r'
         | _, _ => false
         end) x y
  | VMap x, VMap y =>
      (N.of_nat (length x) =? N.of_nat (length y)) &&
      (fix go (x : list (bytes * pval)) {struct x} : bool :=
         match x with
         | [] => true
         | (k, v) :: r =>
             match map_get k y with
             | Some v' => pval_eqb v v'
             | None => false
             end && go r
         end) x
  | _, _ => false
  end.

Definition msg_eqb (a b : msg) : bool := pval_eqb (VMsg a) (VMsg b).

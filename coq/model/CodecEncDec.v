(* CodecEncDec.v — the decoder as it acts on a JSON tree (internal/codec/decoder.go:
   decodeObjectInner, decodeOneofInner, decodeValue and its arms, decodeAny; the Go->proto
   half of lib/j5reflect/value_go.go scalarReflectFromGo; CreateField / buildValue(create)
   of property_set.go; protoreflect Set / Mutable / Append through CodecTypes).
   This is the reading direction of C01, stated on Json.jvalue trees (the token plumbing of
   encoding/json is dec's model/CodecDec.v; proofs/CodecEncProofs ties trees to text by
   strict_parse (print J) = J, and the correspondence stream compares this model, the real
   decoder and dec's token-level model on every generated document).
   Parameters: parse_float is32 s (strconv.ParseFloat(s, 32 | 64) as IEEE bits of the field's
   width; None for a syntax or range error) and parse_time (time.Parse(time.RFC3339, s) as (Unix seconds, nanos)).
   No proofs in this file. *)
From Coq Require Import String List NArith ZArith Bool.
From J5V.lib Require Import Outcome Json JsonPrint Base64 Civil Decimal.
From J5V.model Require Import CodecTypes CodecEnc.
Import ListNotations.
Local Open Scope N_scope.
Local Open Scope bool_scope.

Definition in_rangeZ (lo hi z : Z) : bool := (lo <=? z)%Z && (z <=? hi)%Z.
Definition max_u64 : Z := 18446744073709551615%Z.
Definition max_nesting : N := 10000.     (* decoder.go maxNestingDepth *)

(* strconv.ParseUint(s, 10, bits): no sign allowed *)
Definition parse_unsigned (hi : Z) (s : bytes) : option Z :=
  match parse_N s with
  | Some n => if (Z.of_N n <=? hi)%Z then Some (Z.of_N n) else None
  | None => None
  end.
(* strconv.ParseInt(s, 10, bits) *)
Definition parse_signed (lo hi : Z) (s : bytes) : option Z :=
  match parse_Z s with
  | Some z => if in_rangeZ lo hi z then Some z else None
  | None => None
  end.

(* oneofConflict (property_set.go): another member of the final field's proto oneof is
   populated in the message that holds it (reached without creating anything) *)
Fixpoint oneof_conflict (path : list N) (siblings : list N) (m : msg) : bool :=
  match path with
  | [] => false
  | [_] => existsb (fun n => msg_has n m) siblings
  | n :: rest =>
      match msg_get n m with
      | Some (VMsg sub) => oneof_conflict rest siblings sub
      | _ => false
      end
  end.

(* propSet.buildValue(create = true): Mutable() on every intermediate message of the proto
   path, then [k] on the message that holds the final field *)
Fixpoint holder (path : list N) (m : msg) (k : N -> msg -> outcome msg) : outcome msg :=
  match path with
  | [] => Err "Reflection Bug: no proto field"
  | [n] => k n m
  | n :: rest =>
      let '(sub, m1) := msg_mutable [] n m in
      obind (holder rest sub k) (fun sub' => Ok (msg_put n (VMsg sub') m1))
  end.

Fixpoint mem_b (x : bytes) (l : list bytes) : bool :=
  match l with
  | [] => false
  | y :: r => bytes_eqb x y || mem_b x r
  end.

(* ---- the scalar layer (scalarReflectFromGo on the Go value of one token) *)
Section DecScalar.
  Variable parse_float : bool -> bytes -> option N.
  Variable parse_time : bytes -> option (Z * Z).

  (* scalarReflectFromGo on the Go value of one token: Ok None is "invalid Value, nil error"
     (setValue then clears the field) *)
  Definition dec_int (k : scalar_kind) (j : jvalue) : outcome (option pval) :=
    match j with
    | JNum lit =>
        match k with
        | KUint64 =>
            match parse_unsigned max_u64 lit with
            | Some z => Ok (Some (VInt z))
            | None => Err "strconv.ParseUint"
            end
        | _ =>
          match parse_signed (-9223372036854775808) 9223372036854775807 lit with
          | None => Err "json.Number.Int64"
          | Some z =>
            match k with
            | KInt32 => if in_rangeZ (-2147483648) 2147483647 z then Ok (Some (VInt z)) else Err "out of range for int32"
            | KInt64 => Ok (Some (VInt z))
            | KUint32 => if in_rangeZ 0 4294967295 z then Ok (Some (VInt z)) else Err "out of range for uint32"
            | _ => Err "unsupported integer format"
            end
          end
        end
    | JStr s =>
        match (match k with
               | KInt32 => parse_signed (-2147483648) 2147483647 s
               | KInt64 => parse_signed (-9223372036854775808) 9223372036854775807 s
               | KUint32 => parse_unsigned 4294967295 s
               | KUint64 => parse_unsigned max_u64 s
               | _ => None
               end) with
        | Some z => Ok (Some (VInt z))
        | None => Err "strconv"
        end
    | _ => Err "type: expected int"
    end.

  (* strconv.ParseFloat at the width of the field (one rounding).  The float32 range test that
     follows in the Go code cannot fire: a 32-bit parse reports overflow as an error, and an
     infinity spelled out ("Inf", "Infinity") is an infinity at both widths. *)
  Definition dec_float (is32 : bool) (j : jvalue) : outcome (option pval) :=
    match j with
    | JNum t | JStr t =>
        match parse_float is32 t with
        | None => Err "strconv.ParseFloat"
        | Some b => Ok (Some (VFloat b))
        end
    | _ => Err "type: value can't float"
    end.

  Definition dec_scalar (k : scalar_kind) (j : jvalue) : outcome (option pval) :=
    match k with
    | KBool => match j with JBool b => Ok (Some (VBool b)) | _ => Err "type: expected bool" end
    | KString | KKey => match j with JStr s => Ok (Some (VStr s)) | _ => Err "type: expected string" end
    | KInt32 | KInt64 | KUint32 | KUint64 => dec_int k j
    | KFloat32 => dec_float true j
    | KFloat64 => dec_float false j
    | KBytes =>
        match j with
        | JStr s => match b64_lenient s with Some b => Ok (Some (VBytes b)) | None => Err "base64" end
        | _ => Err "type: expected []byte"
        end
    | KTimestamp =>
        match j with
        | JStr s => match parse_time s with Some (sec, ns) => Ok (Some (mk_timestamp sec ns)) | None => Err "time.Parse" end
        | _ => Err "type: expected timestamp"
        end
    | KDecimal =>
        match j with
        | JStr s | JNum s => match dec_normalise s with Some d => Ok (Some (mk_decimal d)) | None => Err "decimal" end
        | _ => Err "type: expected decimal"
        end
    | KDate =>
        match j with
        | JStr s => match date_from_string s with Some (y, mo, d) => Ok (Some (mk_date y mo d)) | None => Err "date" end
        | _ => Err "type: expected date"
        end
    end.

End DecScalar.

(* ---- the structure, generic in the scalar layer [dsc] (this family's dec_scalar, or the decoder
   family's scalar_from_go: the proofs need only the scalar round-trip law) *)
Section Dec.
  Variable dsc : scalar_kind -> jvalue -> outcome (option pval).
  (* the bytes stored for the value member of an Any: the Go code keeps json.Compact of the raw text,
     which for a compact document is [print v]; the decoder family's token-level model re-prints
     the tokens canonically *)
  Variable raw : jvalue -> bytes.
  (* the Go code detects a repeated key of a scalar/enum map with a set of the keys seen in this
     object (faithful: false); the decoder family's model also refuses a key the map already holds
     (true) — the same thing when decoding into a fresh message *)
  Variable mapchk : bool.
  (* Codec option WithProtoToAny: None = the default codec (an Any is stored as type name + JSON text; a
     google.protobuf.Any field cannot be filled); Some back = the payload text is decoded into the named
     type and marshalled, [back tn text] standing for resolver + Codec.decode + proto.Marshal *)
  Variable any_back : option (bytes -> bytes -> outcome bytes).
  Variable env : env.

  Definition is_container (j : jvalue) : bool := match j with JObj _ | JArr _ => true | _ => false end.

  (* decodeAny's body: "!type" must be a string; at most one other member, taken whole *)
  Fixpoint any_members (ms : list (bytes * jvalue)) (value : option jvalue) (ty : option bytes)
    : outcome (option jvalue * option bytes) :=
    match ms with
    | [] => Ok (value, ty)
    | (k, v) :: r =>
        if bytes_eqb k txt_type then
          match v with
          | JStr s => any_members r value (Some s)
          | _ => Err "unexpected token, expected string"
          end
        else match value with
             | Some _ => Err "multiple keys found in Any"
             | None => any_members r (Some v) ty
             end
    end.

  (* the checks of decodeOneofInner after the loop *)
  Definition oneof_post (props : list property) (m : msg) (found : list bytes) (constrain : option bytes)
    : outcome msg :=
    match found, constrain with
    | [], None => Ok m
    | [], Some c =>
        match find_prop props c with
        | None => Err "no such key"
        | Some p =>
            (* NewValue: message-typed members come into existence, leaves are untouched *)
            match p_path p with
            | [] => Ok m
            | path =>
              match p_ty p with
              | FObject _ | FOneof _ | FAny _ => holder path m (fun n h => Ok (snd (msg_mutable (p_siblings p) n h)))
              | _ => holder path m (fun n h => Ok h)
              end
            end
        end
    | [k0], Some c => if bytes_eqb k0 c then Ok m else Err "key does not match type"
    | [_], None => Ok m
    | _, _ => Err "multiple keys found in oneof"
    end.

  (* decodeValue for a non-null member value; [d] is the nesting depth on entry *)
  Fixpoint dec_value (fuel : nat) (d : N) (p : property) (j : jvalue) (m : msg) {struct fuel} : outcome msg :=
    match fuel with
    | O => OutOfFuel
    | S f =>
      match p_ty p with
      | FScalar k =>
          if is_container j then Err "unexpected token, expected scalar"
          else obind (dsc k j) (fun v =>
                 holder (p_path p) m (fun n h =>
                   Ok (match v with
                       | None => msg_del n h
                       | Some x => msg_set (p_explicit p) (p_siblings p) n x h
                       end)))
      | FEnum r =>
          match j with
          | JStr s =>
              match lookup env r with
              | Some (SEnum prefix opts) =>
                  match option_by_name prefix opts s with
                  | Some z => holder (p_path p) m (fun n h => Ok (msg_set (p_explicit p) (p_siblings p) n (VEnum z) h))
                  | None => Err "enum value not found"
                  end
              | _ => Err "schema"
              end
          | _ => Err "unexpected token, expected string"
          end
      | FObject r =>
          match j, lookup env r with
          | JObj ms, Some (SObject props) =>
              holder (p_path p) m (fun n h =>
                let '(sub, h1) := msg_mutable (p_siblings p) n h in
                obind (dec_members f d props ms sub []) (fun sub' => Ok (msg_put n (VMsg sub') h1)))
          | JObj _, _ => Err "schema"
          | _, _ => Err "unexpected token, expected {"
          end
      | FOneof r =>
          match j, lookup env r with
          | JObj ms, Some (SOneof props) =>
              match p_path p with
              | [] => dec_oneof f d props ms m [] [] None
              | path =>
                  holder path m (fun n h =>
                    let '(sub, h1) := msg_mutable (p_siblings p) n h in
                    obind (dec_oneof f d props ms sub [] [] None) (fun sub' => Ok (msg_put n (VMsg sub') h1)))
              end
          | JObj _, _ => Err "schema"
          | _, _ => Err "unexpected token, expected {"
          end
      | FArray it =>
          match j with
          | JArr js =>
              holder (p_path p) m (fun n h =>
                let existing := match msg_get n h with Some (VList l) => l | _ => [] end in
                obind (dec_items f d it js existing) (fun l => Ok (msg_set true (p_siblings p) n (VList l) h)))
          | _ => Err "unexpected token, expected ["
          end
      | FMap it =>
          match j with
          | JObj ms =>
              holder (p_path p) m (fun n h =>
                let existing := match msg_get n h with Some (VMap l) => l | _ => [] end in
                obind (dec_entries f d it ms existing []) (fun l => Ok (msg_set true (p_siblings p) n (VMap l) h)))
          | _ => Err "unexpected token, expected {"
          end
      | FAny pb =>
          match j with
          | JObj ms =>
              holder (p_path p) m (fun n h =>
                let '(sub, h1) := msg_mutable (p_siblings p) n h in
                obind (any_members ms None None) (fun vt =>
                  match snd vt, fst vt with
                  | None, _ => Err "no type found in Any"
                  | _, None => Err "no value found in Any"
                  | Some tn, Some v =>
                      match any_back with
                      | None =>
                          if pb then Err "proto is required for PB Any"
                          else Ok (msg_put n (VMsg (msg_set false [] 3 (VBytes (raw v)) (msg_set false [] 1 (VStr tn) sub))) h1)
                      | Some back =>
                          obind (back tn (raw v)) (fun pbytes =>
                            if pb then
                              Ok (msg_put n (VMsg (msg_set false [] 2 (VBytes pbytes) (msg_set false [] 1 (VStr (any_prefix ++ tn)) sub))) h1)
                            else
                              Ok (msg_put n (VMsg (msg_set false [] 3 (VBytes (raw v)) (msg_set false [] 2 (VBytes pbytes)
                                                    (msg_set false [] 1 (VStr tn) sub)))) h1))
                      end
                  end))
          | _ => Err "unexpected token, expected {"
          end
      end
    end
  (* one member: explicit null leaves the property alone; CreateField refuses a second value *)
  with dec_member (fuel : nat) (d : N) (p : property) (j : jvalue) (m : msg) (seen : list bytes) {struct fuel}
    : outcome (msg * list bytes) :=
    match fuel with
    | O => OutOfFuel
    | S f =>
      if max_nesting <? d + 1 then Err "exceeded max depth" else
      match j with
      | JNull => Ok (m, seen)
      | _ => if mem_b (p_json p) seen then Err "field is already set"
             else if oneof_conflict (p_path p) (p_siblings p) m then Err "conflicts with another member of the oneof"
             else obind (dec_value f (d + 1) p j m) (fun m' => Ok (m', p_json p :: seen))
      end
    end
  (* decodeObjectInner *)
  with dec_members (fuel : nat) (d : N) (props : list property) (ms : list (bytes * jvalue)) (m : msg)
                   (seen : list bytes) {struct fuel} : outcome msg :=
    match fuel with
    | O => OutOfFuel
    | S f =>
      match ms with
      | [] => Ok m
      | (k, v) :: r =>
          match find_prop props k with
          | None => Err "no such field"
          | Some p => obind (dec_member f d p v m seen) (fun ms' => dec_members f d props r (fst ms') (snd ms'))
          end
      end
    end
  (* decodeOneofInner *)
  with dec_oneof (fuel : nat) (d : N) (props : list property) (ms : list (bytes * jvalue)) (m : msg)
                 (seen found : list bytes) (constrain : option bytes) {struct fuel} : outcome msg :=
    match fuel with
    | O => OutOfFuel
    | S f =>
      match ms with
      | [] => oneof_post props m found constrain
      | (k, v) :: r =>
          if bytes_eqb k txt_type then
            match v with
            | JStr s => dec_oneof f d props r m seen found (Some s)
            | _ => Err "unexpected token, expected string"
            end
          else
            match find_prop props k with
            | None => Err "no such key"
            | Some p => obind (dec_member f d p v m seen) (fun ms' =>
                          dec_oneof f d props r (fst ms') (snd ms') (found ++ [k]) constrain)
            end
      end
    end
  (* the element loop of decodeArrayProperty *)
  with dec_items (fuel : nat) (d : N) (it : field_ty) (js : list jvalue) (acc : list pval) {struct fuel}
    : outcome (list pval) :=
    match fuel with
    | O => OutOfFuel
    | S f =>
      match js with
      | [] => Ok acc
      | j :: r =>
          match it with
          | FScalar k =>
              if is_container j then Err "unexpected token, expected scalar"
              else obind (dsc k j) (fun v =>
                     match v with
                     | None => Err "cannot append nil value"
                     | Some x => dec_items f d it r (acc ++ [x])
                     end)
          | FEnum ref =>
              match j, lookup env ref with
              | JStr s, Some (SEnum prefix opts) =>
                  match option_by_name prefix opts s with
                  | Some z => dec_items f d it r (acc ++ [VEnum z])
                  | None => Err "enum value not found"
                  end
              | JStr _, _ => Err "schema"
              | _, _ => Err "cannot set enum value"
              end
          | FObject ref =>
              match j, lookup env ref with
              | JObj ms, Some (SObject props) =>
                  obind (dec_members f d props ms [] []) (fun sub => dec_items f d it r (acc ++ [VMsg sub]))
              | JObj _, _ => Err "schema"
              | _, _ => Err "unexpected token, expected {"
              end
          | FOneof ref =>
              match j, lookup env ref with
              | JObj ms, Some (SOneof props) =>
                  obind (dec_oneof f d props ms [] [] [] None) (fun sub => dec_items f d it r (acc ++ [VMsg sub]))
              | JObj _, _ => Err "schema"
              | _, _ => Err "unexpected token, expected {"
              end
          | _ => Err "unknown array schema type"
          end
      end
    end
  (* decodeMapField *)
  with dec_entries (fuel : nat) (d : N) (it : field_ty) (ms : list (bytes * jvalue)) (acc : list (bytes * pval))
                   (seen : list bytes) {struct fuel} : outcome (list (bytes * pval)) :=
    match fuel with
    | O => OutOfFuel
    | S f =>
      match ms with
      | [] => Ok acc
      | (key, j) :: r =>
          match it with
          | FScalar k =>
              if mem_b key seen then Err "key already exists in map"
              else if mapchk && (match map_get key acc with Some _ => true | None => false end) then Err "key already exists in map"
              else if is_container j then Err "unexpected token, expected scalar"
              else obind (dsc k j) (fun v =>
                     match v with
                     | None => Err "cannot set nil value"
                     | Some x => dec_entries f d it r (map_set key x acc) (key :: seen)
                     end)
          | FEnum ref =>
              if mem_b key seen then Err "key already exists in map"
              else if mapchk && (match map_get key acc with Some _ => true | None => false end) then Err "key already exists in map" else
              match j, lookup env ref with
              | JStr s, Some (SEnum prefix opts) =>
                  match option_by_name prefix opts s with
                  | Some z => dec_entries f d it r (map_set key (VEnum z) acc) (key :: seen)
                  | None => Err "enum value not found"
                  end
              | JStr _, _ => Err "schema"
              | _, _ => Err "unexpected token, expected string"
              end
          | FObject ref =>
              match map_get key acc with
              | Some _ => Err "key already exists in map"
              | None =>
                match j, lookup env ref with
                | JObj ms', Some (SObject props) =>
                    obind (dec_members f d props ms' [] []) (fun sub => dec_entries f d it r (map_set key (VMsg sub) acc) seen)
                | JObj _, _ => Err "schema"
                | _, _ => Err "unexpected token, expected {"
                end
              end
          | FOneof ref =>
              match map_get key acc with
              | Some _ => Err "key already exists in map"
              | None =>
                match j, lookup env ref with
                | JObj ms', Some (SOneof props) =>
                    obind (dec_oneof f d props ms' [] [] [] None) (fun sub => dec_entries f d it r (map_set key (VMsg sub) acc) seen)
                | JObj _, _ => Err "schema"
                | _, _ => Err "unexpected token, expected {"
                end
              end
          | _ => Err "unknown map schema type"
          end
      end
    end.

  (* Codec.decodeRoot on a fresh message, for a document that is one JSON value *)
  Definition decode_tree_fuel (fuel : nat) (root : bytes) (j : jvalue) : outcome msg :=
    match lookup env root, j with
    | Some (SObject props), JObj ms => dec_members fuel 0 props ms [] []
    | Some (SOneof props), JObj ms => dec_oneof fuel 0 props ms [] [] [] None
    | Some (SObject _), _ | Some (SOneof _), _ => Err "unexpected token, expected {"
    | _, _ => Err "unsupported root schema type"
    end.
End Dec.

(* size of a tree: bounds the fuel *)
Fixpoint jsize (j : jvalue) : nat :=
  match j with
  | JArr l => S (fold_right (fun x a => jsize x + a)%nat O l)
  | JObj l => S (fold_right (fun kv a => jsize (snd kv) + a)%nat O l)
  | _ => 1%nat
  end.

Definition decode_tree dsc raw mapchk any_back (e : env) (root : bytes) (j : jvalue) : outcome msg :=
  decode_tree_fuel dsc raw mapchk any_back e (3 * jsize j + 3) root j.

(* JSONToProto on a text that is one well-formed document *)
Definition decode_text dsc any_back (e : env) (root : bytes) (txt : bytes) : outcome msg :=
  match strict_parse txt with
  | Some j => decode_tree dsc print false any_back e root j
  | None => Err "invalid JSON"
  end.

(* ProtoLayout.v — when a text is a layout of a token list: the texts of the tokens in order, separated by
   whitespace and // comments, each token followed by a byte that ends it. The character level of C05 is
   stated with this relation (proofs/ProtoLexProofs.v: the lexer of model/ProtoLex.v reads such a text back as
   exactly the tokens, whatever the separators are); the file correspondence evaluates [is_layout] on the
   bytes PrintFile wrote against the tokens the model prints (without the comment pseudo tokens), so every
   printed text of a run is inside the theorem. No proofs in this file. *)
From Coq Require Import List NArith Bool.
From J5V.model Require Import ProtoPrintLit ProtoPrint ProtoLex.
Import ListNotations.
Local Open Scope N_scope.
Local Open Scope bool_scope.

Definition punct_char (t : token) : option N :=
  match t with
  | TColon => Some 58 | TLBrace => Some 123 | TRBrace => Some 125 | TLBrack => Some 91 | TRBrack => Some 93
  | TComma => Some 44 | TSemi => Some 59 | TEq => Some 61 | TLParen => Some 40 | TRParen => Some 41
  | TLt => Some 60 | TGt => Some 62 | TDot => Some 46
  | _ => None
  end.

(* the bytes of a token; comment pseudo tokens have none (comments live in the separators) *)
Definition tok_text (t : token) : list N :=
  match t with
  | TIdent s | TLit s => s
  | TDetached _ | TLeading _ => []
  | _ => match punct_char t with Some c => [c] | None => [] end
  end.

Definition head_is (f : N -> bool) (s : list N) : bool := match s with c :: _ => f c | [] => false end.

(* a string literal as the printer's quoting writes it *)
Definition canonical_string (s : list N) : bool :=
  match parse_string_lit s with
  | Some v => forallb (fun b => b <? 256) v && bytes_eqb (print_string_lit v) s
  | None => false
  end.

(* a numeric literal that starts with a digit: all of it is read by readNumber and it is a valid number *)
Definition number_lit (s : list N) : bool :=
  match s with
  | c :: p => is_digit c && num_ok s && (match read_number false p with (_, []) => true | _ => false end)
  | [] => false
  end.

(* the literals of the file grammar: a quoted string, a sign followed by an identifier (-inf) or a number, a number *)
Inductive lit_class := LStr | LNegId (r : list N) | LNegNum (r : list N) | LNum.
Definition classify_lit (s : list N) : lit_class :=
  match s with
  | c :: r =>
      if c =? 34 then LStr
      else if c =? 45 then (if head_is is_ident_start r then LNegId r else LNegNum r)
      else LNum
  | [] => LNum
  end.

(* the raw tokens of a token of the file grammar (a sign and its literal are two raw tokens) *)
Definition rtoks_of (t : token) : list rtok :=
  match t with
  | TIdent s => [RId s]
  | TLit s => match classify_lit s with
              | LStr => [RStr s]
              | LNegId r => [RSym 45; RId r]
              | LNegNum r => [RSym 45; RNum r]
              | LNum => [RNum s]
              end
  | TDetached _ | TLeading _ => []
  | _ => match punct_char t with Some c => [RSym c] | None => [] end
  end.

Definition tok_ok (t : token) : bool :=
  match t with
  | TIdent s => is_ident s
  | TLit s => match classify_lit s with
              | LStr => canonical_string s
              | LNegId r => is_ident r
              | LNegNum r => number_lit r
              | LNum => number_lit s
              end
  | TDetached _ | TLeading _ => false
  | _ => true
  end.

(* the byte after the token ends it *)
Definition boundary (t : token) (rest : list N) : bool :=
  match t with
  | TIdent _ => negb (head_is is_ident_char rest)
  | TLit s => match classify_lit s with
              | LStr => true
              | LNegId _ => negb (head_is is_ident_char rest)
              | LNegNum _ | LNum => negb (head_is is_num_char rest)
              end
  | TDot => negb (head_is is_digit rest)
  | _ => true
  end.

(* whitespace and // comments; stops in front of the first byte of anything else (in_cmt: inside a comment) *)
Fixpoint eat_sep (in_cmt : bool) (s : list N) : list N :=
  match s with
  | [] => []
  | c :: r =>
      if in_cmt then (if c =? 10 then eat_sep false r else if c =? 0 then s else eat_sep true r)
      else if is_ws c then eat_sep false r
      else match c, r with
           | 47, 47 :: r' => eat_sep true r'
           | _, _ => s
           end
  end.

Fixpoint strip_prefix (p s : list N) : option (list N) :=
  match p, s with
  | [], _ => Some s
  | a :: p', b :: s' => if a =? b then strip_prefix p' s' else None
  | _ :: _, [] => None
  end.

Fixpoint is_layout (toks : list token) (s : list N) : bool :=
  match toks with
  | [] => match eat_sep false s with [] => true | _ => false end
  | t :: ts =>
      match strip_prefix (tok_text t) (eat_sep false s) with
      | Some rest => tok_ok t && boundary t rest && is_layout ts rest
      | None => false
      end
  end.

Definition is_cmt_token (t : token) : bool := match t with TDetached _ | TLeading _ => true | _ => false end.
Definition strip_cmt (ts : list token) : list token := filter (fun t => negb (is_cmt_token t)) ts.

(* the simplest layout: one space after every token *)
Definition spaced (ts : list token) : list N := flat_map (fun t => tok_text t ++ [32]) ts.

(* BclErrpos.v — model of internal/bcl/errpos/print.go humanString: the index
   and slice operations that could panic are explicit (lines[i] and
   errLine[:startCol-1], both on *bytes*: Go's len(errLine) is a byte length
   while columns count runes).  The rendered text itself is not modelled; the
   result records which branch was taken, how many context lines were printed
   and the width of the caret indentation.  No proofs in this file. *)
From Coq Require Import String List NArith ZArith Bool.
From J5V.lib Require Import Text Outcome.
From J5V.model Require Import BclLexer.
Import ListNotations.
Local Open Scope Z_scope.

Inductive hres :=
| HNoStart                      (* Start.isEmpty(): only "Position:" is printed *)
| HLineOutA                     (* <line out of range - a> *)
| HLineOutB (nctx : N)          (* <line out of range - b> *)
| HColOut (nctx : N)            (* <column out of range> *)
| HCaret (nctx : N) (width : N) (* the caret line, with the width of its indentation *).

(* lines[i] with a Go index: panics when out of range *)
Definition go_index {A} (l : list A) (i : Z) : outcome A :=
  if i <? 0 then Panic "index out of range (negative)"
  else match nth_error l (Z.to_nat i) with
       | Some x => Ok x
       | None => Panic "index out of range"
       end.

(* s[:n] on bytes *)
Definition go_slice_to (s : list N) (n : Z) : outcome (list N) :=
  if (n <? 0) || (Z.of_nat (length s) <? n) then Panic "slice bounds out of range"
  else Ok (firstn (Z.to_nat n) s).

(* the context loop: for lineNum := startLine-context; lineNum < startLine; lineNum++ *)
Fixpoint context_loop (fuel : nat) (lines : list (list N)) (line_num start_line : Z) (n : N) : outcome N :=
  match fuel with
  | O => Ok n
  | S f =>
    if line_num <? start_line then
      if line_num <? 1 then context_loop f lines (line_num + 1) start_line n
      else obind (go_index lines (line_num - 1)) (fun _ => context_loop f lines (line_num + 1) start_line (N.succ n))
    else Ok n
  end.

Definition caret_width (prefix : list N) : N :=
  fold_right (fun r a => ((if N.eqb r 9 then 2 else 1) + a)%N) 0%N (utf8_decode prefix).

(* humanString(err, lines, context) for a diagnostic with a position.
   [context] >= 0 (callers pass small constants). *)
Definition human_string (lines : list (list N)) (context : Z) (d : diag) : outcome hres :=
  let '(sl, sc) := dstart d in
  if (sl <? 0) && (sc <? 0) then Ok HNoStart else
  let start_line := sl + 1 in
  let start_col := sc + 1 in
  let nlines := Z.of_nat (length lines) in
  if nlines <? start_line then Ok HLineOutA else
  obind (context_loop (Z.to_nat context) lines (start_line - context) start_line 0%N) (fun nctx =>
    if (nlines <? start_line) || (start_line <? 1) then Ok (HLineOutB nctx) else
    obind (go_index lines (start_line - 1)) (fun err_line =>
      let len0 := Z.of_nat (length err_line) in
      let len1 := if start_col =? len0 + 1 then len0 + 1 else len0 in
      let err_line' := if start_col =? len0 + 1 then err_line ++ [32%N] else err_line in
      if (start_col <? 1) || (len1 <? start_col) then Ok (HColOut nctx) else
      obind (go_slice_to err_line' (start_col - 1)) (fun prefix =>
        Ok (HCaret nctx (caret_width prefix))))).

(* ErrorsWithSource.HumanString over all diagnostics *)
Fixpoint human_all (lines : list (list N)) (context : Z) (ds : list diag) : outcome (list hres) :=
  match ds with
  | [] => Ok []
  | d :: r => obind (human_string lines context d) (fun h =>
              obind (human_all lines context r) (fun hs => Ok (h :: hs)))
  end.

Definition human_bytes (input : list N) (context : Z) (ds : list diag) : outcome (list hres) :=
  human_all (split_on 10 input) context ds.

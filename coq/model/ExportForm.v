(* ExportForm.v — the source-API form of schemas: the messages of
     proto/j5/schema/v1/schema.proto (gen/j5/schema/v1/schema_j5pb)
       RootSchema { oneof type { Oneof, Object, Enum } }
       Field      { oneof type { any, oneof, object, enum, array, map, string, integer, float,
                                 bool, bytes, decimal, date, timestamp, key } }
       ObjectField / OneofField / EnumField { oneof schema { Ref ref; <inline schema> } ... }
       ObjectProperty, Enum.Option
   as a term type of its own, distinct from the reader's schema objects (ReflectSchema.v: root /
   fschema / prop).  The export (the export_ functions of Export.v) maps the reader's objects to these terms, the
   import (the import_ functions) maps these terms back.  The scalar alternatives are shared with the reader's
   ScalarSchema on purpose: in the Go code ScalarSchema.Proto IS the schema_j5pb.Field message.
   A scalar carries no Kind / WellKnownTypeName here: the import has to recompute them.
   No proofs here. *)
From Coq Require Import List NArith ZArith Bool.
From J5V.model Require Import ReflectDesc ReflectSchema.
Import ListNotations.

(* the `schema` oneof of ObjectField / OneofField / EnumField *)
Inductive xschema :=
| XRef (r : ref)     (* Ref { package, schema } *)
| XInline            (* an inline Object / Oneof / Enum: never produced by the export; content not modelled *)
| XUnset.            (* the oneof is not set *)

Inductive xfield :=
| XScalar (p : sproto)
| XAny (only_defined : bool) (types : list str) (lr : option tok)
| XEnum (s : xschema) (rules : option (list str * list str)) (lr : option tok) (ext : option tok)
| XObject (s : xschema) (flatten : bool) (rules : option tok) (ext : option tok)
| XOneof (s : xschema) (rules : option tok) (lr : option tok) (ext : option tok)
| XMap (item : xfield) (rules : option (option N * option N)) (ext : option (option str))
| XArray (item : xfield) (rules : option (option N * option N * option bool)) (ext : option (option str)).

(* ObjectProperty { name, proto_field, required, explicitly_optional, description, schema } *)
Inductive xprop :=
  XProp (name : str) (proto_field : list N) (required explicitly_optional : bool) (description : str) (s : xfield).
Definition xp_schema p := match p with XProp _ _ _ _ _ s => s end.

(* Enum.Option { name, number, description, info } *)
Inductive xoption := XOption (name : str) (number : Z) (description : str) (info : option (list (str * str))).

Inductive xroot :=
| XObjectR (name description : str) (entity : option (str * N)) (any_member : list str) (props : list xprop)
| XOneofR (name description : str) (props : list xprop)
| XEnumR (name description prefix : str) (options : list xoption) (info : list (str * str * str)).

Definition xroot_props r :=
  match r with XObjectR _ _ _ _ ps => ps | XOneofR _ _ ps => ps | XEnumR _ _ _ _ _ => [] end.

(* the references a field / root names *)
Definition xschema_refs (s : xschema) : list ref := match s with XRef r => [r] | _ => [] end.
Fixpoint xfield_refs (f : xfield) : list ref :=
  match f with
  | XEnum s _ _ _ | XObject s _ _ _ | XOneof s _ _ _ => xschema_refs s
  | XMap it _ _ | XArray it _ _ => xfield_refs it
  | _ => []
  end.
Definition xroot_refs (r : xroot) : list ref := flat_map (fun p => xfield_refs (xp_schema p)) (xroot_props r).

(* Pipeline.v — model of the downstream half of the toolchain (C16):
     internal/structure/build_package.go   addStructure, buildService, buildMethod, buildTopicMethod
     internal/j5s/j5convert/service.go      the ":name" -> "{snake}" half of the path mapping
     internal/j5client/package_from_source.go  methodFromSource, fillRequest
     internal/j5client/j5package.go         collectPackageRefs (walk with visited map)
     lib/j5schema/schema_walk.go            walkSchemaFields (list-request walk)
     internal/j5client/list.go              buildListRequest (shape checks)
     internal/export/convert.go, swagger.go convertSchema arm coverage, addMethod
   Strings are lists of bytes (N). No proofs in this file. *)
From Coq Require Import String Ascii List NArith Bool.
From J5V.lib Require Import Outcome Corr.
Import ListNotations.
Local Open Scope N_scope.
Local Open Scope bool_scope.

Definition str := list N.
Definition str_eqb : str -> str -> bool := list_eqb N.eqb.
Definition bytes_of (s : string) : str := map (fun a => N_of_ascii a) (list_ascii_of_string s).

Fixpoint has_prefix (p s : str) : bool :=
  match p, s with
  | [], _ => true
  | a :: p', b :: s' => (a =? b) && has_prefix p' s'
  | _ :: _, [] => false
  end.
Definition has_suffix (suf s : str) : bool := has_prefix (rev suf) (rev s).
Definition mem_str (x : str) (l : list str) : bool := existsb (str_eqb x) l.
Definition mem_string (x : string) (l : list string) : bool := existsb (String.eqb x) l.

(* strings.Split(s, sep) for a one-byte separator: always at least one part *)
Fixpoint split_on (sep : N) (s : str) : list str :=
  match s with
  | [] => [[]]
  | c :: r =>
      if c =? sep then [] :: split_on sep r
      else match split_on sep r with
           | p :: ps => (c :: p) :: ps
           | [] => [[c]]
           end
  end.
(* strings.Join(parts, sep) *)
Fixpoint join_with (sep : N) (ps : list str) : str :=
  match ps with
  | [] => []
  | [p] => p
  | p :: r => p ++ sep :: join_with sep r
  end.

Definition SLASH : N := 47.
Definition COLON : N := 58.
Definition LBRACE : N := 123.
Definition RBRACE : N := 125.
Definition STAR : N := 42.
Definition DOT : N := 46.

(* ------------------------------------------------------------------ *)
(* addStructure: dispatch on the service name                           *)
Inductive svc_kind := KService | KIgnored | KTopic | KUnsupported.
Definition svc_kind_code (k : svc_kind) : N :=
  match k with KService => 0 | KIgnored => 1 | KTopic => 2 | KUnsupported => 3 end.

Definition suffix_table : list string := ["Service"; "Sandbox"; "Events"; "Topic"]%string.

Definition classify_service (name : str) : svc_kind :=
  if has_suffix (bytes_of "Service") name || has_suffix (bytes_of "Sandbox") name then KService
  else if has_suffix (bytes_of "Events") name then KIgnored
  else if has_suffix (bytes_of "Topic") name then KTopic
  else KUnsupported.

(* ------------------------------------------------------------------ *)
(* descriptor-level view of a service method (what buildMethod reads)   *)
Record field_names := { f_proto : str; f_json : str }.

Record meth_desc := {
  md_name : str;
  md_in_same_pkg : bool;        (* input.ParentFile().Package() == method.ParentFile().Package() *)
  md_in_name : str;             (* input.Name() *)
  md_out_name : str;            (* output.Name() *)
  md_out_full : str;            (* output.FullName() *)
  md_http : option (N * str);   (* (pattern arm 1..5 = get post put delete patch | 0 other, path); None = no http rule *)
  md_in_fields : list field_names
}.

(* verbs: client_j5pb.HTTPMethod numbers *)
Definition GET : N := 1.
Definition POST : N := 2.
Definition PUT : N := 3.
Definition DELETE : N := 4.
Definition PATCH : N := 5.

Definition invalid_chars : str := [LBRACE; RBRACE; STAR; COLON].

Fixpoint last_or (d : N) (s : str) : N :=
  match s with [] => d | [c] => c | _ :: r => last_or d r end.

(* buildMethod, one path part: "" stays, "{x}" -> ":" ++ jsonName(field x), others must not contain {}*: *)
Definition map_part (fields : list field_names) (part : str) : outcome str :=
  match part with
  | [] => Ok []
  | c :: rest =>
      if (c =? LBRACE) && (last_or 0 part =? RBRACE) then
        let name := removelast rest in
        match find (fun f => str_eqb (f_proto f) name) fields with
        | Some f => Ok (COLON :: f_json f)
        | None => Err "path field not found in input"
        end
      else if existsb (fun x => existsb (N.eqb x) invalid_chars) part then Err "invalid path part"
      else Ok part
  end.

Fixpoint map_parts (fields : list field_names) (parts : list str) : outcome (list str) :=
  match parts with
  | [] => Ok []
  | p :: r => obind (map_part fields p) (fun p' => obind (map_parts fields r) (fun r' => Ok (p' :: r')))
  end.

Definition to_client_path (fields : list field_names) (path : str) : outcome str :=
  omap (join_with SLASH) (map_parts fields (split_on SLASH path)).

Definition HTTPBODY : str := bytes_of "google.api.HttpBody".
Definition EMPTY : str := bytes_of "google.protobuf.Empty".

Record src_method := {
  sm_name : str; sm_verb : N; sm_path : str; sm_req : str; sm_resp : str
}.

Definition build_method (m : meth_desc) : outcome src_method :=
  if negb (md_in_same_pkg m && str_eqb (md_in_name m) (md_name m ++ bytes_of "Request")) then
    Err "input message name"
  else if negb (str_eqb (md_out_name m) (md_name m ++ bytes_of "Response"))
          && negb (str_eqb (md_out_full m) HTTPBODY) then
    Err "output message name"
  else match md_http m with
       | None => Err "missing http rule"
       | Some (verb, path) =>
           if (verb =? 0) || (5 <? verb) then Err "unsupported http method"
           else obind (to_client_path (md_in_fields m) path) (fun p =>
                  Ok {| sm_name := md_name m; sm_verb := verb; sm_path := p;
                        sm_req := md_in_name m; sm_resp := md_out_name m |})
       end.

Definition build_topic_method (m : meth_desc) : outcome str :=
  if negb (md_in_same_pkg m && str_eqb (md_in_name m) (md_name m ++ bytes_of "Message")) then
    Err "topic input message name"
  else if negb (str_eqb (md_out_full m) EMPTY) then Err "topic output"
  else Ok (md_name m).

Fixpoint omapM {A B} (f : A -> outcome B) (l : list A) : outcome (list B) :=
  match l with
  | [] => Ok []
  | x :: r => obind (f x) (fun y => obind (omapM f r) (fun ys => Ok (y :: ys)))
  end.

Record svc_desc := { sd_sub : str; sd_name : str; sd_methods : list meth_desc }.   (* sd_sub: sub-package the service file is in *)
Record src_service := { ss_sub : str; ss_name : str; ss_methods : list src_method }.
Record src_api := { sa_services : list src_service; sa_topics : list (str * list str) }.

(* addStructure over the services of the wanted package, in order; first error wins *)
Fixpoint add_structure (svcs : list svc_desc) (acc : src_api) : outcome src_api :=
  match svcs with
  | [] => Ok acc
  | s :: r =>
      match classify_service (sd_name s) with
      | KService =>
          obind (omapM build_method (sd_methods s)) (fun ms =>
            add_structure r {| sa_services := sa_services acc ++ [{| ss_sub := sd_sub s; ss_name := sd_name s; ss_methods := ms |}];
                               sa_topics := sa_topics acc |})
      | KIgnored => add_structure r acc
      | KTopic =>
          obind (omapM build_topic_method (sd_methods s)) (fun ms =>
            add_structure r {| sa_services := sa_services acc; sa_topics := sa_topics acc ++ [(sd_name s, ms)] |})
      | KUnsupported => Err "unsupported service name"
      end
  end.

(* ------------------------------------------------------------------ *)
(* compiler side of the path mapping (j5convert/service.go): ":name" -> "{ToSnake name}" *)
Definition http_part (to_snake : str -> str) (part : str) : str :=
  match part with
  | c :: name => if c =? COLON then LBRACE :: to_snake name ++ [RBRACE] else part
  | [] => part
  end.
Definition to_http_path (to_snake : str -> str) (path : str) : str :=
  join_with SLASH (map (http_part to_snake) (split_on SLASH path)).

(* ------------------------------------------------------------------ *)
(* schemas: what the client stage and the walks see                     *)
Definition key := (str * str)%type.    (* (package, schema name) *)
Definition key_eqb (a b : key) : bool := str_eqb (fst a) (fst b) && str_eqb (snd a) (snd b).
Definition mem_key (k : key) (l : list key) : bool := existsb (key_eqb k) l.

Inductive fty :=
| TScalar (alt : string)                 (* a j5.schema.v1.Field alternative that is not a ref/array/map *)
| TRef (alt : string) (k : key)          (* "object" | "oneof" | "enum" *)
| TArray (item : fty)
| TMap (item : fty).

Record prop := { p_json : str; p_ty : fty }.

Inductive schema :=
| SObject (props : list prop)
| SOneof (props : list prop)
| SEnum.

Definition env := list (key * schema).

Fixpoint lookup (g : env) (k : key) : option schema :=
  match g with
  | [] => None
  | (k', s) :: r => if key_eqb k k' then Some s else lookup r k
  end.

Definition schema_props (s : schema) : list prop :=
  match s with SObject ps | SOneof ps => ps | SEnum => [] end.

(* the (single) reference a field type leads to, through arrays and maps — walkRefs *)
Fixpoint ref_of (t : fty) : option key :=
  match t with
  | TScalar _ => None
  | TRef _ k => Some k
  | TArray i | TMap i => ref_of i
  end.

Definition prop_refs (ps : list prop) : list key :=
  flat_map (fun p => match ref_of (p_ty p) with Some k => [k] | None => [] end) ps.

Definition succs (s : schema) : list key := prop_refs (schema_props s).

(* ObjectSchema.ClientProperties (lib/j5schema/root_schema.go): an object field with flatten = true is
   replaced by the client properties of the object it refers to, recursively. A field type
   TRef "flatten" k is such a field. None: the recursion does not end (a flatten cycle: Go overflows its stack). *)
Definition is_flat (t : fty) : option key :=
  match t with TRef alt k => if String.eqb alt "flatten" then Some k else None | _ => None end.

Fixpoint client_props (fuel : nat) (g : env) (ps : list prop) : option (list prop) :=
  match fuel with
  | O => None
  | S f =>
      fold_right (fun p acc =>
          match acc with
          | None => None
          | Some rest =>
              match is_flat (p_ty p) with
              | Some k =>
                  match lookup g k with
                  | Some (SObject qs) => option_map (fun cs => cs ++ rest) (client_props f g qs)
                  | _ => Some (p :: rest)
                  end
              | None => Some (p :: rest)
              end
          end) (Some []) ps
  end.

Definition client_schema (g : env) (s : schema) : option schema :=
  match s with
  | SObject ps => option_map SObject (client_props (S (length g)) g ps)
  | _ => Some s
  end.

Fixpoint client_env_of (g : env) (l : env) : option env :=
  match l with
  | [] => Some []
  | (k, s) :: r =>
      match client_schema g s, client_env_of g r with
      | Some s', Some r' => Some ((k, s') :: r')
      | _, _ => None
      end
  end.
Definition client_env (g : env) : option env := client_env_of g g.

(* the schemas as the reference walks see them *)
Definition cenv (g : env) : env := match client_env g with Some g' => g' | None => g end.

(* collectPackageRefs.walkRefRoot: visited map; a ref that is not linked (To == nil) is an error
   when it points into one of the API's own packages, and skipped otherwise *)
Fixpoint walk_ref (fuel : nat) (g : env) (own : list str) (k : key) (vis : list key) : outcome (list key) :=
  match fuel with
  | O => OutOfFuel
  | S f =>
      match lookup g k with
      | None => if mem_str (fst k) own then Err "unlinked ref in linked package" else Ok vis
      | Some s =>
          if mem_key k vis then Ok vis
          else fold_left (fun acc m => obind acc (walk_ref f g own m)) (succs s) (Ok (k :: vis))
      end
  end.

Definition walk_refs (fuel : nat) (g : env) (own : list str) (ks : list key) (vis : list key) : outcome (list key) :=
  fold_left (fun acc m => obind acc (walk_ref fuel g own m)) ks (Ok vis).

(* walkSchemaFields as shipped in the snapshot: follows direct object / oneof properties, NO visited set.
   Returns the property paths (with the property type) in callback order. *)
Definition direct_ref (t : fty) : option key :=
  match t with
  | TRef alt k => if String.eqb alt "object" || String.eqb alt "oneof" then Some k else None
  | _ => None
  end.

Fixpoint walk_fields_unguarded (fuel : nat) (g : env) (k : key) (path : list str) : outcome (list (list str * fty)) :=
  match fuel with
  | O => OutOfFuel
  | S f =>
      match lookup g k with
      | None => Err "unsupported schema type <nil>"
      | Some s =>
          fold_left (fun acc p =>
              obind acc (fun out =>
                let pp := path ++ [p_json p] in
                match direct_ref (p_ty p) with
                | Some k' => omap (fun sub => out ++ (pp, p_ty p) :: sub) (walk_fields_unguarded f g k' pp)
                | None => Ok (out ++ [(pp, p_ty p)])
                end))
            (schema_props s) (Ok [])
      end
  end.

(* walkSchemaFields with the guard of the repaired code: a schema that is already being walked higher
   up the current path is not descended into again (its property is still reported). *)
Fixpoint walk_fields (fuel : nat) (g : env) (k : key) (anc : list key) (path : list str) : outcome (list (list str * fty)) :=
  match fuel with
  | O => OutOfFuel
  | S f =>
      match lookup g k with
      | None => Err "unsupported schema type <nil>"
      | Some s =>
          if mem_key k anc then Ok []
          else
          fold_left (fun acc p =>
              obind acc (fun out =>
                let pp := path ++ [p_json p] in
                match direct_ref (p_ty p) with
                | Some k' => omap (fun sub => out ++ (pp, p_ty p) :: sub) (walk_fields f g k' (k :: anc) pp)
                | None => Ok (out ++ [(pp, p_ty p)])
                end))
            (schema_props s) (Ok [])
      end
  end.

(* ------------------------------------------------------------------ *)
(* fillRequest                                                          *)
Definition path_param_names (path : str) : list str :=
  flat_map (fun part => match part with
                        | c :: name => if c =? COLON then [name] else []
                        | [] => []
                        end) (split_on SLASH path).

Record request := {
  r_path : list prop;
  r_query : list prop;
  r_body : option (list prop)
}.

Definition has_body (verb : N) : bool := negb (verb =? GET).

Definition fill_request (verb : N) (path : str) (props : list prop) : request :=
  let names := path_param_names path in
  let is_path := fun p => mem_str (p_json p) names in
  let pp := filter is_path props in
  let rest := filter (fun p => negb (is_path p)) props in
  if has_body verb then {| r_path := pp; r_query := []; r_body := Some rest |}
  else {| r_path := pp; r_query := rest; r_body := None |}.

(* buildListRequest: exactly one array property in the response, its items an object ref *)
Definition LIST_PKG : str := bytes_of "j5.list.v1".
Definition QUERY_REQUEST : str := bytes_of "QueryRequest".

Definition is_query_request (props : list prop) : bool :=
  existsb (fun p => match p_ty p with
                    | TRef alt k => String.eqb alt "object" && key_eqb k (LIST_PKG, QUERY_REQUEST)
                    | _ => false
                    end) props.

Definition array_props (props : list prop) : list fty :=
  flat_map (fun p => match p_ty p with TArray i => [i] | _ => [] end) props.

Definition list_root (resp : option (list prop)) : outcome key :=
  match resp with
  | None => Err "expected object schema, got nil"
  | Some ps =>
      match array_props ps with
      | [] => Err "no array found in response"
      | [i] => match i with
               | TRef alt k => if String.eqb alt "object" then Ok k else Err "expected object schema"
               | _ => Err "expected object schema"
               end
      | _ => Err "found multiple arrays in response"
      end
  end.

(* ------------------------------------------------------------------ *)
(* client stage: APIFromSource for one package with its sub-package      *)
Record client_method := {
  cm_service : str; cm_name : str; cm_verb : N; cm_path : str;
  cm_req : request; cm_resp : option (list prop); cm_list : option (list (list str * fty))
}.

Record image := {
  im_pkg : str;                  (* the wanted package, e.g. foo.v1 *)
  im_services : list svc_desc;   (* services of the sub-packages of im_pkg *)
  im_schemas : env;              (* every schema of the source API, keyed by (proto package, name) *)
  im_roots : list key            (* entity keys/state/event objects: their properties are walked too *)
}.

Definition sub_pkg (im : image) (sub : str) : str := im_pkg im ++ DOT :: sub.

(* PackageSetFromSourceAPI.assertRefsLink: every reference of every schema must be in the source API *)
Definition all_refs_link (g : env) : bool :=
  forallb (fun ks => forallb (fun k => match lookup g k with Some _ => true | None => false end)
                             (succs (snd ks))) g.

Definition HTTPBODY_SHORT : str := bytes_of "HttpBody".

Definition object_props (g : env) (k : key) : outcome (list prop) :=
  match lookup g k with
  | Some (SObject ps) => Ok ps
  | Some _ => Err "schema is not an object"
  | None => Err "schema not found"
  end.

Definition method_from_source (guarded : bool) (im : image) (sub svc : str) (m : src_method) : outcome client_method :=
  obind (object_props (im_schemas im) (sub_pkg im sub, sm_req m)) (fun req =>
  obind (if str_eqb (sm_resp m) HTTPBODY_SHORT then Ok None
         else omap Some (object_props (im_schemas im) (sub_pkg im sub, sm_resp m))) (fun resp =>
  obind (if is_query_request req then
           obind (list_root resp) (fun root =>
             let fuel := S (length (im_schemas im)) in
             omap Some (if guarded then walk_fields fuel (cenv (im_schemas im)) root [] []
                        else walk_fields_unguarded fuel (cenv (im_schemas im)) root []))
         else Ok None) (fun lst =>
  Ok {| cm_service := svc; cm_name := sm_name m; cm_verb := sm_verb m; cm_path := sm_path m;
        cm_req := fill_request (sm_verb m) (sm_path m) req; cm_resp := resp; cm_list := lst |}))).

Definition methods_from_source (guarded : bool) (im : image) (api : src_api) : outcome (list client_method) :=
  if negb (all_refs_link (im_schemas im)) then Err "source API does not contain all schemas it references"
  else omap (@concat _) (omapM (fun s => omapM (method_from_source guarded im (ss_sub s) (ss_name s)) (ss_methods s))
                               (sa_services api)).

(* roots of the reference walk for one method, in the order walkMethod visits them *)
Definition method_roots (m : client_method) : list key :=
  (match r_body (cm_req m) with Some ps => prop_refs ps | None => [] end)
  ++ prop_refs (r_path (cm_req m)) ++ prop_refs (r_query (cm_req m))
  ++ (match cm_resp m with Some ps => prop_refs ps | None => [] end).

Definition root_refs (g : env) (roots : list key) : list key :=
  flat_map (fun k => match lookup g k with Some s => succs s | None => [] end) roots.

(* walkRefRoot walks st.ClientProperties() of an object it reaches through a reference; request / response /
   entity roots are walked by their own Properties (walkRootObject), a flattened field of a root being an
   ordinary object reference there *)
Definition collect_refs (im : image) (ms : list client_method) : outcome (list key) :=
  walk_refs (S (length (im_schemas im))) (cenv (im_schemas im)) [im_pkg im]
            (root_refs (im_schemas im) (im_roots im) ++ flat_map method_roots ms) [].

(* ------------------------------------------------------------------ *)
(* swagger: convertSchema has an arm or fails                           *)
Fixpoint convert_ok (arms : list string) (t : fty) : bool :=
  match t with
  | TScalar alt => mem_string alt arms
  | TRef alt _ => mem_string (if String.eqb alt "flatten" then "object" else alt) arms   (* a flattened field is an object field *)
  | TArray i => mem_string "array" arms && convert_ok arms i
  | TMap i => mem_string "map" arms && convert_ok arms i
  end.

Definition props_ok (arms : list string) (ps : list prop) : bool :=
  forallb (fun p => convert_ok arms (p_ty p)) ps.

(* addMethod: path params, query params, body, response (a nil response body is dereferenced in
   convertObjectItem unless [resp_guard]) *)
Definition swagger_method (arms : list string) (resp_guard : bool) (m : client_method) : outcome unit :=
  if negb (props_ok arms (r_path (cm_req m))) then Err "path param: unknown schema type for swagger"
  else if negb (props_ok arms (r_query (cm_req m))) then Err "query param: unknown schema type for swagger"
  else if negb (match r_body (cm_req m) with Some ps => props_ok arms ps | None => true end) then
    Err "body: unknown schema type for swagger"
  else match cm_resp m with
       | None => if resp_guard then Ok tt else Panic "convertObjectItem(nil)"
       | Some ps => if props_ok arms ps then Ok tt else Err "response: unknown schema type for swagger"
       end.

Fixpoint swagger_methods (arms : list string) (resp_guard : bool) (ms : list client_method) : outcome unit :=
  match ms with
  | [] => Ok tt
  | m :: r => obind (swagger_method arms resp_guard m) (fun _ => swagger_methods arms resp_guard r)
  end.

Definition swagger_schemas (arms : list string) (g : env) (ks : list key) : bool :=
  forallb (fun k => match lookup g k with
                    | Some s => props_ok arms (schema_props s)
                    | None => true
                    end) ks.

Definition build_swagger (arms : list string) (resp_guard : bool) (g : env) (ms : list client_method) (ks : list key)
  : outcome unit :=
  obind (swagger_methods arms resp_guard ms) (fun _ =>
    if swagger_schemas arms g ks then Ok tt else Err "schema: unknown schema type for swagger").

(* ------------------------------------------------------------------ *)
(* the chain: image -> source API -> client API (+ referenced schemas) -> swagger *)
Record chain_result := {
  cr_source : outcome src_api;
  cr_client : outcome (list client_method * list key);
  cr_swagger : outcome unit
}.

Record code_config := {
  cc_arms : list string;        (* convertSchema arms (gen/SwaggerGen.v) *)
  cc_walk_guard : bool;         (* walkSchemaFields has the recursion guard *)
  cc_resp_guard : bool          (* addMethod guards a nil response body *)
}.

(* the chain from a given source API on (client stage and swagger) *)
Definition run_client (cc : code_config) (im : image) (src : outcome src_api) : chain_result :=
  let cli := obind src (fun api =>
               match client_env (im_schemas im) with
               | None => Panic "stack overflow: flatten cycle in ClientProperties"
               | Some _ =>
                   obind (methods_from_source (cc_walk_guard cc) im api) (fun ms =>
                     omap (fun ks => (ms, ks)) (collect_refs im ms))
               end) in
  let sw := obind cli (fun mk => build_swagger (cc_arms cc) (cc_resp_guard cc) (cenv (im_schemas im)) (fst mk) (snd mk)) in
  {| cr_source := src; cr_client := cli; cr_swagger := sw |}.

Definition run_chain (cc : code_config) (im : image) : chain_result :=
  run_client cc im (add_structure (im_services im) {| sa_services := []; sa_topics := [] |}).

(* Civil.v — calendar arithmetic and the two date/time spellings of the J5 wire format.
   * civil_from_days / days_from_civil   proleptic Gregorian calendar over Z (days since 1970-01-01)
   * go_unix                  time.Unix(sec, nsec): nanosecond normalisation with int64 wrap-around
   * format_rfc3339nano       time.Unix(sec, nsec).In(time.UTC).Format(time.RFC3339Nano)
                              (appendFormatRFC3339: appendInt(year,4) etc., fraction with trailing
                              zeros trimmed, 'Z'), including the uint64 wrap of Go's absolute seconds
   * parse_rfc3339            the fast path parseRFC3339 of time.Parse(time.RFC3339, s) (what it rejects
                              falls through to Go's general layout parser, which is not modelled: None
                              here means "not accepted by the fast path")
   * fmt_d                    fmt's %Nd / %0Nd for integers
   * date_string              Date.DateString of j5types/date_j5t ("%04d-%02d-%02d" since the fix of
                              finding 8; date_string_v0 is the former "%4d-%02d-%02d")
   * date_from_string         DateFromString: strings.Split(s, "-"), three parts, strconv.Atoi each
   Text is a list of bytes (N). Lemmas at the end: civil round trip for every day,
   parse_rfc3339 (format_rfc3339nano t) = t for years 0..9999, date_from_string (date_string d) = d. *)
From Coq Require Import String List Arith NArith ZArith Bool Lia ZifyN ZifyNat ZifyBool.
From J5V.lib Require Import Radix Json JsonPrint.
Import ListNotations.
Local Open Scope Z_scope.
Local Open Scope bool_scope.

(* ------------------------------------------------------------------ calendar *)
Definition is_leap (y : Z) : bool :=
  (y mod 4 =? 0) && (negb (y mod 100 =? 0) || (y mod 400 =? 0)).

Definition days_in (m y : Z) : Z :=
  if m =? 2 then (if is_leap y then 29 else 28)
  else if (m =? 4) || (m =? 6) || (m =? 9) || (m =? 11) then 30 else 31.

(* the part of the computation that only depends on the day within a 400-year era *)
Definition era_civil (doe : Z) : Z * Z * Z * Z :=   (* (yoe, year offset incl. Jan/Feb carry, month, day) *)
  let yoe := (doe - doe / 1460 + doe / 36524 - doe / 146096) / 365 in
  let doy := doe - (365 * yoe + yoe / 4 - yoe / 100) in
  let mp := (5 * doy + 2) / 153 in
  let d := doy - (153 * mp + 2) / 5 + 1 in
  let m := if mp <? 10 then mp + 3 else mp - 9 in
  (yoe, (if m <=? 2 then yoe + 1 else yoe), m, d).

Definition civil_from_days (z : Z) : Z * Z * Z :=
  let z := z + 719468 in
  let era := z / 146097 in
  let doe := z - era * 146097 in
  match era_civil doe with
  | (_, y0, m, d) => (y0 + era * 400, m, d)
  end.

Definition era_doe (yoe m d : Z) : Z :=
  let doy := (153 * (if m >? 2 then m - 3 else m + 9) + 2) / 5 + d - 1 in
  yoe * 365 + yoe / 4 - yoe / 100 + doy.

Definition days_from_civil (y m d : Z) : Z :=
  let y := if m <=? 2 then y - 1 else y in
  let era := y / 400 in
  let yoe := y - era * 400 in
  era * 146097 + era_doe yoe m d - 719468.

(* ------------------------------------------------------------------ integers as text *)
Definition digitsZ (z : Z) : list N := digits_of (Z.to_N (Z.abs z)).

(* time.appendInt(b, x, width): '-' for negatives, then the magnitude zero-padded to width
   (with the two fast paths of the Go function spelled out) *)
Definition dch (z : Z) : N := (48 + Z.to_N z)%N.
Definition append_int (x : Z) (width : nat) : list N :=
  let u := Z.abs x in
  (if x <? 0 then [45%N] else []) ++
  (if Nat.eqb width 2 && (u <? 100) then [dch (u / 10); dch (u mod 10)]
   else if Nat.eqb width 4 && (u <? 10000) then
     [dch (u / 1000); dch (u / 100 mod 10); dch (u / 10 mod 10); dch (u mod 10)]
   else let ds := digitsZ x in repeat 48%N (width - length ds) ++ ds).

(* fmt %<width>d (zero = false) and %0<width>d (zero = true): the sign counts towards the width *)
Definition fmt_d (zero : bool) (width : nat) (x : Z) : list N :=
  let ds := digitsZ x in
  let sign := if x <? 0 then [45%N] else [] in
  let pad := (width - (length sign + length ds))%nat in
  if zero then sign ++ repeat 48%N pad ++ ds else repeat 32%N pad ++ sign ++ ds.

(* ------------------------------------------------------------------ timestamps *)
Definition two63 : Z := 9223372036854775808.
Definition two64 : Z := 18446744073709551616.
Definition wrap64 (z : Z) : Z := (z + two63) mod two64 - two63.

(* time.Unix(sec, nsec) for int64 arguments: normalised (seconds, nanoseconds in [0, 1e9)) *)
Definition go_unix (sec nsec : Z) : Z * Z :=
  (wrap64 (sec + nsec / 1000000000), nsec mod 1000000000).

(* Go keeps "absolute" seconds as uint64(sec + unixToAbsolute); below that the date wraps *)
Definition unix_to_absolute : Z := 9223372028741760000.
Definition abs_wrap (sec : Z) : Z := if sec <? - unix_to_absolute then sec + two64 else sec.

(* nine digits with trailing zeros removed; empty when zero *)
Fixpoint trim_zeros_rev (l : list N) : list N :=
  match l with
  | c :: r => if N.eqb c 48 then trim_zeros_rev r else l
  | [] => []
  end.
Definition frac_digits (ns : Z) : list N :=
  if ns =? 0 then [] else 46%N :: rev (trim_zeros_rev (rev (append_int ns 9))).

Definition format_clock (sec ns : Z) : list N :=
  let s := abs_wrap sec in
  let days := s / 86400 in
  let sod := s mod 86400 in
  match civil_from_days days with
  | (y, m, d) =>
      append_int y 4 ++ [45%N] ++ append_int m 2 ++ [45%N] ++ append_int d 2 ++ [84%N]
      ++ append_int (sod / 3600) 2 ++ [58%N] ++ append_int ((sod mod 3600) / 60) 2 ++ [58%N]
      ++ append_int (sod mod 60) 2 ++ frac_digits ns ++ [90%N]
  end.

Definition format_rfc3339nano (sec nsec : Z) : list N :=
  let (s, n) := go_unix sec nsec in format_clock s n.

(* --- parseRFC3339 *)
Definition parse_uint (s : list N) (lo hi : Z) : option Z :=
  match parse_N s with
  | Some n => let x := Z.of_N n in if (lo <=? x) && (x <=? hi) then Some x else None
  | None => None
  end.

Definition sub (s : list N) (a b : nat) : list N := firstn (b - a) (skipn a s).
Definition at_is (s : list N) (i : nat) (c : N) : bool :=
  match nth_error s i with Some x => N.eqb x c | None => false end.

Fixpoint span_dig (s : list N) : list N * list N :=
  match s with
  | c :: r => if is_digit c then let (d, t) := span_dig r in (c :: d, t) else ([], s)
  | [] => ([], [])
  end.

(* parseNanoseconds: at most nine digits count, scaled to nanoseconds *)
Definition nanos_of (ds : list N) : Z :=
  let ds9 := firstn 9 ds in
  Z.of_N (of_digits_be 10 0 (map (fun c => (c - 48)%N) ds9)) * 10 ^ Z.of_nat (9 - length ds9).

Definition parse_zone (s : list N) : option Z :=     (* seconds east of UTC *)
  match s with
  | [90%N] => Some 0
  | _ =>
    if Nat.eqb (length s) 6 then
      match parse_uint (sub s 1 3) 0 23, parse_uint (sub s 4 6) 0 59 with
      | Some hr, Some mm =>
          if at_is s 3 58 then
            if at_is s 0 45 then Some (- ((hr * 60 + mm) * 60))
            else if at_is s 0 43 then Some ((hr * 60 + mm) * 60) else None
          else None
      | _, _ => None
      end
    else None
  end.

Definition parse_rfc3339 (s : list N) : option (Z * Z) :=
  if Nat.ltb (length s) 19 then None else
  match parse_uint (sub s 0 4) 0 9999, parse_uint (sub s 5 7) 1 12 with
  | Some year, Some month =>
    match parse_uint (sub s 8 10) 1 (days_in month year),
          parse_uint (sub s 11 13) 0 23, parse_uint (sub s 14 16) 0 59, parse_uint (sub s 17 19) 0 59 with
    | Some day, Some hour, Some mi, Some sec =>
      if at_is s 4 45 && at_is s 7 45 && at_is s 10 84 && at_is s 13 58 && at_is s 16 58 then
        let rest := skipn 19 s in
        let '(ns, rest') :=
          match rest with
          | 46%N :: r => match span_dig r with
                         | (c :: ds, t) => (nanos_of (c :: ds), t)
                         | _ => (0, rest)
                         end
          | _ => (0, rest)
          end in
        match parse_zone rest' with
        | Some off =>
            Some (days_from_civil year month day * 86400 + hour * 3600 + mi * 60 + sec - off, ns)
        | None => None
        end
      else None
    | _, _, _, _ => None
    end
  | _, _ => None
  end.

(* ------------------------------------------------------------------ dates *)
Definition date_string (y m d : Z) : list N :=
  fmt_d true 4 y ++ [45%N] ++ fmt_d true 2 m ++ [45%N] ++ fmt_d true 2 d.
(* the spelling before the fix of finding 8 *)
Definition date_string_v0 (y m d : Z) : list N :=
  fmt_d false 4 y ++ [45%N] ++ fmt_d true 2 m ++ [45%N] ++ fmt_d true 2 d.

(* strings.Split(s, "-") *)
Fixpoint split_dash (s : list N) (cur : list N) : list (list N) :=
  match s with
  | [] => [rev cur]
  | c :: r => if N.eqb c 45 then rev cur :: split_dash r [] else split_dash r (c :: cur)
  end.

(* strconv.Atoi (int is 64 bits): out-of-range values are errors *)
Definition atoi (s : list N) : option Z :=
  match parse_Z s with
  | Some z => if (- two63 <=? z) && (z <? two63) then Some z else None
  | None => None
  end.

Definition date_from_string (s : list N) : option (Z * Z * Z) :=
  match split_dash s [] with
  | [a; b; c] =>
      match atoi a, atoi b, atoi c with
      | Some y, Some m, Some d =>
          (* year 0..9999, month 1..12, day within the month (since /repo 193b060) *)
          if (0 <=? y) && (y <=? 9999) && (1 <=? m) && (m <=? 12) && (1 <=? d) && (d <=? days_in m y)
          then Some (y, m, d) else None
      | _, _, _ => None
      end
  | _ => None
  end.

(* ================================================================== lemmas *)
Arguments Nat.sub : simpl never.

Ltac divlia := zify; Z.to_euclidean_division_equations; lia.

(* ---------------------------------------------------------------- the calendar, one era by exhaustive evaluation *)
Definition era_check (n : N) : bool :=
  let doe := Z.of_N n in
  match era_civil doe with
  | (yoe, y0, m, d) =>
      (0 <=? yoe) && (yoe <=? 399) && (1 <=? m) && (m <=? 12) && (1 <=? d) && (d <=? days_in m y0)
      && (era_doe yoe m d =? doe) && (y0 =? (if m <=? 2 then yoe + 1 else yoe))
      && ((doe <? 306) || (1 <=? y0)) && ((146036 <? doe) || (y0 <=? 399))
  end.

Lemma era_checked : forallb era_check (below 146097) = true.
Proof. vm_compute. reflexivity. Qed.

Lemma era_facts doe : 0 <= doe < 146097 ->
  match era_civil doe with
  | (yoe, y0, m, d) =>
      0 <= yoe <= 399 /\ 1 <= m <= 12 /\ 1 <= d <= days_in m y0 /\ era_doe yoe m d = doe /\
      y0 = (if m <=? 2 then yoe + 1 else yoe) /\ (306 <= doe -> 1 <= y0) /\ (doe <= 146036 -> y0 <= 399)
  end.
Proof.
  intros H. pose proof (forall_below era_check 146097 era_checked (Z.to_N doe) ltac:(lia)) as Hc.
  unfold era_check in Hc. rewrite Z2N.id in Hc by lia.
  destruct (era_civil doe) as [[[yoe y0] m] d].
  repeat (apply andb_true_iff in Hc as [Hc ?]). repeat split; try lia.
Qed.

Lemma is_leap_era y e : is_leap (y + e * 400) = is_leap y.
Proof.
  unfold is_leap.
  replace ((y + e * 400) mod 4) with (y mod 4) by (replace (e * 400) with ((e * 100) * 4) by lia; rewrite Z_mod_plus_full; reflexivity).
  replace ((y + e * 400) mod 100) with (y mod 100) by (replace (e * 400) with ((e * 4) * 100) by lia; rewrite Z_mod_plus_full; reflexivity).
  replace ((y + e * 400) mod 400) with (y mod 400) by (rewrite Z_mod_plus_full; reflexivity).
  reflexivity.
Qed.

Lemma days_in_era m y e : days_in m (y + e * 400) = days_in m y.
Proof. unfold days_in. rewrite is_leap_era. reflexivity. Qed.

Theorem civil_roundtrip z :
  match civil_from_days z with
  | (y, m, d) => days_from_civil y m d = z /\ 1 <= m <= 12 /\ 1 <= d <= days_in m y
  end.
Proof.
  unfold civil_from_days.
  set (z' := z + 719468). set (era := z' / 146097). set (doe := z' - era * 146097).
  assert (Hdoe : 0 <= doe < 146097) by (unfold doe, era; divlia).
  pose proof (era_facts doe Hdoe) as Hf.
  destruct (era_civil doe) as [[[yoe y0] m] d]. destruct Hf as (Hy & Hm & Hd & He & Hy0 & _ & _).
  split; [|split; [exact Hm|rewrite days_in_era; exact Hd]].
  unfold days_from_civil.
  assert (Hyy : (if m <=? 2 then y0 + era * 400 - 1 else y0 + era * 400) = yoe + era * 400).
  { rewrite Hy0. destruct (m <=? 2); lia. }
  rewrite Hyy.
  assert (Hera : (yoe + era * 400) / 400 = era) by (rewrite Z.div_add by lia; rewrite Z.div_small by lia; lia).
  rewrite Hera. replace (yoe + era * 400 - era * 400) with yoe by lia. rewrite He. unfold doe, z'. lia.
Qed.

(* year range of the instants the wire format covers *)
Lemma civil_year_range days : -719162 <= days <= 2932896 ->
  match civil_from_days days with (y, _, _) => 1 <= y <= 9999 end.
Proof.
  intros H. unfold civil_from_days.
  set (z' := days + 719468). set (era := z' / 146097). set (doe := z' - era * 146097).
  assert (Hdoe : 0 <= doe < 146097) by (unfold doe, era; divlia).
  assert (Hera : 0 <= era <= 24) by (unfold era, z'; divlia).
  pose proof (era_facts doe Hdoe) as Hf.
  destruct (era_civil doe) as [[[yoe y0] m] d]. destruct Hf as (Hy & Hm & _ & _ & Hy0 & Hlo & Hhi).
  assert (0 <= y0 <= 400) by (rewrite Hy0; destruct (m <=? 2); lia).
  assert (era = 0 -> 306 <= doe) by (unfold doe, z'; intros ->; lia).
  assert (era = 24 -> doe <= 146036) by (unfold doe, z'; intros ->; lia).
  lia.
Qed.
Lemma rev_repeat_N (x : N) k : rev (repeat x k) = repeat x k.
Proof.
  induction k as [|k IH]; cbn [repeat rev]; [reflexivity|]. rewrite IH.
  clear IH. induction k as [|k IH]; cbn [repeat app]; [reflexivity|]. rewrite IH. reflexivity.
Qed.
Lemma map_repeat {A B} (f : A -> B) x k : map f (repeat x k) = repeat (f x) k.
Proof. induction k as [|k IH]; cbn [repeat map]; [reflexivity|]. rewrite IH. reflexivity. Qed.

(* ---------------------------------------------------------------- digits *)
Local Open Scope N_scope.
Lemma to_digits_len_pow f : forall n k, n < 10 ^ N.of_nat k -> (length (to_digits_le 10 f n) <= k)%nat.
Proof.
  induction f as [|f IH]; intros n k H; cbn [to_digits_le]; [cbn; lia|].
  destruct (n =? 0) eqn:E; [cbn; lia|]. destruct k as [|k].
  - cbn in H. lia.
  - cbn [length]. apply le_n_S. apply IH. rewrite Nnat.Nat2N.inj_succ, N.pow_succ_r' in H.
    apply N.div_lt_upper_bound; lia.
Qed.

Fixpoint drop_zeros (l : list N) : list N :=
  match l with
  | d :: r => if d =? 0 then drop_zeros r else l
  | [] => []
  end.

Lemma trim_zeros_map l : Forall (fun d => d < 10) l ->
  trim_zeros_rev (map (fun d => 48 + d) l) = map (fun d => 48 + d) (drop_zeros l).
Proof.
  induction 1 as [|d r Hd Hr IH]; [reflexivity|]. cbn [map trim_zeros_rev drop_zeros].
  destruct (d =? 0) eqn:E.
  - replace (48 + d =? 48) with true by lia. exact IH.
  - replace (48 + d =? 48) with false by lia. reflexivity.
Qed.

Lemma drop_zeros_value l :
  of_digits_le 10 l = 10 ^ N.of_nat (length l - length (drop_zeros l)) * of_digits_le 10 (drop_zeros l)
  /\ (length (drop_zeros l) <= length l)%nat.
Proof.
  induction l as [|d r [IH1 IH2]]; [cbn; split; lia|]. cbn [drop_zeros].
  destruct (d =? 0) eqn:E.
  - apply N.eqb_eq in E. subst d. cbn [length of_digits_le]. split; [|lia]. rewrite IH1.
    replace (S (length r) - length (drop_zeros r))%nat with (S (length r - length (drop_zeros r)))%nat by lia.
    rewrite Nnat.Nat2N.inj_succ, N.pow_succ_r' by lia. ring.
  - split; [|lia]. replace (length (d :: r) - length (d :: r))%nat with 0%nat by lia. cbn [N.of_nat]. rewrite N.pow_0_r. lia.
Qed.

Lemma drop_zeros_forall l : Forall (fun d => d < 10) l -> Forall (fun d => d < 10) (drop_zeros l).
Proof.
  induction 1 as [|d r Hd Hr IH]; [constructor|]. cbn [drop_zeros]. destruct (d =? 0); [exact IH|constructor; assumption].
Qed.

Lemma of_digits_le_zeros k : of_digits_le 10 (repeat 0 k) = 0.
Proof. induction k as [|k IH]; cbn [repeat of_digits_le]; [reflexivity|]. rewrite IH. lia. Qed.

Lemma of_digits_le_app l1 l2 :
  of_digits_le 10 (l1 ++ l2) = of_digits_le 10 l1 + 10 ^ N.of_nat (length l1) * of_digits_le 10 l2.
Proof.
  induction l1 as [|d r IH]; cbn [app of_digits_le length].
  - change (N.of_nat 0) with 0%N. rewrite N.pow_0_r. lia.
  - rewrite IH, Nnat.Nat2N.inj_succ, N.pow_succ_r' by lia. ring.
Qed.

Lemma be_value_rev l : of_digits_be 10 0 (rev l) = of_digits_le 10 l.
Proof. rewrite of_digits_be_rev_le. lia. Qed.

Lemma unmap48 ds : map (fun c => c - 48) (map (fun d => 48 + d) ds) = ds.
Proof. induction ds as [|d r IH]; [reflexivity|]. cbn [map]. rewrite IH. f_equal. lia. Qed.

Local Open Scope Z_scope.

(* the fraction of a second, read back *)
Lemma span_dig_app ds rest : forallb is_digit ds = true ->
  (match rest with c :: _ => is_digit c = false | [] => True end) -> span_dig (ds ++ rest) = (ds, rest).
Proof.
  intros Hd Hr. induction ds as [|c r IH]; cbn [app].
  - destruct rest as [|c r]; [reflexivity|]. cbn [span_dig]. rewrite Hr. reflexivity.
  - cbn [forallb] in Hd. apply andb_true_iff in Hd as [H1 H2]. cbn [span_dig]. rewrite H1, IH by exact H2. reflexivity.
Qed.

Lemma frac_parse ns : 1 <= ns <= 999999999 ->
  exists c ds, frac_digits ns = 46%N :: c :: ds /\ forallb is_digit (c :: ds) = true /\ nanos_of (c :: ds) = ns.
Proof.
  intros H. unfold frac_digits. replace (ns =? 0) with false by lia.
  set (n := Z.to_N ns). assert (Hn : (n <> 0)%N) by lia. assert (Hn9 : (n < 10 ^ 9)%N) by (unfold n; lia).
  assert (Happ : append_int ns 9 = repeat 48%N (9 - length (digits_of n)) ++ digits_of n).
  { unfold append_int. replace (ns <? 0) with false by lia. cbn [app Nat.eqb andb].
    unfold digitsZ. rewrite Z.abs_eq by lia. reflexivity. }
  rewrite Happ. rewrite rev_app_distr, (digits_of_pos n Hn), rev_involutive, rev_repeat_N.
  rewrite rev_length, map_length.
  set (L := dec_digits n). set (k := (9 - length L)%nat).
  assert (HL : (length L <= 9)%nat) by (apply (to_digits_len_pow _ n 9); exact Hn9).
  replace (repeat 48%N k) with (map (fun d => 48 + d)%N (repeat 0%N k)) by (rewrite map_repeat; reflexivity).
  rewrite <- map_app. set (L9 := L ++ repeat 0%N k).
  assert (HL9 : Forall (fun d => (d < 10)%N) L9).
  { apply Forall_app. split; [apply dec_digits_lt|]. apply Forall_forall. intros x Hx. apply repeat_spec in Hx. lia. }
  rewrite (trim_zeros_map L9 HL9). rewrite <- map_rev.
  assert (Hv9 : of_digits_le 10 L9 = n).
  { unfold L9. rewrite of_digits_le_app, of_digits_le_zeros. unfold L. rewrite dec_digits_val. lia. }
  assert (Hlen9 : length L9 = 9%nat) by (unfold L9, k; rewrite app_length, repeat_length; lia).
  destruct (drop_zeros_value L9) as [Hdv Hdl]. set (L' := drop_zeros L9) in *.
  assert (HL' : L' <> []).
  { intros E. rewrite E in Hdv. cbn in Hdv. lia. }
  destruct (rev L') as [|c0 r0] eqn:Er.
  { exfalso. apply HL'. rewrite <- (rev_involutive L'), Er. reflexivity. }
  cbn [map]. exists (48 + c0)%N, (map (fun d => (48 + d)%N) r0). split; [reflexivity|].
  assert (Hfd : Forall (fun d => (d < 10)%N) (c0 :: r0)).
  { rewrite <- Er. apply Forall_rev. apply drop_zeros_forall. exact HL9. }
  split.
  - change ((48 + c0)%N :: map (fun d => (48 + d)%N) r0) with (map (fun d => (48 + d)%N) (c0 :: r0)).
    apply is_digit_map. exact Hfd.
  - unfold nanos_of.
    change ((48 + c0)%N :: map (fun d => (48 + d)%N) r0) with (map (fun d => (48 + d)%N) (c0 :: r0)).
    assert (Hlr : length (c0 :: r0) = length L') by (rewrite <- Er, rev_length; reflexivity).
    rewrite firstn_all2 by (rewrite map_length, Hlr, Hlen9 in *; lia).
    rewrite unmap48, map_length, <- Er, be_value_rev, rev_length.
    rewrite Hlen9 in Hdv. rewrite Hv9 in Hdv.
    assert (Hpow : Z.of_N (10 ^ N.of_nat (9 - length L')) = 10 ^ Z.of_nat (9 - length L')).
    { rewrite N2Z.inj_pow. rewrite nat_N_Z. reflexivity. }
    rewrite <- Hpow. unfold n in Hdv. lia.
Qed.

(* ---------------------------------------------------------------- two- and four-digit fields *)
Lemma dch_digit z : 0 <= z <= 9 -> is_digit (dch z) = true.
Proof. intros H. unfold is_digit, dch. lia. Qed.

Lemma parse_uint_2 x lo hi : 0 <= x < 100 -> lo <= x <= hi ->
  parse_uint [dch (x / 10); dch (x mod 10)] lo hi = Some x.
Proof.
  intros Hx Hr. unfold parse_uint, parse_N. cbn [forallb].
  rewrite !dch_digit by divlia. cbn [andb map]. unfold of_digits_be. cbn [fold_left].
  assert (E : Z.of_N ((0 * 10 + (dch (x / 10) - 48)) * 10 + (dch (x mod 10) - 48)) = x) by (unfold dch; divlia).
  rewrite E. replace ((lo <=? x) && (x <=? hi)) with true by lia. reflexivity.
Qed.

Lemma parse_uint_4 x lo hi : 0 <= x < 10000 -> lo <= x <= hi ->
  parse_uint [dch (x / 1000); dch (x / 100 mod 10); dch (x / 10 mod 10); dch (x mod 10)] lo hi = Some x.
Proof.
  intros Hx Hr. unfold parse_uint, parse_N. cbn [forallb].
  rewrite !dch_digit by divlia. cbn [andb map]. unfold of_digits_be. cbn [fold_left].
  assert (E : Z.of_N ((((0 * 10 + (dch (x / 1000) - 48)) * 10 + (dch (x / 100 mod 10) - 48)) * 10
                       + (dch (x / 10 mod 10) - 48)) * 10 + (dch (x mod 10) - 48)) = x) by (unfold dch; divlia).
  rewrite E. replace ((lo <=? x) && (x <=? hi)) with true by lia. reflexivity.
Qed.

Lemma append_int_2 x : 0 <= x < 100 -> append_int x 2 = [dch (x / 10); dch (x mod 10)].
Proof.
  intros H. unfold append_int. replace (x <? 0) with false by lia. rewrite Z.abs_eq by lia.
  cbn [Nat.eqb andb app]. replace (x <? 100) with true by lia. reflexivity.
Qed.

Lemma append_int_4 x : 0 <= x < 10000 ->
  append_int x 4 = [dch (x / 1000); dch (x / 100 mod 10); dch (x / 10 mod 10); dch (x mod 10)].
Proof.
  intros H. unfold append_int. replace (x <? 0) with false by lia. rewrite Z.abs_eq by lia.
  cbn [Nat.eqb andb app]. replace (x <? 10000) with true by lia. reflexivity.
Qed.

Lemma days_in_le m y : days_in m y <= 31.
Proof. unfold days_in. destruct (m =? 2); [destruct (is_leap y); lia|]. destruct ((m =? 4) || (m =? 6) || (m =? 9) || (m =? 11)); lia. Qed.

(* ---------------------------------------------------------------- timestamps *)
Definition ts_range (s ns : Z) : Prop := -62135596800 <= s <= 253402300799 /\ 0 <= ns <= 999999999.

Theorem parse_format_clock s ns : ts_range s ns -> parse_rfc3339 (format_clock s ns) = Some (s, ns).
Proof.
  intros [Hs Hns]. unfold format_clock.
  assert (Hw : abs_wrap s = s).
  { unfold abs_wrap, unix_to_absolute. destruct (s <? - (9223372028741760000)) eqn:E; [lia|reflexivity]. }
  rewrite Hw. set (days := s / 86400). set (sod := s mod 86400).
  assert (Hsod : 0 <= sod < 86400) by (unfold sod; divlia).
  assert (Hds : s = days * 86400 + sod) by (unfold days, sod; divlia).
  assert (Hdr : -719162 <= days <= 2932896) by (unfold days; divlia).
  pose proof (civil_roundtrip days) as Hrt. pose proof (civil_year_range days Hdr) as Hyr.
  destruct (civil_from_days days) as [[y m] d]. destruct Hrt as (Hdfc & Hm & Hd).
  pose proof (days_in_le m y) as Hdi.
  set (h := sod / 3600). set (mi := sod mod 3600 / 60). set (sc := sod mod 60).
  assert (Hh : 0 <= h <= 23) by (unfold h; divlia).
  assert (Hmi : 0 <= mi <= 59) by (unfold mi; divlia).
  assert (Hsc : 0 <= sc <= 59) by (unfold sc; divlia).
  assert (Hsum : h * 3600 + mi * 60 + sc = sod) by (unfold h, mi, sc; divlia).
  rewrite (append_int_4 y) by lia. rewrite (append_int_2 m), (append_int_2 d), (append_int_2 h), (append_int_2 mi), (append_int_2 sc) by lia.
  cbn [app].
  set (rest := frac_digits ns ++ [90%N]).
  unfold parse_rfc3339.
  match goal with |- context [Nat.ltb (length ?l) 19] => replace (Nat.ltb (length l) 19) with false
    by (symmetry; apply Nat.ltb_ge; cbn [length]; lia) end.
  match goal with |- context [sub ?l 0 4] => change (sub l 0 4) with [dch (y / 1000); dch (y / 100 mod 10); dch (y / 10 mod 10); dch (y mod 10)];
    change (sub l 5 7) with [dch (m / 10); dch (m mod 10)];
    change (sub l 8 10) with [dch (d / 10); dch (d mod 10)];
    change (sub l 11 13) with [dch (h / 10); dch (h mod 10)];
    change (sub l 14 16) with [dch (mi / 10); dch (mi mod 10)];
    change (sub l 17 19) with [dch (sc / 10); dch (sc mod 10)];
    change (at_is l 4 45) with true; change (at_is l 7 45) with true; change (at_is l 10 84) with true;
    change (at_is l 13 58) with true; change (at_is l 16 58) with true;
    change (skipn 19 l) with rest end.
  rewrite (parse_uint_4 y 0 9999), (parse_uint_2 m 1 12) by lia.
  rewrite (parse_uint_2 d 1 (days_in m y)), (parse_uint_2 h 0 23), (parse_uint_2 mi 0 59), (parse_uint_2 sc 0 59) by lia.
  cbn [andb].
  destruct (Z.eq_dec ns 0) as [->|Hnz].
  - unfold rest, frac_digits. cbn [Z.eqb app parse_zone]. rewrite Hdfc. f_equal. f_equal. lia.
  - destruct (frac_parse ns ltac:(lia)) as (c & ds & Hf & Hdig & Hnan).
    unfold rest. rewrite Hf. cbn [app]. change (46 :: (c :: ds) ++ [90%N])%N with (46%N :: (c :: ds) ++ [90%N]).
    assert (Hsp : span_dig ((c :: ds) ++ [90%N]) = (c :: ds, [90%N])) by (apply span_dig_app; [exact Hdig|reflexivity]).
    cbn [app] in Hsp. 
    cbv beta iota.
    rewrite Hsp. cbn [parse_zone]. rewrite Hdfc, Hnan. f_equal. f_equal. lia.
Qed.

Theorem parse_format_rfc3339 s ns : ts_range s ns -> parse_rfc3339 (format_rfc3339nano s ns) = Some (s, ns).
Proof.
  intros [Hs Hns]. unfold format_rfc3339nano, go_unix.
  assert (E1 : ns / 1000000000 = 0) by divlia. assert (E2 : ns mod 1000000000 = ns) by divlia.
  rewrite E1, E2. assert (Ew : wrap64 (s + 0) = s) by (unfold wrap64, two63, two64; divlia).
  rewrite Ew. apply parse_format_clock. split; assumption.
Qed.

(* ---------------------------------------------------------------- dates *)
Local Open Scope N_scope.
Lemma digits_value n : of_digits_be 10 0 (map (fun c => c - 48) (digits_of n)) = n.
Proof.
  unfold digits_of. destruct (n =? 0) eqn:E0.
  - cbn. lia.
  - rewrite <- map_rev, unmap_digits, of_digits_be_rev_le. fold (dec_digits n). rewrite dec_digits_val. lia.
Qed.

Lemma parse_N_padded k n : parse_N (repeat 48 k ++ digits_of n) = Some n.
Proof.
  unfold parse_N. pose proof (digits_of_nonempty n) as Hne.
  destruct (repeat 48 k ++ digits_of n) as [|c r] eqn:E.
  { destruct (digits_of n); [congruence|]. destruct k; discriminate. }
  rewrite <- E. rewrite forallb_app, digits_of_digits.
  replace (forallb is_digit (repeat 48 k)) with true
    by (symmetry; apply forallb_forall; intros x Hx; apply repeat_spec in Hx; subst; reflexivity).
  cbn [andb]. f_equal. rewrite map_app, map_repeat. change (48 - 48) with 0.
  rewrite of_digits_be_zeros. apply digits_value.
Qed.

Lemma parse_Z_padded k n : parse_Z (repeat 48 k ++ digits_of n) = Some (Z.of_N n).
Proof.
  pose proof (parse_N_padded k n) as H. unfold parse_Z.
  destruct (repeat 48 k ++ digits_of n) as [|c r] eqn:E.
  { unfold parse_N in H. discriminate. }
  assert (Hc : is_digit c = true).
  { assert (Hall : forallb is_digit (c :: r) = true).
    { rewrite <- E, forallb_app, digits_of_digits.
      replace (forallb is_digit (repeat 48 k)) with true; [reflexivity|].
      symmetry; apply forallb_forall; intros x Hx; apply repeat_spec in Hx; subst; reflexivity. }
    cbn [forallb] in Hall. apply andb_true_iff in Hall as [Hall _]. exact Hall. }
  replace (c =? 45) with false by (unfold is_digit in Hc; lia).
  replace (c =? 43) with false by (unfold is_digit in Hc; lia).
  rewrite H. reflexivity.
Qed.

Lemma split_dash_digits a : forallb is_digit a = true -> forall rest cur,
  split_dash (a ++ rest) cur = split_dash rest (rev a ++ cur).
Proof.
  induction a as [|c r IH]; intros Hd rest cur; [reflexivity|].
  cbn [forallb] in Hd. apply andb_true_iff in Hd as [H1 H2]. cbn [app split_dash].
  replace (c =? 45) with false by (unfold is_digit in H1; lia).
  rewrite IH by exact H2. cbn [rev]. rewrite <- app_assoc. reflexivity.
Qed.

Local Open Scope Z_scope.
Definition fmt_pos (w : nat) (x : Z) : list N :=
  repeat 48%N (w - length (digits_of (Z.to_N x))) ++ digits_of (Z.to_N x).

Lemma fmt_d_pos w x : 0 <= x -> fmt_d true w x = fmt_pos w x.
Proof.
  intros H. unfold fmt_d, fmt_pos, digitsZ. replace (x <? 0) with false by lia.
  rewrite Z.abs_eq by lia. cbn [length app Nat.add]. reflexivity.
Qed.

Lemma fmt_pos_digits w x : forallb is_digit (fmt_pos w x) = true.
Proof.
  unfold fmt_pos. rewrite forallb_app, digits_of_digits.
  replace (forallb is_digit (repeat 48%N _)) with true; [reflexivity|].
  symmetry; apply forallb_forall; intros y Hy; apply repeat_spec in Hy; subst; reflexivity.
Qed.

Lemma atoi_fmt_pos w x : 0 <= x < two63 -> atoi (fmt_pos w x) = Some x.
Proof.
  intros H. unfold atoi, fmt_pos. rewrite parse_Z_padded. rewrite Z2N.id by lia.
  replace ((- two63 <=? x) && (x <? two63)) with true by (unfold two63 in *; lia). reflexivity.
Qed.

Theorem date_roundtrip y m d :
  0 <= y <= 9999 -> 1 <= m <= 12 -> 1 <= d <= days_in m y ->
  date_from_string (date_string y m d) = Some (y, m, d).
Proof.
  intros Hy Hm Hd. pose proof (days_in_le m y) as Hdi.
  unfold date_string, date_from_string. rewrite !fmt_d_pos by lia.
  rewrite split_dash_digits by apply fmt_pos_digits. cbn [app split_dash]. change (45 =? 45)%N with true. cbv iota.
  rewrite split_dash_digits by apply fmt_pos_digits. cbn [app split_dash]. change (45 =? 45)%N with true. cbv iota.
  rewrite <- (app_nil_r (fmt_pos 2 d)). rewrite split_dash_digits by apply fmt_pos_digits. cbn [split_dash].
  rewrite !app_nil_r, !rev_involutive.
  rewrite !atoi_fmt_pos by (unfold two63; lia).
  replace ((0 <=? y) && (y <=? 9999) && (1 <=? m) && (m <=? 12) && (1 <=? d) && (d <=? days_in m y)) with true by lia.
  reflexivity.
Qed.

(* the spelling before the fix of finding 8 does not read back below year 1000 *)
Lemma date_v0_refuted : date_from_string (date_string_v0 5 1 2) = None.
Proof. vm_compute. reflexivity. Qed.

(* YYYY-MM-DD: ten characters for years 0..9999 *)
Local Open Scope N_scope.
Lemma digits_of_len n k : n < 10 ^ N.of_nat k -> (1 <= k)%nat -> (length (digits_of n) <= k)%nat.
Proof.
  intros H Hk. unfold digits_of. destruct (n =? 0); [cbn; lia|].
  rewrite rev_length, map_length. apply to_digits_len_pow. exact H.
Qed.
Local Open Scope Z_scope.

Lemma fmt_pos_len w x : 0 <= x < 10 ^ Z.of_nat w -> (1 <= w)%nat -> length (fmt_pos w x) = w.
Proof.
  intros H Hw. unfold fmt_pos. rewrite app_length, repeat_length.
  assert ((length (digits_of (Z.to_N x)) <= w)%nat).
  { apply digits_of_len; [|exact Hw]. 
    assert (E : Z.of_N (10 ^ N.of_nat w) = 10 ^ Z.of_nat w) by (rewrite N2Z.inj_pow, nat_N_Z; reflexivity). lia. }
  lia.
Qed.

Theorem date_string_shape y m d : 0 <= y <= 9999 -> 0 <= m <= 99 -> 0 <= d <= 99 ->
  exists a b c, date_string y m d = a ++ [45%N] ++ b ++ [45%N] ++ c /\
                length a = 4%nat /\ length b = 2%nat /\ length c = 2%nat /\
                forallb is_digit (a ++ b ++ c) = true /\ length (date_string y m d) = 10%nat.
Proof.
  intros Hy Hm Hd. unfold date_string. rewrite !fmt_d_pos by lia.
  exists (fmt_pos 4 y), (fmt_pos 2 m), (fmt_pos 2 d).
  assert (L4 : length (fmt_pos 4 y) = 4%nat) by (apply fmt_pos_len; [change (10 ^ Z.of_nat 4) with 10000; lia|lia]).
  assert (L2 : length (fmt_pos 2 m) = 2%nat) by (apply fmt_pos_len; [change (10 ^ Z.of_nat 2) with 100; lia|lia]).
  assert (L2' : length (fmt_pos 2 d) = 2%nat) by (apply fmt_pos_len; [change (10 ^ Z.of_nat 2) with 100; lia|lia]).
  repeat split; try assumption.
  - rewrite !forallb_app, !fmt_pos_digits. reflexivity.
  - rewrite !app_length. cbn [length]. lia.
Qed.

(* the characters of a formatted instant of the documented range *)
Definition ts_char (c : N) : Prop :=
  is_digit c = true \/ c = 45%N \/ c = 58%N \/ c = 46%N \/ c = 84%N \/ c = 90%N.

Lemma dch_ts_char z : 0 <= z <= 9 -> ts_char (dch z).
Proof. intros H. left. apply dch_digit. exact H. Qed.

Theorem format_clock_chars s ns : ts_range s ns -> Forall ts_char (format_clock s ns).
Proof.
  intros [Hs Hns]. unfold format_clock.
  assert (Hw : abs_wrap s = s).
  { unfold abs_wrap, unix_to_absolute. destruct (s <? - (9223372028741760000)) eqn:E; [lia|reflexivity]. }
  rewrite Hw. set (days := s / 86400). set (sod := s mod 86400).
  assert (Hsod : 0 <= sod < 86400) by (unfold sod; divlia).
  assert (Hdr : -719162 <= days <= 2932896) by (unfold days; divlia).
  pose proof (civil_roundtrip days) as Hrt. pose proof (civil_year_range days Hdr) as Hyr.
  destruct (civil_from_days days) as [[y m] d]. destruct Hrt as (_ & Hm & Hd).
  pose proof (days_in_le m y) as Hdi.
  set (h := sod / 3600). set (mi := sod mod 3600 / 60). set (sc := sod mod 60).
  assert (Hh : 0 <= h <= 23) by (unfold h; divlia).
  assert (Hmi : 0 <= mi <= 59) by (unfold mi; divlia).
  assert (Hsc : 0 <= sc <= 59) by (unfold sc; divlia).
  rewrite (append_int_4 y) by lia. rewrite (append_int_2 m), (append_int_2 d), (append_int_2 h), (append_int_2 mi), (append_int_2 sc) by lia.
  cbn [app].
  repeat (apply Forall_cons; [first [apply dch_ts_char; divlia | unfold ts_char; tauto]|]).
  apply Forall_app. split; [|repeat constructor; unfold ts_char; tauto].
  destruct (Z.eq_dec ns 0) as [->|Hnz]; [constructor|].
  destruct (frac_parse ns ltac:(lia)) as (c & ds & Hf & Hdig & _). rewrite Hf.
  constructor; [unfold ts_char; tauto|].
  apply Forall_forall. intros x Hx. left. rewrite forallb_forall in Hdig. apply Hdig. exact Hx.
Qed.

Theorem format_rfc3339_chars s ns : ts_range s ns -> Forall ts_char (format_rfc3339nano s ns).
Proof.
  intros [Hs Hns]. unfold format_rfc3339nano, go_unix.
  assert (E1 : ns / 1000000000 = 0) by divlia. assert (E2 : ns mod 1000000000 = ns) by divlia.
  rewrite E1, E2. assert (Ew : wrap64 (s + 0) = s) by (unfold wrap64, two63, two64; divlia).
  rewrite Ew. apply format_clock_chars. split; assumption.
Qed.


Local Open Scope N_scope.
(* An independent reading of a formatted instant: the text is YYYY-MM-DDTHH:MM:SS[.fraction]Z with
   explicit decimal digits, the fields are a real calendar day and a time of day, the zone is the
   literal Z, and the instant they denote IN UTC (days since 1970-01-01 of the proleptic Gregorian
   date, times 86400, plus the time of day) is the encoded one. *)
Definition d2 (x : Z) : list N := [dch (x / 10); dch (x mod 10)].
Definition d4 (x : Z) : list N := [dch (x / 1000); dch (x / 100 mod 10); dch (x / 10 mod 10); dch (x mod 10)].

Theorem format_rfc3339_shape s ns : ts_range s ns ->
  exists y mo d hh mi ss (frac : list N),
    (1 <= y <= 9999 /\ 1 <= mo <= 12 /\ 1 <= d <= days_in mo y /\
     0 <= hh <= 23 /\ 0 <= mi <= 59 /\ 0 <= ss <= 59)%Z /\
    (s = days_from_civil y mo d * 86400 + hh * 3600 + mi * 60 + ss)%Z /\
    format_rfc3339nano s ns =
      d4 y ++ [45] ++ d2 mo ++ [45] ++ d2 d ++ [84] ++ d2 hh ++ [58] ++ d2 mi ++ [58] ++ d2 ss ++ frac ++ [90] /\
    (frac = [] /\ ns = 0%Z \/
     exists ds, frac = 46 :: ds /\ ds <> [] /\ forallb is_digit ds = true /\ (length ds <= 9)%nat).
Proof.
  intros [Hs Hns]. unfold format_rfc3339nano, go_unix.
  assert (E1 : (ns / 1000000000 = 0)%Z) by divlia. assert (E2 : (ns mod 1000000000 = ns)%Z) by divlia.
  rewrite E1, E2. assert (Ew : wrap64 (s + 0) = s) by (unfold wrap64, two63, two64; divlia).
  rewrite Ew. unfold format_clock.
  assert (Hw : abs_wrap s = s).
  { unfold abs_wrap, unix_to_absolute. destruct (s <? - (9223372028741760000))%Z eqn:E; [lia|reflexivity]. }
  rewrite Hw. set (days := (s / 86400)%Z). set (sod := (s mod 86400)%Z).
  assert (Hsod : (0 <= sod < 86400)%Z) by (unfold sod; divlia).
  assert (Hds : (s = days * 86400 + sod)%Z) by (unfold days, sod; divlia).
  assert (Hdr : (-719162 <= days <= 2932896)%Z) by (unfold days; divlia).
  pose proof (civil_roundtrip days) as Hrt. pose proof (civil_year_range days Hdr) as Hyr.
  destruct (civil_from_days days) as [[y m] d]. destruct Hrt as (Hdfc & Hm & Hd).
  pose proof (days_in_le m y) as Hdi.
  set (h := (sod / 3600)%Z). set (mi := (sod mod 3600 / 60)%Z). set (sc := (sod mod 60)%Z).
  assert (Hh : (0 <= h <= 23)%Z) by (unfold h; divlia).
  assert (Hmi : (0 <= mi <= 59)%Z) by (unfold mi; divlia).
  assert (Hsc : (0 <= sc <= 59)%Z) by (unfold sc; divlia).
  assert (Hsum : (h * 3600 + mi * 60 + sc = sod)%Z) by (unfold h, mi, sc; divlia).
  rewrite (append_int_4 y) by lia. rewrite (append_int_2 m), (append_int_2 d), (append_int_2 h), (append_int_2 mi), (append_int_2 sc) by lia.
  exists y, m, d, h, mi, sc, (frac_digits ns).
  split; [lia|]. split; [rewrite Hdfc; lia|]. split; [unfold d4, d2; reflexivity|].
  destruct (Z.eq_dec ns 0) as [->|Hnz]; [left; split; reflexivity|right].
  unfold frac_digits. replace (ns =? 0)%Z with false by lia.
  destruct (frac_parse ns ltac:(lia)) as (c & ds & Hf & Hdig & _).
  unfold frac_digits in Hf. replace (ns =? 0)%Z with false in Hf by lia. injection Hf as Hf.
  eexists. split; [reflexivity|]. rewrite Hf. split; [discriminate|]. split; [exact Hdig|].
  rewrite <- Hf. rewrite rev_length.
  assert (Hlen : forall l, (length (trim_zeros_rev l) <= length l)%nat).
  { induction l as [|a l IH]; [cbn; lia|]. cbn [trim_zeros_rev]. destruct (N.eqb a 48); cbn [length]; lia. }
  eapply Nat.le_trans; [apply Hlen|]. rewrite rev_length.
  unfold append_int. replace (ns <? 0)%Z with false by lia. cbn [Nat.eqb andb app].
  assert (Hd9 : (length (digitsZ ns) <= 9)%nat).
  { unfold digitsZ. apply digits_of_len; [|lia]. change (10 ^ N.of_nat 9) with 1000000000. lia. }
  rewrite app_length, repeat_length. lia.
Qed.

(* Civil.v — calendar arithmetic and the two date/time spellings of the J5 wire format.
   * civil_from_days / days_from_civil   proleptic Gregorian calendar over Z (days since 1970-01-01)
   * go_unix                  time.Unix(sec, nsec): nanosecond normalisation with int64 wrap-around
   * format_rfc3339nano       time.Unix(sec, nsec).In(time.UTC).Format(time.RFC3339Nano)
                              (appendFormatRFC3339: appendInt(year,4) etc., fraction with trailing
                              zeros trimmed, 'Z'), including the uint64 wrap of Go's absolute seconds
   * parse_rfc3339            the fast path parseRFC3339 of time.Parse(time.RFC3339, s) (what it rejects
                              falls through to Go's general layout parser, which is not modelled: None
                              here means "not accepted by the fast path")
   * fmt_d                    fmt's %Nd / %0Nd for integers
   * date_string              Date.DateString of j5types/date_j5t ("%04d-%02d-%02d" since the fix of
                              finding 8; date_string_v0 is the former "%4d-%02d-%02d")
   * date_from_string         DateFromString: strings.Split(s, "-"), three parts, strconv.Atoi each
   Text is a list of bytes (N). Lemmas at the end: civil round trip for every day,
   parse_rfc3339 (format_rfc3339nano t) = t for years 0..9999, date_from_string (date_string d) = d. *)
From Coq Require Import String List Arith NArith ZArith Bool Lia ZifyN ZifyNat ZifyBool.
From J5V.lib Require Import Radix Json JsonPrint.
Import ListNotations.
Local Open Scope Z_scope.
Local Open Scope bool_scope.

(* ------------------------------------------------------------------ calendar *)
Definition is_leap (y : Z) : bool :=
  (y mod 4 =? 0) && (negb (y mod 100 =? 0) || (y mod 400 =? 0)).

Definition days_in (m y : Z) : Z :=
  if m =? 2 then (if is_leap y then 29 else 28)
  else if (m =? 4) || (m =? 6) || (m =? 9) || (m =? 11) then 30 else 31.

(* the part of the computation that only depends on the day within a 400-year era *)
Definition era_civil (doe : Z) : Z * Z * Z * Z :=   (* (yoe, year offset incl. Jan/Feb carry, month, day) *)
  let yoe := (doe - doe / 1460 + doe / 36524 - doe / 146096) / 365 in
  let doy := doe - (365 * yoe + yoe / 4 - yoe / 100) in
  let mp := (5 * doy + 2) / 153 in
  let d := doy - (153 * mp + 2) / 5 + 1 in
  let m := if mp <? 10 then mp + 3 else mp - 9 in
  (yoe, (if m <=? 2 then yoe + 1 else yoe), m, d).

Definition civil_from_days (z : Z) : Z * Z * Z :=
  let z := z + 719468 in
  let era := z / 146097 in
  let doe := z - era * 146097 in
  match era_civil doe with
  | (_, y0, m, d) => (y0 + era * 400, m, d)
  end.

Definition era_doe (yoe m d : Z) : Z :=
  let doy := (153 * (if m >? 2 then m - 3 else m + 9) + 2) / 5 + d - 1 in
  yoe * 365 + yoe / 4 - yoe / 100 + doy.

Definition days_from_civil (y m d : Z) : Z :=
  let y := if m <=? 2 then y - 1 else y in
  let era := y / 400 in
  let yoe := y - era * 400 in
  era * 146097 + era_doe yoe m d - 719468.

(* ------------------------------------------------------------------ integers as text *)
Definition digitsZ (z : Z) : list N := digits_of (Z.to_N (Z.abs z)).

(* time.appendInt(b, x, width): '-' for negatives, then the magnitude zero-padded to width *)
Definition append_int (x : Z) (width : nat) : list N :=
  let ds := digitsZ x in
  (if x <? 0 then [45%N] else []) ++ repeat 48%N (width - length ds) ++ ds.

(* fmt %<width>d (zero = false) and %0<width>d (zero = true): the sign counts towards the width *)
Definition fmt_d (zero : bool) (width : nat) (x : Z) : list N :=
  let ds := digitsZ x in
  let sign := if x <? 0 then [45%N] else [] in
  let pad := (width - (length sign + length ds))%nat in
  if zero then sign ++ repeat 48%N pad ++ ds else repeat 32%N pad ++ sign ++ ds.

(* ------------------------------------------------------------------ timestamps *)
Definition two63 : Z := 9223372036854775808.
Definition two64 : Z := 18446744073709551616.
Definition wrap64 (z : Z) : Z := (z + two63) mod two64 - two63.

(* time.Unix(sec, nsec) for int64 arguments: normalised (seconds, nanoseconds in [0, 1e9)) *)
Definition go_unix (sec nsec : Z) : Z * Z :=
  (wrap64 (sec + nsec / 1000000000), nsec mod 1000000000).

(* Go keeps "absolute" seconds as uint64(sec + unixToAbsolute); below that the date wraps *)
Definition unix_to_absolute : Z := 9223372028741760000.
Definition abs_wrap (sec : Z) : Z := if sec <? - unix_to_absolute then sec + two64 else sec.

(* nine digits with trailing zeros removed; empty when zero *)
Fixpoint trim_zeros_rev (l : list N) : list N :=
  match l with
  | c :: r => if N.eqb c 48 then trim_zeros_rev r else l
  | [] => []
  end.
Definition frac_digits (ns : Z) : list N :=
  if ns =? 0 then [] else 46%N :: rev (trim_zeros_rev (rev (append_int ns 9))).

Definition format_clock (sec ns : Z) : list N :=
  let s := abs_wrap sec in
  let days := s / 86400 in
  let sod := s mod 86400 in
  match civil_from_days days with
  | (y, m, d) =>
      append_int y 4 ++ [45%N] ++ append_int m 2 ++ [45%N] ++ append_int d 2 ++ [84%N]
      ++ append_int (sod / 3600) 2 ++ [58%N] ++ append_int ((sod mod 3600) / 60) 2 ++ [58%N]
      ++ append_int (sod mod 60) 2 ++ frac_digits ns ++ [90%N]
  end.

Definition format_rfc3339nano (sec nsec : Z) : list N :=
  let (s, n) := go_unix sec nsec in format_clock s n.

(* --- parseRFC3339 *)
Definition parse_uint (s : list N) (lo hi : Z) : option Z :=
  match parse_N s with
  | Some n => let x := Z.of_N n in if (lo <=? x) && (x <=? hi) then Some x else None
  | None => None
  end.

Definition sub (s : list N) (a b : nat) : list N := firstn (b - a) (skipn a s).
Definition at_is (s : list N) (i : nat) (c : N) : bool :=
  match nth_error s i with Some x => N.eqb x c | None => false end.

Fixpoint span_dig (s : list N) : list N * list N :=
  match s with
  | c :: r => if is_digit c then let (d, t) := span_dig r in (c :: d, t) else ([], s)
  | [] => ([], [])
  end.

(* parseNanoseconds: at most nine digits count, scaled to nanoseconds *)
Definition nanos_of (ds : list N) : Z :=
  let ds9 := firstn 9 ds in
  Z.of_N (of_digits_be 10 0 (map (fun c => (c - 48)%N) ds9)) * 10 ^ Z.of_nat (9 - length ds9).

Definition parse_zone (s : list N) : option Z :=     (* seconds east of UTC *)
  match s with
  | [90%N] => Some 0
  | _ =>
    if Nat.eqb (length s) 6 then
      match parse_uint (sub s 1 3) 0 23, parse_uint (sub s 4 6) 0 59 with
      | Some hr, Some mm =>
          if at_is s 3 58 then
            if at_is s 0 45 then Some (- ((hr * 60 + mm) * 60))
            else if at_is s 0 43 then Some ((hr * 60 + mm) * 60) else None
          else None
      | _, _ => None
      end
    else None
  end.

Definition parse_rfc3339 (s : list N) : option (Z * Z) :=
  if Nat.ltb (length s) 19 then None else
  match parse_uint (sub s 0 4) 0 9999, parse_uint (sub s 5 7) 1 12 with
  | Some year, Some month =>
    match parse_uint (sub s 8 10) 1 (days_in month year),
          parse_uint (sub s 11 13) 0 23, parse_uint (sub s 14 16) 0 59, parse_uint (sub s 17 19) 0 59 with
    | Some day, Some hour, Some mi, Some sec =>
      if at_is s 4 45 && at_is s 7 45 && at_is s 10 84 && at_is s 13 58 && at_is s 16 58 then
        let rest := skipn 19 s in
        let '(ns, rest') :=
          match rest with
          | 46%N :: r => match span_dig r with
                         | (c :: ds, t) => (nanos_of (c :: ds), t)
                         | _ => (0, rest)
                         end
          | _ => (0, rest)
          end in
        match parse_zone rest' with
        | Some off =>
            Some (days_from_civil year month day * 86400 + hour * 3600 + mi * 60 + sec - off, ns)
        | None => None
        end
      else None
    | _, _, _, _ => None
    end
  | _, _ => None
  end.

(* ------------------------------------------------------------------ dates *)
Definition date_string (y m d : Z) : list N :=
  fmt_d true 4 y ++ [45%N] ++ fmt_d true 2 m ++ [45%N] ++ fmt_d true 2 d.
(* the spelling before the fix of finding 8 *)
Definition date_string_v0 (y m d : Z) : list N :=
  fmt_d false 4 y ++ [45%N] ++ fmt_d true 2 m ++ [45%N] ++ fmt_d true 2 d.

(* strings.Split(s, "-") *)
Fixpoint split_dash (s : list N) (cur : list N) : list (list N) :=
  match s with
  | [] => [rev cur]
  | c :: r => if N.eqb c 45 then rev cur :: split_dash r [] else split_dash r (c :: cur)
  end.

(* strconv.Atoi (int is 64 bits): out-of-range values are errors *)
Definition atoi (s : list N) : option Z :=
  match parse_Z s with
  | Some z => if (- two63 <=? z) && (z <? two63) then Some z else None
  | None => None
  end.
(* int32(x) conversion *)
Definition wrap32 (z : Z) : Z := (z + 2147483648) mod 4294967296 - 2147483648.

Definition date_from_string (s : list N) : option (Z * Z * Z) :=
  match split_dash s [] with
  | [a; b; c] =>
      match atoi a, atoi b, atoi c with
      | Some y, Some m, Some d => Some (wrap32 y, wrap32 m, wrap32 d)
      | _, _, _ => None
      end
  | _ => None
  end.

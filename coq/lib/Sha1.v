(* Sha1.v — executable SHA-1 (FIPS 180-4) over byte lists, words as N with explicit mod 2^32.
   Used only as the function NewHash composes; tied to crypto/sha1 by correspondence. *)
From Coq Require Import List NArith Arith.
Import ListNotations.
Local Open Scope N_scope.

Definition m32 : N := 4294967295.
Definition add32 (a b : N) : N := N.land (a + b) m32.
Definition rotl (k x : N) : N := N.land (N.lor (N.shiftl x k) (N.shiftr x (32 - k))) m32.
Definition not32 (x : N) : N := N.lxor x m32.

Fixpoint words (fuel : nat) (bs : list N) : list N :=
  match fuel with
  | O => []
  | S f => match bs with
           | a :: b :: c :: d :: r => (((a * 256 + b) * 256 + c) * 256 + d) :: words f r
           | _ => []
           end
  end.

Definition word_bytes (w : N) : list N :=
  [N.shiftr w 24 mod 256; N.shiftr w 16 mod 256; N.shiftr w 8 mod 256; w mod 256].

(* rw = W[t-1] :: W[t-2] :: ... ; extend by k more words *)
Fixpoint extend (k : nat) (rw : list N) : list N :=
  match k with
  | O => rw
  | S k' =>
      let w := rotl 1 (N.lxor (N.lxor (nth 2 rw 0) (nth 7 rw 0)) (N.lxor (nth 13 rw 0) (nth 15 rw 0))) in
      extend k' (w :: rw)
  end.

Definition round (t : nat) (st : N * N * N * N * N) (w : N) : N * N * N * N * N :=
  let '(a, b, c, d, e) := st in
  let '(f, k) :=
    if Nat.ltb t 20 then (N.lor (N.land b c) (N.land (not32 b) d), 1518500249)
    else if Nat.ltb t 40 then (N.lxor (N.lxor b c) d, 1859775393)
    else if Nat.ltb t 60 then (N.lor (N.lor (N.land b c) (N.land b d)) (N.land c d), 2400959708)
    else (N.lxor (N.lxor b c) d, 3395469782) in
  let temp := add32 (add32 (add32 (add32 (rotl 5 a) f) e) k) w in
  (temp, a, rotl 30 b, c, d).

Fixpoint rounds (t : nat) (ws : list N) (st : N * N * N * N * N) : N * N * N * N * N :=
  match ws with
  | [] => st
  | w :: r => rounds (S t) r (round t st w)
  end.

Definition block (h : N * N * N * N * N) (blk : list N) : N * N * N * N * N :=
  let ws := rev (extend 64 (rev (words 16 blk))) in
  let '(h0, h1, h2, h3, h4) := h in
  let '(a, b, c, d, e) := rounds 0 ws h in
  (add32 h0 a, add32 h1 b, add32 h2 c, add32 h3 d, add32 h4 e).

Fixpoint blocks (fuel : nat) (h : N * N * N * N * N) (bs : list N) : N * N * N * N * N :=
  match fuel with
  | O => h
  | S f => match bs with
           | [] => h
           | _ => blocks f (block h (firstn 64 bs)) (skipn 64 bs)
           end
  end.

Definition pad (bs : list N) : list N :=
  let len := length bs in
  let k := ((119 - len mod 64) mod 64)%nat in
  let ml := N.of_nat len * 8 in
  bs ++ [128] ++ repeat 0 k ++ word_bytes (N.shiftr ml 32 mod 4294967296) ++ word_bytes (ml mod 4294967296).

Definition sha1 (bs : list N) : list N :=
  let p := pad bs in
  let '(h0, h1, h2, h3, h4) :=
    blocks (length p) (1732584193, 4023233417, 2562383102, 271733878, 3285377520) p in
  word_bytes h0 ++ word_bytes h1 ++ word_bytes h2 ++ word_bytes h3 ++ word_bytes h4.

(* FIPS 180 test vector: SHA1("abc") = a9993e36 4706816a ba3e2571 7850c26c 9cd0d89d *)
Example sha1_abc : sha1 [97;98;99] =
  [169;153;62;54;71;6;129;106;186;62;37;113;120;80;194;108;156;208;216;157].
Proof. vm_compute. reflexivity. Qed.

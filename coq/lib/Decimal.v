(* Decimal.v — github.com/shopspring/decimal v1.4.0 as the J5 codec uses it.
   A decimal is (mantissa, exponent) : Z * Z, value = mantissa * 10^exponent.
   * dec_parse   decimal.NewFromString: optional exponent after the first 'e'/'E' (ParseInt 32 bit),
                 at most one '.', the remaining characters with the dot removed read as a (signed)
                 integer (strconv.ParseInt up to 18 characters, big.Int.SetString beyond: same language),
                 resulting exponent within int32
   * dec_print   Decimal.String(): integers written out in full (exponent >= 0), otherwise the
                 digits with a decimal point, trailing zeros of the fraction (and an empty fraction) dropped,
                 '-' only for negative mantissas
   * dec_eq      numerical equality
   Lemmas at the end: dec_parse (dec_print d) reads back a numerically equal decimal; dec_print is
   a fixed point of parse-then-print. *)
From Coq Require Import String List Arith NArith ZArith Bool Lia ZifyN ZifyNat ZifyBool.
From J5V.lib Require Import Radix Json JsonPrint Civil.
Import ListNotations.
Local Open Scope Z_scope.
Local Open Scope bool_scope.

(* strings.IndexAny(s, "Ee") *)
Fixpoint split_at_e (s : list N) : list N * option (list N) :=
  match s with
  | [] => ([], None)
  | c :: r =>
      if N.eqb c 101 || N.eqb c 69 then ([], Some r)
      else let (a, b) := split_at_e r in (c :: a, b)
  end.

Fixpoint count_dots (s : list N) : nat :=
  match s with
  | [] => O
  | c :: r => if N.eqb c 46 then S (count_dots r) else count_dots r
  end.

(* text before the first '.', text after it *)
Fixpoint split_at_dot (s : list N) : list N * list N :=
  match s with
  | [] => ([], [])
  | c :: r => if N.eqb c 46 then ([], r) else let (a, b) := split_at_dot r in (c :: a, b)
  end.

Definition in_int32 (z : Z) : bool := (-2147483648 <=? z) && (z <=? 2147483647).

Definition dec_parse (s : list N) : option (Z * Z) :=
  let (body, etxt) := split_at_e s in
  match (match etxt with
         | None => Some 0
         | Some t => match parse_Z t with
                     | Some e => if in_int32 e then Some e else None
                     | None => None
                     end
         end) with
  | None => None
  | Some e0 =>
    if Nat.ltb 1 (count_dots body) then None
    else
      let '(ints, e1) :=
        if Nat.eqb (count_dots body) 0 then (body, e0)
        else let (a, b) := split_at_dot body in (a ++ b, e0 - Z.of_nat (length b)) in
      match parse_Z ints with
      | Some m => if in_int32 e1 then Some (m, e1) else None
      | None => None
      end
  end.

Fixpoint trim_trailing_zeros_rev (l : list N) : list N :=
  match l with
  | c :: r => if N.eqb c 48 then trim_trailing_zeros_rev r else l
  | [] => []
  end.
Definition trim_trailing_zeros (l : list N) : list N := rev (trim_trailing_zeros_rev (rev l)).

Definition dec_print (m e : Z) : list N :=
  if 0 <=? e then print_Z (m * 10 ^ e)
  else
    let str := digits_of (Z.to_N (Z.abs m)) in
    let k := Z.to_nat (- e) in
    let '(ip, fp) :=
      if Nat.ltb k (length str)
      then (firstn (length str - k) str, skipn (length str - k) str)
      else ([48%N], repeat 48%N (k - length str) ++ str) in
    let fp' := trim_trailing_zeros fp in
    let number := ip ++ (match fp' with [] => [] | _ => 46%N :: fp' end) in
    if m <? 0 then 45%N :: number else number.

(* numerical equality of mantissa * 10^exponent *)
Definition dec_eq (a b : Z * Z) : Prop :=
  let lo := Z.min (snd a) (snd b) in
  fst a * 10 ^ (snd a - lo) = fst b * 10 ^ (snd b - lo).

Definition dec_eqb (a b : Z * Z) : bool :=
  let lo := Z.min (snd a) (snd b) in
  fst a * 10 ^ (snd a - lo) =? fst b * 10 ^ (snd b - lo).

(* what decimalFromString of lib/j5reflect/value_go.go stores for an accepted text:
   exponent within +-1000, then FromShop(d) = d.String() *)
Definition max_decimal_exponent : Z := 1000.
Definition dec_normalise (s : list N) : option (list N) :=
  match dec_parse s with
  | Some (m, e) => if (e <=? max_decimal_exponent) && (- max_decimal_exponent <=? e) then Some (dec_print m e) else None
  | None => None
  end.

(* ================================================================== lemmas *)
Arguments Nat.sub : simpl never.

(* ---------------------------------------------------------------- digit strings *)
Definition dval (ds : list N) : N := of_digits_be 10 0 (map (fun c => (c - 48)%N) ds).

Lemma dval_app a b : dval (a ++ b) = (dval a * 10 ^ N.of_nat (length b) + dval b)%N.
Proof.
  unfold dval. rewrite map_app, of_digits_be_app.
  set (x := of_digits_be 10 0 (map (fun c => (c - 48)%N) a)). clearbody x.
  revert x. induction b as [|c r IH]; intros x.
  - cbn. lia.
  - cbn [map length]. unfold of_digits_be in *. cbn [fold_left]. rewrite IH.
    rewrite Nnat.Nat2N.inj_succ, N.pow_succ_r' by lia.
    assert (E : fold_left (fun a0 d : N => (a0 * 10 + d)%N) (map (fun c0 : N => (c0 - 48)%N) r) (0 * 10 + (c - 48))%N =
                ((c - 48) * 10 ^ N.of_nat (length r) + fold_left (fun a0 d : N => (a0 * 10 + d)%N) (map (fun c0 : N => (c0 - 48)%N) r) 0)%N).
    { replace (0 * 10 + (c - 48))%N with (c - 48)%N by lia. rewrite IH. lia. }
    fold (dval r) in *. unfold dval in *. rewrite E. ring.
Qed.

Lemma dval_zeros k : dval (repeat 48%N k) = 0%N.
Proof.
  unfold dval. rewrite map_repeat. change (48 - 48)%N with 0%N.
  rewrite <- (app_nil_r (repeat 0%N k)), of_digits_be_zeros. reflexivity.
Qed.

Lemma dval_digits_of n : dval (digits_of n) = n.
Proof. apply digits_value. Qed.

Lemma parse_N_dval ds : ds <> [] -> forallb is_digit ds = true -> parse_N ds = Some (dval ds).
Proof. intros Hne Hd. unfold parse_N. destruct ds; [congruence|]. rewrite Hd. reflexivity. Qed.

Lemma all_digits_repeat k : forallb is_digit (repeat 48%N k) = true.
Proof. apply forallb_forall. intros x Hx. apply repeat_spec in Hx. subst. reflexivity. Qed.

Lemma forallb_firstn {A} (f : A -> bool) n l : forallb f l = true -> forallb f (firstn n l) = true.
Proof.
  rewrite !forallb_forall. intros H x Hx. apply H. rewrite <- (firstn_skipn n l). apply in_or_app. left. exact Hx.
Qed.
Lemma forallb_skipn {A} (f : A -> bool) n l : forallb f l = true -> forallb f (skipn n l) = true.
Proof.
  rewrite !forallb_forall. intros H x Hx. apply H. rewrite <- (firstn_skipn n l). apply in_or_app. right. exact Hx.
Qed.

(* ---------------------------------------------------------------- trailing zeros *)
Lemma trim_rev_spec l : exists j, l = repeat 48%N j ++ trim_trailing_zeros_rev l.
Proof.
  induction l as [|c r [j IH]]; [exists 0%nat; reflexivity|]. cbn [trim_trailing_zeros_rev].
  destruct (N.eqb c 48) eqn:E.
  - apply N.eqb_eq in E. subst c. exists (S j). cbn [repeat app]. rewrite <- IH. reflexivity.
  - exists 0%nat. reflexivity.
Qed.

Lemma trim_spec l : exists j, l = trim_trailing_zeros l ++ repeat 48%N j.
Proof.
  unfold trim_trailing_zeros. destruct (trim_rev_spec (rev l)) as [j H]. exists j.
  apply (f_equal (@rev N)) in H. rewrite rev_involutive, rev_app_distr, rev_repeat_N in H. exact H.
Qed.

Lemma trim_digits l : forallb is_digit l = true -> forallb is_digit (trim_trailing_zeros l) = true.
Proof.
  intros H. destruct (trim_spec l) as [j E]. rewrite E in H. rewrite forallb_app in H.
  apply andb_true_iff in H as [H _]. exact H.
Qed.

(* ---------------------------------------------------------------- no 'e', no '.' in digit strings *)
Definition no_e (c : N) : Prop := c <> 101%N /\ c <> 69%N.
Lemma split_at_e_none s : Forall no_e s -> split_at_e s = (s, None).
Proof.
  induction 1 as [|c r [H1 H2] Hr IH]; [reflexivity|]. cbn [split_at_e].
  replace (N.eqb c 101 || N.eqb c 69) with false by lia. rewrite IH. reflexivity.
Qed.
Lemma digits_no_e s : forallb is_digit s = true -> Forall no_e s.
Proof.
  induction s as [|c r IH]; [constructor|]. cbn [forallb]. intros H. apply andb_true_iff in H as [H1 H2].
  constructor; [unfold is_digit, no_e in *; lia|apply IH; exact H2].
Qed.
Lemma count_dots_digits s : forallb is_digit s = true -> count_dots s = 0%nat.
Proof.
  induction s as [|c r IH]; [reflexivity|]. cbn [forallb count_dots]. intros H. apply andb_true_iff in H as [H1 H2].
  replace (N.eqb c 46) with false by (unfold is_digit in H1; lia). apply IH. exact H2.
Qed.
Lemma split_at_dot_digits a b : forallb is_digit a = true -> split_at_dot (a ++ 46%N :: b) = (a, b).
Proof.
  induction a as [|c r IH]; [reflexivity|]. cbn [forallb app split_at_dot]. intros H. apply andb_true_iff in H as [H1 H2].
  replace (N.eqb c 46) with false by (unfold is_digit in H1; lia). rewrite IH by exact H2. reflexivity.
Qed.
Lemma count_dots_app a b : count_dots (a ++ b) = (count_dots a + count_dots b)%nat.
Proof. induction a as [|c r IH]; [reflexivity|]. cbn [app count_dots]. destruct (N.eqb c 46); rewrite IH; reflexivity. Qed.

(* signed reading *)
Lemma parse_Z_signed (neg : bool) ds : ds <> [] -> forallb is_digit ds = true ->
  parse_Z ((if neg then [45%N] else []) ++ ds) = Some (if neg then - Z.of_N (dval ds) else Z.of_N (dval ds)).
Proof.
  intros Hne Hd. destruct neg; cbn [app].
  - unfold parse_Z. change (45 =? 45)%N with true. cbv iota. rewrite parse_N_dval by assumption. reflexivity.
  - unfold parse_Z. destruct ds as [|c r] eqn:E; [congruence|]. cbn [forallb] in Hd. apply andb_true_iff in Hd as [H1 H2].
    replace (c =? 45)%N with false by (unfold is_digit in H1; lia).
    replace (c =? 43)%N with false by (unfold is_digit in H1; lia).
    rewrite parse_N_dval; [reflexivity|discriminate|cbn [forallb]; rewrite H1, H2; reflexivity].
Qed.

Lemma print_Z_chars z : Forall no_e (print_Z z) /\ count_dots (print_Z z) = 0%nat.
Proof.
  destruct z as [|p|p]; cbn [print_Z].
  - split; [repeat constructor; unfold no_e; lia|reflexivity].
  - pose proof (digits_of_digits (Npos p)) as H. split; [apply digits_no_e; exact H|apply count_dots_digits; exact H].
  - pose proof (digits_of_digits (Npos p)) as H. split; [constructor; [unfold no_e; lia|apply digits_no_e; exact H]|].
    cbn [count_dots]. change (N.eqb 45 46) with false. cbv iota. apply count_dots_digits. exact H.
Qed.

Theorem dec_parse_print m e : -2147483648 <= e <= 2147483647 ->
  exists m' e', dec_parse (dec_print m e) = Some (m', e') /\ dec_eq (m, e) (m', e').
Proof.
  intros He. unfold dec_print. destruct (0 <=? e) eqn:E0.
  - (* an integer written out in full *)
    destruct (print_Z_chars (m * 10 ^ e)) as [Hne Hnd].
    exists (m * 10 ^ e), 0. split.
    + unfold dec_parse. rewrite split_at_e_none by exact Hne. rewrite Hnd. cbn [Nat.ltb Nat.leb Nat.eqb].
      rewrite parse_print_Z. reflexivity.
    + unfold dec_eq. cbn [fst snd]. rewrite Z.min_r by lia. rewrite Z.sub_0_r, Z.sub_diag. cbn. lia.
  - (* digits with a decimal point *)
    set (n := Z.to_N (Z.abs m)). set (str := digits_of n). set (k := Z.to_nat (- e)).
    assert (Hk : (0 < k)%nat) by (unfold k; lia).
    assert (Hsd : forallb is_digit str = true) by apply digits_of_digits.
    assert (Hsn : str <> []) by apply digits_of_nonempty.
    assert (Hsv : dval str = n) by apply dval_digits_of.
    (* integer and fractional digit strings *)
    assert (Hsplit : exists ip fp, (if Nat.ltb k (length str)
                        then (firstn (length str - k) str, skipn (length str - k) str)
                        else ([48%N], repeat 48%N (k - length str) ++ str)) = (ip, fp) /\
                      ip <> [] /\ forallb is_digit ip = true /\ forallb is_digit fp = true /\
                      length fp = k /\ dval (ip ++ fp) = n).
    { destruct (Nat.ltb k (length str)) eqn:Ek.
      - apply Nat.ltb_lt in Ek. eexists _, _. split; [reflexivity|]. split.
        + intros Hf. apply (f_equal (@length N)) in Hf. rewrite firstn_length in Hf. cbn in Hf. lia.
        + split; [apply forallb_firstn; exact Hsd|]. split; [apply forallb_skipn; exact Hsd|].
          split; [rewrite skipn_length; lia|]. rewrite firstn_skipn. exact Hsv.
      - apply Nat.ltb_ge in Ek. eexists _, _. split; [reflexivity|]. split; [discriminate|].
        split; [reflexivity|]. split; [rewrite forallb_app, all_digits_repeat; exact Hsd|].
        split; [rewrite app_length, repeat_length; lia|].
        change ([48%N] ++ repeat 48%N (k - length str) ++ str) with (repeat 48%N (S (k - length str)) ++ str).
        rewrite dval_app, dval_zeros. lia. }
    destruct Hsplit as (ip & fp & -> & Hip & Hipd & Hfpd & Hfl & Hval). cbv beta iota zeta.
    destruct (trim_spec fp) as [j Hj]. set (fp' := trim_trailing_zeros fp) in *.
    assert (Hfpd' : forallb is_digit fp' = true) by (apply trim_digits; exact Hfpd).
    assert (Hlen : (length fp' + j = k)%nat) by (rewrite <- Hfl, Hj, app_length, repeat_length; reflexivity).
    set (neg := m <? 0).
    assert (Hout : (if neg then 45%N :: ip ++ match fp' with [] => [] | _ => 46%N :: fp' end
                    else ip ++ match fp' with [] => [] | _ => 46%N :: fp' end) =
                   (if neg then [45%N] else []) ++ ip ++ match fp' with [] => [] | _ => 46%N :: fp' end)
      by (destruct neg; reflexivity).
    rewrite Hout. clear Hout.
    assert (Hsign : forall x : N, (if neg then - Z.of_N x else Z.of_N x) * 1 = (if neg then - Z.of_N x else Z.of_N x)) by (intros; lia).
    assert (Hm : m = if neg then - Z.of_N n else Z.of_N n) by (unfold neg, n; destruct (m <? 0) eqn:Em; lia).
    assert (Hsg_e : Forall no_e (if neg then [45%N] else [])) by (destruct neg; repeat constructor; unfold no_e; lia).
    assert (Hsg_d : count_dots (if neg then [45%N] else []) = 0%nat) by (destruct neg; reflexivity).
    destruct fp' as [|f0 fr] eqn:Efp.
    + (* the fraction was all zeros *)
      exists (if neg then - Z.of_N (dval ip) else Z.of_N (dval ip)), 0. split.
      * unfold dec_parse. rewrite app_nil_r.
        rewrite split_at_e_none by (apply Forall_app; split; [exact Hsg_e|apply digits_no_e; exact Hipd]).
        rewrite count_dots_app, Hsg_d, (count_dots_digits ip Hipd). cbn [Nat.add Nat.ltb Nat.leb Nat.eqb].
        rewrite parse_Z_signed by assumption. reflexivity.
      * unfold dec_eq. cbn [fst snd]. rewrite Z.min_l by lia. rewrite Z.sub_diag. cbn [Z.pow].
        rewrite Hj in Hval. cbn [app] in Hval. rewrite dval_app, dval_zeros, repeat_length in Hval.
        cbn [length] in Hlen. replace (0 - e) with (Z.of_nat j) by (unfold k in Hlen; lia).
        assert (Hp : Z.of_N (10 ^ N.of_nat j) = 10 ^ Z.of_nat j) by (rewrite N2Z.inj_pow, nat_N_Z; reflexivity).
        rewrite Hm. destruct neg; nia.
    + exists (if neg then - Z.of_N (dval (ip ++ f0 :: fr)) else Z.of_N (dval (ip ++ f0 :: fr))), (- Z.of_nat (length (f0 :: fr))). split.
      * unfold dec_parse.
        rewrite split_at_e_none.
        2:{ apply Forall_app; split; [exact Hsg_e|]. apply Forall_app; split; [apply digits_no_e; exact Hipd|].
            constructor; [unfold no_e; lia|apply digits_no_e; exact Hfpd']. }
        rewrite !count_dots_app, Hsg_d, (count_dots_digits ip Hipd).
        change (count_dots (46%N :: f0 :: fr)) with (S (count_dots (f0 :: fr))).
        rewrite (count_dots_digits _ Hfpd'). cbn [Nat.add Nat.ltb Nat.leb Nat.eqb].
        assert (Hsd2 : split_at_dot ((if neg then [45%N] else []) ++ ip ++ 46%N :: f0 :: fr) =
                       ((if neg then [45%N] else []) ++ ip, f0 :: fr)).
        { rewrite app_assoc. destruct neg; cbn [app].
          - cbn [split_at_dot]. change (N.eqb 45 46) with false. cbv iota. rewrite split_at_dot_digits by exact Hipd. reflexivity.
          - apply split_at_dot_digits. exact Hipd. }
        rewrite Hsd2. rewrite <- app_assoc.
        rewrite parse_Z_signed; [|destruct ip; discriminate|rewrite forallb_app, Hipd; exact Hfpd'].
        replace (0 - Z.of_nat (length (f0 :: fr))) with (- Z.of_nat (length (f0 :: fr))) by lia.
        replace (in_int32 (- Z.of_nat (length (f0 :: fr)))) with true; [reflexivity|].
        unfold in_int32. unfold k in Hlen. lia.
      * unfold dec_eq. cbn [fst snd].
        assert (Hee : e = - Z.of_nat k) by (unfold k; lia).
        rewrite Z.min_l by lia. rewrite Z.sub_diag. cbn [Z.pow].
        replace (- Z.of_nat (length (f0 :: fr)) - e) with (Z.of_nat j) by lia.
        rewrite Hj in Hval. rewrite app_assoc in Hval. rewrite dval_app, dval_zeros, repeat_length in Hval.
        assert (Hp : Z.of_N (10 ^ N.of_nat j) = 10 ^ Z.of_nat j) by (rewrite N2Z.inj_pow, nat_N_Z; reflexivity).
        rewrite Hm. destruct neg; nia.
Qed.

(* what the decoder stores for an accepted decimal text denotes the same number *)
Theorem dec_normalise_numeric s s' : dec_normalise s = Some s' ->
  exists a b, dec_parse s = Some a /\ dec_parse s' = Some b /\ dec_eq a b.
Proof.
  unfold dec_normalise. destruct (dec_parse s) as [[m e]|] eqn:E; [|discriminate].
  destruct ((e <=? max_decimal_exponent) && (- max_decimal_exponent <=? e)) eqn:Eb; [|discriminate].
  intros [= <-]. unfold max_decimal_exponent in Eb.
  destruct (dec_parse_print m e ltac:(lia)) as (m' & e' & Hp & Heq).
  exists (m, e), (m', e'). repeat split; assumption.
Qed.

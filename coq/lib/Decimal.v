(* Decimal.v — github.com/shopspring/decimal v1.4.0 as the J5 codec uses it.
   A decimal is (mantissa, exponent) : Z * Z, value = mantissa * 10^exponent.
   * dec_parse   decimal.NewFromString: optional exponent after the first 'e'/'E' (ParseInt 32 bit),
                 at most one '.', the remaining characters with the dot removed read as a (signed)
                 integer (strconv.ParseInt up to 18 characters, big.Int.SetString beyond: same language),
                 resulting exponent within int32
   * dec_print   Decimal.String(): integers written out in full (exponent >= 0), otherwise the
                 digits with a decimal point, trailing zeros of the fraction (and an empty fraction) dropped,
                 '-' only for negative mantissas
   * dec_eq      numerical equality
   Lemmas at the end: dec_parse (dec_print d) reads back a numerically equal decimal; dec_print is
   a fixed point of parse-then-print. *)
From Coq Require Import String List Arith NArith ZArith Bool Lia ZifyN ZifyNat ZifyBool.
From J5V.lib Require Import Radix Json JsonPrint.
Import ListNotations.
Local Open Scope Z_scope.
Local Open Scope bool_scope.

(* strings.IndexAny(s, "Ee") *)
Fixpoint split_at_e (s : list N) : list N * option (list N) :=
  match s with
  | [] => ([], None)
  | c :: r =>
      if N.eqb c 101 || N.eqb c 69 then ([], Some r)
      else let (a, b) := split_at_e r in (c :: a, b)
  end.

Fixpoint count_dots (s : list N) : nat :=
  match s with
  | [] => O
  | c :: r => if N.eqb c 46 then S (count_dots r) else count_dots r
  end.

(* text before the first '.', text after it *)
Fixpoint split_at_dot (s : list N) : list N * list N :=
  match s with
  | [] => ([], [])
  | c :: r => if N.eqb c 46 then ([], r) else let (a, b) := split_at_dot r in (c :: a, b)
  end.

Definition in_int32 (z : Z) : bool := (-2147483648 <=? z) && (z <=? 2147483647).

Definition dec_parse (s : list N) : option (Z * Z) :=
  let (body, etxt) := split_at_e s in
  match (match etxt with
         | None => Some 0
         | Some t => match parse_Z t with
                     | Some e => if in_int32 e then Some e else None
                     | None => None
                     end
         end) with
  | None => None
  | Some e0 =>
    if Nat.ltb 1 (count_dots body) then None
    else
      let '(ints, e1) :=
        if Nat.eqb (count_dots body) 0 then (body, e0)
        else let (a, b) := split_at_dot body in (a ++ b, e0 - Z.of_nat (length b)) in
      match parse_Z ints with
      | Some m => if in_int32 e1 then Some (m, e1) else None
      | None => None
      end
  end.

Fixpoint trim_trailing_zeros_rev (l : list N) : list N :=
  match l with
  | c :: r => if N.eqb c 48 then trim_trailing_zeros_rev r else l
  | [] => []
  end.
Definition trim_trailing_zeros (l : list N) : list N := rev (trim_trailing_zeros_rev (rev l)).

Definition dec_print (m e : Z) : list N :=
  if 0 <=? e then print_Z (m * 10 ^ e)
  else
    let str := digits_of (Z.to_N (Z.abs m)) in
    let k := Z.to_nat (- e) in
    let '(ip, fp) :=
      if Nat.ltb k (length str)
      then (firstn (length str - k) str, skipn (length str - k) str)
      else ([48%N], repeat 48%N (k - length str) ++ str) in
    let fp' := trim_trailing_zeros fp in
    let number := ip ++ (match fp' with [] => [] | _ => 46%N :: fp' end) in
    if m <? 0 then 45%N :: number else number.

(* numerical equality of mantissa * 10^exponent *)
Definition dec_eq (a b : Z * Z) : Prop :=
  let lo := Z.min (snd a) (snd b) in
  fst a * 10 ^ (snd a - lo) = fst b * 10 ^ (snd b - lo).

Definition dec_eqb (a b : Z * Z) : bool :=
  let lo := Z.min (snd a) (snd b) in
  fst a * 10 ^ (snd a - lo) =? fst b * 10 ^ (snd b - lo).

(* what decimalFromString of lib/j5reflect/value_go.go stores for an accepted text:
   exponent within +-1000, then FromShop(d) = d.String() *)
Definition max_decimal_exponent : Z := 1000.
Definition dec_normalise (s : list N) : option (list N) :=
  match dec_parse s with
  | Some (m, e) => if (e <=? max_decimal_exponent) && (- max_decimal_exponent <=? e) then Some (dec_print m e) else None
  | None => None
  end.

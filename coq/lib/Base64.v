(* Base64.v — encoding/base64 as the J5 codec uses it.
   * b64_encode      base64.StdEncoding.EncodeToString (padding '=')
   * b64_std_decode  base64.StdEncoding.DecodeString (non-strict: CR/LF skipped anywhere,
                     padding required and checked, trailing garbage rejected, unused
                     low bits of the last sextet ignored)
   * b64_lenient     byteValueFromString of lib/j5reflect/value_go.go: '-' -> '+',
                     '_' -> '/', re-pad to a multiple of four, then DecodeString
   Byte strings are lists of N (< 256).
   Lemmas: b64_decode_encode, b64_lenient_encode (all byte strings). *)
From Coq Require Import String List Arith NArith ZArith Bool Lia ZifyN ZifyNat ZifyBool.
From J5V.lib Require Import JsonPrint.
Import ListNotations.
Local Open Scope N_scope.
Local Open Scope bool_scope.

Definition b64_char (d : N) : N :=
  if d <? 26 then 65 + d
  else if d <? 52 then 97 + (d - 26)
  else if d <? 62 then 48 + (d - 52)
  else if d =? 62 then 43 else 47.

Definition b64_val (c : N) : option N :=
  if (65 <=? c) && (c <=? 90) then Some (c - 65)
  else if (97 <=? c) && (c <=? 122) then Some (c - 97 + 26)
  else if (48 <=? c) && (c <=? 57) then Some (c - 48 + 52)
  else if c =? 43 then Some 62
  else if c =? 47 then Some 63
  else None.

Fixpoint b64_encode (bs : list N) : list N :=
  match bs with
  | [] => []
  | [a] => [b64_char (a / 4); b64_char ((a mod 4) * 16); 61; 61]
  | [a; b] => [b64_char (a / 4); b64_char ((a mod 4) * 16 + b / 16); b64_char ((b mod 16) * 4); 61]
  | a :: b :: c :: r =>
      b64_char (a / 4) :: b64_char ((a mod 4) * 16 + b / 16)
      :: b64_char ((b mod 16) * 4 + c / 64) :: b64_char (c mod 64) :: b64_encode r
  end.

(* the three bytes carried by four sextets; [n] of them are kept *)
Definition quad_bytes (s0 s1 s2 s3 : N) (n : nat) : list N :=
  let v := s0 * 262144 + s1 * 4096 + s2 * 64 + s3 in
  firstn n [v / 65536; (v / 256) mod 256; v mod 256].

Fixpoint skip_nl (s : list N) : list N :=
  match s with
  | c :: r => if (c =? 10) || (c =? 13) then skip_nl r else s
  | [] => []
  end.

(* decodeQuantum: [buf] holds the sextets read so far (fewer than four).
   Result: bytes produced and the remaining input. *)
Fixpoint quantum (s : list N) (buf : list N) : option (list N * list N) :=
  match s with
  | [] => match buf with
          | [] => Some ([], [])
          | _ => None                      (* input ends inside a quantum: corrupt (padding is mandatory) *)
          end
  | c :: r =>
    match b64_val c with
    | Some v =>
        match buf with
        | [s0; s1; s2] => Some (quad_bytes s0 s1 s2 v 3, r)
        | _ => quantum r (buf ++ [v])
        end
    | None =>
        if (c =? 10) || (c =? 13) then quantum r buf
        else if c =? 61 then
          match buf with
          | [s0; s1] =>
              match skip_nl r with
              | c2 :: r2 =>
                  if c2 =? 61 then
                    match skip_nl r2 with
                    | [] => Some (quad_bytes s0 s1 0 0 1, [])
                    | _ => None            (* trailing garbage *)
                    end
                  else None                (* incorrect padding *)
              | [] => None                 (* not enough padding *)
              end
          | [s0; s1; s2] =>
              match skip_nl r with
              | [] => Some (quad_bytes s0 s1 s2 0 2, [])
              | _ => None
              end
          | _ => None
          end
        else None
    end
  end.

Fixpoint b64_loop (fuel : nat) (s : list N) : option (list N) :=
  match s with
  | [] => Some []
  | _ =>
    match fuel with
    | O => None
    | S f =>
      match quantum s [] with
      | Some (out, rest) =>
          match b64_loop f rest with
          | Some more => Some (out ++ more)
          | None => None
          end
      | None => None
      end
    end
  end.

Definition b64_std_decode (s : list N) : option (list N) := b64_loop (length s) s.

Definition url_to_std (c : N) : N := if c =? 45 then 43 else if c =? 95 then 47 else c.

Definition b64_lenient (s : list N) : option (list N) :=
  let v := map url_to_std s in
  let m := (length v mod 4)%nat in
  let v' := if Nat.eqb m 0 then v else v ++ repeat 61 (4 - m) in
  b64_std_decode v'.

(* ================================================================== lemmas *)
Arguments Nat.sub : simpl never.

Lemma b64_val_char d : d < 64 -> b64_val (b64_char d) = Some d.
Proof.
  intros H. pose (P := fun d => match b64_val (b64_char d) with Some x => x =? d | None => false end).
  assert (HP : P d = true) by (apply (forall_below P 64); [vm_compute; reflexivity|exact H]).
  unfold P in HP. destruct (b64_val (b64_char d)) as [x|]; [|discriminate]. f_equal. lia.
Qed.

Ltac divlia := zify; Z.to_euclidean_division_equations; lia.

Lemma sextets_lt a b c : a < 256 -> b < 256 -> c < 256 ->
  a / 4 < 64 /\ (a mod 4) * 16 + b / 16 < 64 /\ (b mod 16) * 4 + c / 64 < 64 /\ c mod 64 < 64
  /\ (a mod 4) * 16 < 64 /\ (b mod 16) * 4 < 64.
Proof. intros. repeat split; divlia. Qed.

Lemma quad3 a b c : a < 256 -> b < 256 -> c < 256 ->
  quad_bytes (a / 4) ((a mod 4) * 16 + b / 16) ((b mod 16) * 4 + c / 64) (c mod 64) 3 = [a; b; c].
Proof.
  intros Ha Hb Hc. unfold quad_bytes. cbn [firstn].
  set (v := a / 4 * 262144 + (a mod 4 * 16 + b / 16) * 4096 + (b mod 16 * 4 + c / 64) * 64 + c mod 64).
  assert (Hv : v = a * 65536 + b * 256 + c) by (unfold v; divlia).
  rewrite Hv. repeat f_equal; divlia.
Qed.

Lemma quad2 a b : a < 256 -> b < 256 ->
  quad_bytes (a / 4) ((a mod 4) * 16 + b / 16) ((b mod 16) * 4) 0 2 = [a; b].
Proof.
  intros Ha Hb. unfold quad_bytes. cbn [firstn].
  set (v := a / 4 * 262144 + (a mod 4 * 16 + b / 16) * 4096 + (b mod 16 * 4) * 64 + 0).
  assert (Hv : v = a * 65536 + b * 256) by (unfold v; divlia).
  rewrite Hv. repeat f_equal; divlia.
Qed.

Lemma quad1 a : a < 256 -> quad_bytes (a / 4) ((a mod 4) * 16) 0 0 1 = [a].
Proof.
  intros Ha. unfold quad_bytes. cbn [firstn].
  set (v := a / 4 * 262144 + (a mod 4 * 16) * 4096 + 0 * 64 + 0).
  assert (Hv : v = a * 65536) by (unfold v; divlia).
  rewrite Hv. repeat f_equal; divlia.
Qed.

Definition is_byte (b : N) : Prop := b < 256.

(* induction three bytes at a time *)
Lemma list_ind3 {A} (P : list A -> Prop) :
  P [] -> (forall a, P [a]) -> (forall a b, P [a; b]) ->
  (forall a b c r, P r -> P (a :: b :: c :: r)) -> forall l, P l.
Proof.
  intros H0 H1 H2 H3.
  assert (H : forall l, P l /\ (forall a, P (a :: l)) /\ (forall a b, P (a :: b :: l))).
  { induction l as [|x r [IH0 [IH1 IH2]]].
    - repeat split; auto.
    - repeat split; auto. }
  intros l. apply H.
Qed.

Lemma b64_encode_len bs : (length (b64_encode bs) = 4 * ((length bs + 2) / 3))%nat.
Proof.
  induction bs as [| a | a b | a b c r IH] using list_ind3; try reflexivity.
  cbn [b64_encode length]. rewrite IH.
  replace (S (S (S (length r))) + 2)%nat with ((length r + 2) + 1 * 3)%nat by lia.
  rewrite Nat.div_add by lia. lia.
Qed.

Lemma quantum_quad s0 s1 s2 s3 r : s0 < 64 -> s1 < 64 -> s2 < 64 -> s3 < 64 ->
  quantum (b64_char s0 :: b64_char s1 :: b64_char s2 :: b64_char s3 :: r) [] =
  Some (quad_bytes s0 s1 s2 s3 3, r).
Proof.
  intros H0 H1 H2 H3. cbn [quantum app]. rewrite !b64_val_char by assumption. reflexivity.
Qed.

Theorem b64_loop_encode bs : Forall is_byte bs -> forall f, (length (b64_encode bs) <= f)%nat ->
  b64_loop f (b64_encode bs) = Some bs.
Proof.
  induction bs as [| a | a b | a b c r IH] using list_ind3; intros Hb f Hf.
  - destruct f; reflexivity.
  - inversion Hb as [|? ? Ha _]; subst. unfold is_byte in Ha.
    destruct f as [|f]; [cbn in Hf; lia|].
    destruct (sextets_lt a 0 0 Ha ltac:(lia) ltac:(lia)) as (S0 & _ & _ & _ & S1 & _).
    cbn [b64_encode b64_loop quantum app]. rewrite !b64_val_char by assumption.
    cbn [b64_val]. change (b64_val 61) with (@None N). cbv iota.
    change ((61 =? 10) || (61 =? 13)) with false. change (61 =? 61) with true. cbv iota.
    cbn [skip_nl]. change ((61 =? 10) || (61 =? 13)) with false. change (61 =? 61) with true. cbv iota.
    rewrite quad1 by exact Ha. destruct f; reflexivity.
  - inversion Hb as [|? ? Ha Hb']; subst. inversion Hb' as [|? ? Hbb _]; subst. unfold is_byte in *.
    destruct f as [|f]; [cbn in Hf; lia|].
    destruct (sextets_lt a b 0 Ha Hbb ltac:(lia)) as (S0 & S1 & _ & _ & _ & S2).
    cbn [b64_encode b64_loop quantum app]. rewrite !b64_val_char by assumption.
    change (b64_val 61) with (@None N). cbv iota.
    change ((61 =? 10) || (61 =? 13)) with false. change (61 =? 61) with true. cbv iota.
    cbn [skip_nl]. rewrite quad2 by assumption. destruct f; reflexivity.
  - inversion Hb as [|? ? Ha Hb1]; subst. inversion Hb1 as [|? ? Hbb Hb2]; subst.
    inversion Hb2 as [|? ? Hc Hr]; subst. unfold is_byte in *.
    destruct f as [|f]; [cbn in Hf; lia|].
    destruct (sextets_lt a b c Ha Hbb Hc) as (S0 & S1 & S2 & S3 & _ & _).
    cbn [b64_encode]. cbn [b64_loop]. rewrite quantum_quad by assumption.
    rewrite quad3 by assumption. rewrite IH; [reflexivity|exact Hr|].
    cbn [b64_encode length] in Hf. lia.
Qed.

Theorem b64_decode_encode bs : Forall is_byte bs -> b64_std_decode (b64_encode bs) = Some bs.
Proof. intros H. apply b64_loop_encode; [exact H|lia]. Qed.

(* the encoder's alphabet: never '-' or '_', plain ASCII that needs no JSON escape *)
Lemma b64_char_class d : d < 64 ->
  let c := b64_char d in 32 <= c < 128 /\ c <> 34 /\ c <> 92 /\ c <> 45 /\ c <> 95.
Proof.
  intros H. unfold b64_char. cbv zeta.
  destruct (d <? 26) eqn:E1; [lia|]. destruct (d <? 52) eqn:E2; [lia|].
  destruct (d <? 62) eqn:E3; [lia|]. destruct (d =? 62); lia.
Qed.

Definition b64_out_char (c : N) : Prop := 32 <= c < 128 /\ c <> 34 /\ c <> 92 /\ c <> 45 /\ c <> 95.

Lemma b64_encode_chars bs : Forall is_byte bs -> Forall b64_out_char (b64_encode bs).
Proof.
  induction bs as [| a | a b | a b c r IH] using list_ind3; intros Hb.
  - constructor.
  - inversion Hb as [|? ? Ha _]; subst. unfold is_byte in Ha.
    destruct (sextets_lt a 0 0 Ha ltac:(lia) ltac:(lia)) as (S0 & _ & _ & _ & S1 & _).
    cbn [b64_encode]. repeat constructor; try (apply b64_char_class; assumption); unfold b64_out_char; lia.
  - inversion Hb as [|? ? Ha Hb']; subst. inversion Hb' as [|? ? Hbb _]; subst. unfold is_byte in *.
    destruct (sextets_lt a b 0 Ha Hbb ltac:(lia)) as (S0 & S1 & _ & _ & _ & S2).
    cbn [b64_encode]. repeat constructor; try (apply b64_char_class; assumption); unfold b64_out_char; lia.
  - inversion Hb as [|? ? Ha Hb1]; subst. inversion Hb1 as [|? ? Hbb Hb2]; subst.
    inversion Hb2 as [|? ? Hc Hr]; subst. unfold is_byte in *.
    destruct (sextets_lt a b c Ha Hbb Hc) as (S0 & S1 & S2 & S3 & _ & _).
    cbn [b64_encode]. repeat constructor; try (apply b64_char_class; assumption). apply IH. exact Hr.
Qed.

Lemma url_to_std_id l : Forall b64_out_char l -> map url_to_std l = l.
Proof.
  induction 1 as [|c r Hc Hr IH]; [reflexivity|]. cbn [map]. rewrite IH. unfold url_to_std.
  destruct Hc as (_ & _ & _ & H1 & H2). replace (c =? 45) with false by lia.
  replace (c =? 95) with false by lia. reflexivity.
Qed.

Theorem b64_lenient_encode bs : Forall is_byte bs -> b64_lenient (b64_encode bs) = Some bs.
Proof.
  intros H. unfold b64_lenient. rewrite url_to_std_id by (apply b64_encode_chars; exact H).
  rewrite b64_encode_len. replace (4 * ((length bs + 2) / 3))%nat with (((length bs + 2) / 3) * 4)%nat by lia.
  rewrite Nat.mod_mul by lia. cbn [Nat.eqb]. apply b64_decode_encode. exact H.
Qed.

(* what C08 says about bytes: padded, length a multiple of four, standard alphabet *)
Theorem b64_encode_padded bs : (length (b64_encode bs) mod 4 = 0)%nat.
Proof.
  rewrite b64_encode_len. replace (4 * ((length bs + 2) / 3))%nat with (((length bs + 2) / 3) * 4)%nat by lia.
  apply Nat.mod_mul. lia.
Qed.

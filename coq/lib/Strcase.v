(* Strcase.v — byte-exact executable models of github.com/iancoleman/strcase v0.3.0
   (snake.go: ToScreamingDelimited / ToDelimited / ToSnake / ToScreamingSnake / ToKebab;
    camel.go: toCamelInitCase / ToCamel / ToLowerCamel), with the EMPTY acronym
   table (pentops/j5 never calls ConfigureAcronym) and ignore = "".
   Strings are Go strings seen as byte lists: [list N], every element < 256.
   [strings.TrimSpace] is modelled on bytes, including its handling of the
   non-ASCII Unicode White_Space runes (see [trim_space]).
   No proofs here: laws live in proofs/StrcaseProofs.v; the tie to the real
   library is the "strcase" correspondence stream of harness/cmd/run_ent. *)
From Coq Require Import List NArith Bool.
Import ListNotations.
Local Open Scope bool_scope.
Local Open Scope N_scope.

(* ---- byte classes ------------------------------------------------------- *)
Definition is_cap (c : N) : bool := (65 <=? c) && (c <=? 90).     (* 'A'..'Z' *)
Definition is_low (c : N) : bool := (97 <=? c) && (c <=? 122).    (* 'a'..'z' *)
Definition is_num (c : N) : bool := (48 <=? c) && (c <=? 57).     (* '0'..'9' *)
(* v == ' ' || v == '_' || v == '-' || v == '.' *)
Definition is_sep (c : N) : bool := (c =? 32) || (c =? 95) || (c =? 45) || (c =? 46).
Definition to_upper (c : N) : N := if is_low c then c - 32 else c.  (* v += 'A'; v -= 'a' *)
Definition to_lower (c : N) : N := if is_cap c then c + 32 else c.  (* v += 'a'; v -= 'A' *)

(* ---- strings.TrimSpace on bytes ---------------------------------------- *)
(* asciiSpace: '\t' '\n' '\v' '\f' '\r' ' ' *)
Definition ascii_space (c : N) : bool := ((9 <=? c) && (c <=? 13)) || (c =? 32).
(* the non-ASCII runes with unicode.IsSpace, each of which has exactly one UTF-8
   encoding: U+0085 (C2 85), U+00A0 (C2 A0); U+1680 (E1 9A 80), U+2000..U+200A
   (E2 80 80..8A), U+2028/2029 (E2 80 A8/A9), U+202F (E2 80 AF), U+205F (E2 81 9F),
   U+3000 (E3 80 80).  utf8.DecodeRune yields such a rune iff the bytes in front are
   exactly that encoding; utf8.DecodeLastRune yields it iff the bytes at the end are
   (its backward scan stops at the lead byte because the bytes between are
   continuation bytes); every other non-ASCII byte decodes to a non-space rune or to
   RuneError (width 1), which is not a space. *)
Definition space2 (b0 b1 : N) : bool := (b0 =? 194) && ((b1 =? 133) || (b1 =? 160)).
Definition space3 (b0 b1 b2 : N) : bool :=
  ((b0 =? 225) && (b1 =? 154) && (b2 =? 128))
  || ((b0 =? 226) && (b1 =? 128) &&
      (((128 <=? b2) && (b2 <=? 138)) || (b2 =? 168) || (b2 =? 169) || (b2 =? 175)))
  || ((b0 =? 226) && (b1 =? 129) && (b2 =? 159))
  || ((b0 =? 227) && (b1 =? 128) && (b2 =? 128)).

(* TrimLeftFunc(s, unicode.IsSpace) (and the ASCII fast path, which agrees with it) *)
Fixpoint trim_left (s : list N) : list N :=
  match s with
  | [] => []
  | c :: r =>
      if ascii_space c then trim_left r else
      match r with
      | d :: r1 =>
          if space2 c d then trim_left r1 else
          match r1 with
          | e :: r2 => if space3 c d e then trim_left r2 else s
          | [] => s
          end
      | [] => s
      end
  end.

(* TrimRightFunc on the reversed string: the head is the LAST byte *)
Fixpoint trim_left_rev (s : list N) : list N :=
  match s with
  | [] => []
  | c :: r =>
      if ascii_space c then trim_left_rev r else
      match r with
      | d :: r1 =>
          if space2 d c then trim_left_rev r1 else
          match r1 with
          | e :: r2 => if space3 e d c then trim_left_rev r2 else s
          | [] => s
          end
      | [] => s
      end
  end.

Definition trim_right (s : list N) : list N := rev (trim_left_rev (rev s)).
Definition trim_space (s : list N) : list N := trim_right (trim_left s).

(* ---- snake.go: ToScreamingDelimited(s, delimiter, "", screaming) --------- *)
(* the loop body at index i; [prev_cap] is "i > 0 && s[i-1] is A-Z" of the
   (trimmed) input, [s] is the input from index i on *)
Fixpoint delimited_go (delim : N) (screaming : bool) (prev_cap : bool) (s : list N) : list N :=
  match s with
  | [] => []
  | v0 :: r =>
      let v_cap := is_cap v0 in
      let v_low := is_low v0 in
      let v := if v_low && screaming then v0 - 32
               else if v_cap && negb screaming then v0 + 32 else v0 in
      let rest := delimited_go delim screaming v_cap r in
      let plain := (if is_sep v then delim else v) :: rest in
      match r with
      | next :: _ =>
          let v_num := is_num v in
          let n_cap := is_cap next in
          let n_low := is_low next in
          let n_num := is_num next in
          if (v_cap && (n_low || n_num)) || (v_low && (n_cap || n_num)) || (v_num && (n_cap || n_low))
          then
            (if v_cap && n_low && prev_cap then [delim] else [])
              ++ v :: (if v_low || v_num || n_num then [delim] else []) ++ rest
          else plain
      | [] => plain
      end
  end.

Definition to_screaming_delimited (delim : N) (screaming : bool) (s : list N) : list N :=
  delimited_go delim screaming false (trim_space s).

Definition to_delimited (delim : N) (s : list N) : list N := to_screaming_delimited delim false s.
Definition to_snake (s : list N) : list N := to_delimited 95 s.
Definition to_screaming_snake (s : list N) : list N := to_screaming_delimited 95 true s.
Definition to_kebab (s : list N) : list N := to_delimited 45 s.

(* ---- camel.go: toCamelInitCase(s, initCase), hasAcronym = false ---------- *)
(* [first] is "i == 0"; [cap_next], [prev_cap] are the loop variables *)
Fixpoint camel_go (first cap_next prev_cap : bool) (s : list N) : list N :=
  match s with
  | [] => []
  | v0 :: r =>
      let v_cap := is_cap v0 in
      let v_low := is_low v0 in
      let v := if cap_next then (if v_low then v0 - 32 else v0)
               else if first then (if v_cap then v0 + 32 else v0)
               else if prev_cap && v_cap then v0 + 32 else v0 in
      if v_cap || v_low then v :: camel_go false false v_cap r
      else if is_num v then v :: camel_go false true v_cap r
      else camel_go false (is_sep v) v_cap r
  end.

Definition to_camel_init (init_case : bool) (s : list N) : list N :=
  camel_go true init_case false (trim_space s).
Definition to_camel (s : list N) : list N := to_camel_init true s.
Definition to_lower_camel (s : list N) : list N := to_camel_init false s.
